#!/usr/bin/env python3
"""Regenerates MANIFEST.json from the per-property metadata below (kept valid at all times)."""
import json, os
HERE = os.path.dirname(os.path.dirname(os.path.abspath(__file__)))
PROPS = [json.loads(l) for l in open(os.path.join(HERE, "properties.jsonl"))]
CLAIMED = json.load(open(os.path.join(HERE, "tools", "claims.json")))
checks, na = [], []
for p in PROPS:
    pid = p["id"]
    c = CLAIMED.get(pid)
    if not c or c.get("status") != "claimed":
        na.append({"property_id": pid, "reason": (c or {}).get("reason", "check not built yet in this session (Lean model under construction); not claimed")})
        continue
    checks.append({
        "property_id": pid,
        "quick_cmd": f"./check {pid} --tier quick",
        "thorough_cmd": f"./check {pid} --tier thorough",
        "evidence_file": f"evidence/{pid}.json",
        "replay_cmd_template": f"./check {pid} --replay {{path}}",
        "engine": "lean-model",
        "level_claimed": {"category": "proof", "text": c["level_text"], "design_ref": c.get("design_ref", "DESIGN.md §8")},
        "level_note": c["level_note"],
        "technique": c["technique"],
    })
manifest = {
    "version": 1,
    "setup_cmd": "cd lean && lake build StathamModel driver",
    "hooks": {
        "guard": "JACKSMITH15_STATHAM_SCHEMA_VERIF",
        "enable": "no instrumentation was needed: every observation goes through the public API, vars(), ast and sys.settrace; ./check exports the guard for uniformity",
        "baseline_off_cmd": "tools/baseline_off.sh",
        "source_commits": [],
        "add_only": True,
    },
    "engines": [{
        "name": "lean-model", "path": "lean/",
        "serves_properties": [c["property_id"] for c in checks],
        "kind_free_text": "Lean 4 model of the library (StathamModel/*.lean) with kernel-checked theorems per property (StathamModel/Props/Cxx.lean); tables regenerated from /repo by translator/extract.py on every run and tied by StathamModel/Tie.lean; differential correspondence of the model's executable definitions (compiled driver, JSON line protocol) against the real code in-process (harness/)",
    }],
    "checks": checks,
    "not_applicable": na,
    "notes": "Every check: regenerate Gen/*.lean from /repo -> lake build Props.<id> + driver -> #print axioms audit + text scan -> correspondence + direct oracle -> known-finding replays (known_findings.json). Exit 0 held / 1 VIOLATION / 2 infrastructure. See DESIGN.md.",
}
json.dump(manifest, open(os.path.join(HERE, "MANIFEST.json"), "w"), indent=1, ensure_ascii=False)
print("claimed:", [c["property_id"] for c in checks], "not claimed:", len(na))
