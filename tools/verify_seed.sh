#!/bin/bash
# verify a seeded-change candidate in a scratch worktree: demo passes clean, suite stays green + demo fails with patch
# usage: tools/verify_seed.sh <candidate-dir>
set -u
cand="$(cd "$1" && pwd)"; name=$(basename "$cand")
wt=/tmp/wt-verify-$name
git -C /repo worktree remove --force "$wt" >/dev/null 2>&1
git -C /repo worktree add --detach "$wt" HEAD >/dev/null 2>&1 || { echo "worktree failed"; exit 2; }
cp "$cand/demo.py" "$wt/demo_seed.py"
cd "$wt"
PYTHONPATH="$wt" timeout 300 /venv/bin/python demo_seed.py >/dev/null 2>&1; clean=$?
git apply "$cand/patch.diff" || { echo "$name: patch does not apply"; git -C /repo worktree remove --force "$wt"; exit 2; }
suite=$(PYTHONPATH="$wt" /venv/bin/python -m pytest -q -p no:cacheprovider --continue-on-collection-errors 2>&1 | tail -1)
PYTHONPATH="$wt" timeout 300 /venv/bin/python demo_seed.py >/dev/null 2>&1; patched=$?
cd /; git -C /repo worktree remove --force "$wt"
echo "$name: demo clean=$clean patched=$patched suite='$suite'"
