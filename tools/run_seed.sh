#!/bin/bash
# run checks against a seeded change applied to /repo, then undo it
# usage: tools/run_seed.sh <candidate-dir> <PROP> [PROP...]
cand="$(cd "$1" && pwd)"; shift
# evidence files describe the unchanged tree: keep them out of the way while a seeded change is applied
keep=$(mktemp -d /tmp/evidence-keep-XXXXXX); cp -a /verif/evidence/. "$keep"/
git -C /repo apply "$cand/patch.diff" || { echo "patch does not apply"; rm -rf "$keep"; exit 2; }
for p in "$@"; do
  out=$(cd /verif && ./check "$p" --tier quick 2>&1); rc=$?
  echo "== $(basename $cand) $p exit=$rc"
  echo "$out" | grep -E "VIOLATION|infrastructure|Traceback" | head -3
done
git -C /repo checkout -- .
cp -a "$keep"/. /verif/evidence/; rm -rf "$keep"
git -C /repo status --short | head -3
/venv/bin/python /verif/translator/extract.py >/dev/null 2>&1
