#!/bin/bash
# run checks against a seeded change applied to /repo, then undo it
# usage: tools/run_seed.sh <candidate-dir> <PROP> [PROP...]
cand="$(cd "$1" && pwd)"; shift
git -C /repo apply "$cand/patch.diff" || { echo "patch does not apply"; exit 2; }
for p in "$@"; do
  out=$(cd /verif && ./check "$p" --tier quick 2>&1); rc=$?
  echo "== $(basename $cand) $p exit=$rc"
  echo "$out" | grep -E "VIOLATION|infrastructure|Traceback" | head -3
done
git -C /repo checkout -- .
git -C /repo status --short | head -3
/venv/bin/python /verif/translator/extract.py >/dev/null 2>&1
