#!/bin/bash
# Runs the repository's pinned test suite with the verification guard OFF and
# checks that every test in BASELINE.json's stable_pass list passes.
unset JACKSMITH15_STATHAM_SCHEMA_VERIF
out=$(mktemp /tmp/statham-junit-XXXXXX.xml)
cd /repo && /venv/bin/python -m pytest -ra -q -p no:cacheprovider --timeout=900 --continue-on-collection-errors --junitxml="$out" >/dev/null 2>&1
/venv/bin/python - "$out" <<'PY'
import json, sys, xml.etree.ElementTree as ET
root = ET.parse(sys.argv[1]).getroot()
passed = set()
for tc in root.iter("testcase"):
    if any(ch.tag in ("failure", "error", "skipped") for ch in tc):
        continue
    cn = tc.get("classname", ""); nm = tc.get("name", "")
    passed.add(cn + "::" + nm)
try:
    base = json.load(open("/root/.vp/BASELINE.json"))["stable_pass"]
except Exception:
    base = None
if base is None:
    print("passed", len(passed)); sys.exit(0 if len(passed) >= 1008 else 1)
def norm(s):  # BASELINE ids look like tests.x.y::test[param] or tests.x.Class::test
    return s
missing = [b for b in base if b not in passed]
print("baseline stable_pass:", len(base), "passed now:", len(passed), "missing:", len(missing))
for m in missing[:20]: print("  MISSING", m)
sys.exit(1 if missing else 0)
PY
rc=$?
rm -f "$out"
exit $rc
