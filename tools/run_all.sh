#!/bin/bash
# run every claimed check at one tier; usage: tools/run_all.sh [quick|thorough] [seed]
tier=${1:-quick}; seed=${2:-20260929}
cd /verif
for p in C01 C02 C03 C04 C05 C06 C07 C08 C09 C10 C11 C12 C13 C14 C15 C16 C17 C18 C19 C20; do
  out=$(VERIF_SEED=$seed ./check $p --tier $tier 2>&1); rc=$?
  echo "$p exit=$rc $(echo "$out" | grep -E 'held|VIOLATION|infrastructure' | tail -1)"
done
