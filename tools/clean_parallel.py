#!/usr/bin/env python3
"""Every check on the unchanged tree with several VERIF_SEED values, in parallel, in scratch copies (nothing in /repo or /verif is touched).
usage: tools/clean_parallel.py [--workers N] [--tier quick|thorough] [--seeds 1,2,3] [CHECK_ID ...]
Prints one line per (seed, check); exit 1 if any run did not exit 0."""
import os
import shutil
import subprocess
import sys
import threading

VERIF = os.path.dirname(os.path.dirname(os.path.abspath(__file__)))
ALL = [f"C{i:02d}" for i in range(1, 21)]


def opt(name, default):
    return sys.argv[sys.argv.index(name) + 1] if name in sys.argv else default


def sh(cmd, **kw):
    return subprocess.run(cmd, shell=True, capture_output=True, text=True, **kw)


def worker(idx, queue, results, lock, tier):
    base = f"/tmp/cl-{os.getpid()}-{idx}"   # unique per invocation: two runs at once must not share scratch copies
    shutil.rmtree(base, ignore_errors=True)
    os.makedirs(base)
    repo, verif = f"{base}/repo", f"{base}/verif"
    sh(f"git -C /repo worktree add --detach {repo} HEAD")
    sh(f"rsync -a --exclude .git --exclude replays {VERIF}/ {verif}/")
    try:
        while True:
            with lock:
                if not queue:
                    return
                seed, chk = queue.pop(0)
            env = dict(os.environ, STATHAM_REPO=repo, VERIF_SEED=seed)
            try:
                r = sh(f"cd {verif} && ./check {chk} --tier {tier}", env=env, timeout=7200)
                rc, out = r.returncode, r.stdout
            except subprocess.TimeoutExpired:
                rc, out = 124, "timeout"
            last = next((l for l in reversed(out.splitlines()) if l.startswith("[") or l.startswith("VIOLATION")), out[-200:])
            with lock:
                results.append((seed, chk, rc, last))
                print(f"seed={seed} {chk} exit={rc} {last}", flush=True)
                if rc != 0:
                    keep = f"/tmp/clean-fail-{seed}-{chk}"
                    shutil.rmtree(keep, ignore_errors=True)
                    shutil.copytree(f"{verif}/replays", keep, dirs_exist_ok=True) if os.path.isdir(f"{verif}/replays") else None
                    open(f"{keep}.out", "w").write(out)
    finally:
        sh(f"git -C /repo worktree remove --force {repo}")
        shutil.rmtree(base, ignore_errors=True)


def main():
    n = int(opt("--workers", "7"))
    tier = opt("--tier", "quick")
    seeds = opt("--seeds", "1,2,3,7,20260929").split(",")
    skip = {"--workers", "--tier", "--seeds"}
    args, it = [], iter(sys.argv[1:])
    for a in it:
        if a in skip:
            next(it)
        elif not a.startswith("--"):
            args.append(a)
    checks = args or ALL
    queue = [(s, c) for s in seeds for c in checks]
    results, lock = [], threading.Lock()
    threads = [threading.Thread(target=worker, args=(i, queue, results, lock, tier)) for i in range(n)]
    for t in threads:
        t.start()
    for t in threads:
        t.join()
    bad = [r for r in results if r[2] != 0]
    print(f"{len(results)} runs, {len(bad)} not exit 0")
    sys.exit(1 if bad else 0)


if __name__ == "__main__":
    main()
