#!/usr/bin/env python3
"""(Re)write the seeded-change table of DESIGN.md §15.5 from seeded/*/meta.json."""
import glob
import json
import os
import re

VERIF = os.path.dirname(os.path.dirname(os.path.abspath(__file__)))
rows = ["| seeded change | what it needs to manifest | caught by (quick tier) |", "|---|---|---|"]
for f in sorted(glob.glob(os.path.join(VERIF, "seeded", "*", "meta.json"))):
    m = json.load(open(f))
    needs = m.get("needs_to_manifest", "").replace("|", "\\|")
    if len(needs) > 230:
        needs = needs[:227] + "…"
    title = m.get("title", "").replace("|", "\\|")
    caught = ", ".join(m.get("caught_by", [])) or "—"
    missed = sorted(p for p, r in m.get("checks", {}).items() if not r["caught"])
    rows.append(f"| `{m['id']}` {title} | {needs} | {caught} |")
table = "\n".join(rows)
path = os.path.join(VERIF, "DESIGN.md")
text = open(path, encoding="utf8").read()
begin, end = "<!-- SEED_TABLE_BEGIN -->", "<!-- SEED_TABLE_END -->"
if begin in text:
    text = re.sub(re.escape(begin) + ".*?" + re.escape(end), begin + "\n" + table + "\n" + end, text, flags=re.S)
else:
    text = text.replace("SEED_TABLE", begin + "\n" + table + "\n" + end)
open(path, "w", encoding="utf8").write(text)
print(len(rows) - 2, "rows")
