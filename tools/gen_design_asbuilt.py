#!/usr/bin/env python3
"""(Re)write the seeded-change table of DESIGN.md §15.5 from seeded/*/meta.json."""
import glob
import json
import os
import re

VERIF = os.path.dirname(os.path.dirname(os.path.abspath(__file__)))
rows = ["| seeded change | what it needs to manifest | caught by (quick tier) |", "|---|---|---|"]
for f in sorted(glob.glob(os.path.join(VERIF, "seeded", "*", "meta.json"))):
    m = json.load(open(f))
    needs = m.get("needs_to_manifest", "").replace("|", "\\|")
    if len(needs) > 230:
        needs = needs[:227] + "…"
    title = m.get("title", "").replace("|", "\\|")
    caught = ", ".join(m.get("caught_by", [])) or "—"
    missed = sorted(p for p, r in m.get("checks", {}).items() if not r["caught"])
    rows.append(f"| `{m['id']}` {title} | {needs} | {caught} |")
table = "\n".join(rows)
path = os.path.join(VERIF, "DESIGN.md")
text = open(path, encoding="utf8").read()
begin, end = "<!-- SEED_TABLE_BEGIN -->", "<!-- SEED_TABLE_END -->"
if begin in text:
    text = re.sub(re.escape(begin) + ".*?" + re.escape(end), lambda _m: begin + "\n" + table + "\n" + end, text, flags=re.S)
else:
    text = text.replace("SEED_TABLE", begin + "\n" + table + "\n" + end)
# theorem inventory per property, from the evidence files of the last clean run
inv = ["| property | technique (deciding method) | theorems audited on the last run (own modules) | open findings |", "|---|---|---|---|"]
claims = json.load(open(os.path.join(VERIF, "tools", "claims.json")))
known = json.load(open(os.path.join(VERIF, "known_findings.json")))["findings"]
for i in range(1, 21):
    pid = f"C{i:02d}"
    try:
        ev = json.load(open(os.path.join(VERIF, "evidence", pid + ".json")))
        ths = [t.split(".", 2)[-1] for t in ev["coverage"]["theorems"] if f".{pid}." in t]
    except FileNotFoundError:
        ths = []
    main = [t for t in ths if t.startswith(pid + "_") or t.startswith("counter_")] or ths
    shown = ", ".join(f"`{t}`" for t in main[:14]) + (f" … (+{len(ths) - min(len(main), 14)} supporting)" if len(ths) > min(len(main), 14) else "")
    opens = [f["id"].split("-", 1)[1] for f in known if f.get("status") == "open" and pid in f.get("properties", [])]
    inv.append(f"| {pid} | {claims[pid]['technique']} | {shown} | {', '.join(opens) or '—'} |")
b2, e2 = "<!-- THEOREM_TABLE_BEGIN -->", "<!-- THEOREM_TABLE_END -->"
block = b2 + "\n" + "\n".join(inv) + "\n" + e2
if b2 in text:
    text = re.sub(re.escape(b2) + ".*?" + re.escape(e2), lambda _m: block, text, flags=re.S)
else:
    text = text.replace("### 15.6 Trusted base, as built", "### 15.7 Theorem inventory (generated from the last clean run's evidence)\n\n" + block + "\n\n### 15.6 Trusted base, as built")
open(path, "w", encoding="utf8").write(text)
print(len(rows) - 2, "rows;", len(inv) - 2, "properties")
