#!/usr/bin/env python3
"""Cross matrix: every kept seeded change against every check, in parallel, without touching /repo or /verif.

Each worker gets a scratch worktree of /repo and a scratch copy of /verif under /tmp (removed afterwards); the
check is pointed at the worktree with STATHAM_REPO.  Results are merged into seeded/<id>/meta.json["checks"].
usage: tools/seed_matrix_parallel.py [--workers N] [--own] [SEED_ID ...]   (--own: only the check of the seed's own property)"""
import json
import os
import shutil
import subprocess
import sys
import threading

VERIF = os.path.dirname(os.path.dirname(os.path.abspath(__file__)))
ALL = [f"C{i:02d}" for i in range(1, 21)]


def sh(cmd, **kw):
    return subprocess.run(cmd, shell=True, capture_output=True, text=True, **kw)


def worker(idx, queue, results, lock):
    base = f"/tmp/mx{'o' if OWN else ''}-{os.getpid()}-{idx}"
    shutil.rmtree(base, ignore_errors=True)
    os.makedirs(base)
    repo, verif = f"{base}/repo", f"{base}/verif"
    sh(f"git -C /repo worktree add --detach {repo} HEAD")
    sh(f"rsync -a --exclude .git --exclude replays {VERIF}/ {verif}/")
    env = dict(os.environ, STATHAM_REPO=repo)
    try:
        while True:
            with lock:
                if not queue:
                    return
                sid = queue.pop(0)
            patch = os.path.join(VERIF, "seeded", sid, "patch.diff")
            if sh(f"git -C {repo} apply {patch}").returncode != 0:
                with lock:
                    results[sid] = None
                continue
            res = {}
            for p in ([sid[:3]] if OWN else ALL):
                try:
                    r = sh(f"cd {verif} && ./check {p} --tier quick", env=env, timeout=2400)
                    rc, text = r.returncode, r.stdout
                except subprocess.TimeoutExpired:
                    rc, text = 124, ""
                line = next((l for l in text.splitlines() if l.startswith("VIOLATION")), "")
                res[p] = {"exit": rc, "caught": rc == 1 and bool(line),
                          "no_failing_input_found": line.endswith("no-failing-input-found")}
            sh(f"git -C {repo} checkout -- .")
            with lock:
                results[sid] = res
                print(sid, "caught by", [p for p, x in res.items() if x["caught"]], flush=True)
    finally:
        sh(f"git -C /repo worktree remove --force {repo}")
        shutil.rmtree(base, ignore_errors=True)


OWN = "--own" in sys.argv


def main():
    args = [a for a in sys.argv[1:] if not a.startswith("--")]
    n = 6
    if "--workers" in sys.argv:
        n = int(sys.argv[sys.argv.index("--workers") + 1])
        args = [a for a in args if a != str(n)]
    seeds = args or sorted(os.listdir(os.path.join(VERIF, "seeded")))
    queue, results, lock = list(seeds), {}, threading.Lock()
    threads = [threading.Thread(target=worker, args=(i, queue, results, lock)) for i in range(n)]
    for t in threads:
        t.start()
    for t in threads:
        t.join()
    for sid, res in results.items():
        if res is None:
            continue
        mp = os.path.join(VERIF, "seeded", sid, "meta.json")
        meta = json.load(open(mp)) if os.path.exists(mp) else {"id": sid}
        meta.setdefault("checks", {}).update(res)
        meta["caught_by"] = sorted(p for p, x in meta["checks"].items() if x["caught"])
        if not OWN:
            meta["cross_matrix"] = "tools/seed_matrix_parallel.py: every check's quick tier against this change, in a scratch worktree (STATHAM_REPO)"
        json.dump(meta, open(mp, "w"), indent=1)


if __name__ == "__main__":
    main()
