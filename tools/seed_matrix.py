#!/usr/bin/env python3
"""Run every kept seeded change against checks and record who catches it.
usage: tools/seed_matrix.py [--all-checks] [SEED_ID ...]
For each /verif/seeded/<id>/ : apply patch.diff to /repo, run ./check <PROP> --tier quick for its own property
(and, with --all-checks, for every property), undo the patch, and write the outcome into meta.json.
Never run while other checks are running: the patch is applied to /repo's working tree."""
import json
import os
import re
import shutil
import subprocess
import sys
import tempfile

VERIF = os.path.dirname(os.path.dirname(os.path.abspath(__file__)))
ALL = [f"C{i:02d}" for i in range(1, 21)]


def sh(cmd, **kw):
    return subprocess.run(cmd, shell=True, capture_output=True, text=True, **kw)


def notes_fields(text):
    title = text.strip().splitlines()[0].lstrip("# ").strip() if text.strip() else ""
    needs = ""
    m = re.search(r"(?im)^[-*\s]*(?:what it )?needs(?: to manifest)?[^:\n]*:\s*(.+?)(?=\n[-*] |\n[A-Z][a-z]+[^\n]{0,40}:|\n\n|\Z)", text, re.S)
    if m:
        needs = " ".join(m.group(1).split())
    why = ""
    m = re.search(r"(?im)^[-*\s]*why it breaks[^:\n]*:\s*(.+?)(?=\n[-*] |\n[A-Z][a-z]+[^\n]{0,40}:|\n\n|\Z)", text, re.S)
    if m:
        why = " ".join(m.group(1).split())
    return title, why, needs


def main():
    args = [a for a in sys.argv[1:] if not a.startswith("--")]
    all_checks = "--all-checks" in sys.argv
    seeds = args or sorted(os.listdir(os.path.join(VERIF, "seeded")))
    assert sh("git -C /repo status --porcelain").stdout.strip() == "", "/repo is not clean"
    for sid in seeds:
        d = os.path.join(VERIF, "seeded", sid)
        if not os.path.isfile(os.path.join(d, "patch.diff")):
            continue
        prop = sid.split("-")[0]
        meta_path = os.path.join(d, "meta.json")
        meta = json.load(open(meta_path)) if os.path.exists(meta_path) else {}
        title, why, needs = notes_fields(open(os.path.join(d, "notes.md"), encoding="utf8").read())
        meta.update({"id": sid, "breaks_property": prop, "title": title, "why_it_breaks": why, "needs_to_manifest": needs,
                     "files": {"patch": "patch.diff", "demonstration": "demo.py", "notes": "notes.md"},
                     "confirmed_by": "tools/verify_seed.sh in a scratch worktree under /tmp (removed afterwards): demo.py exits 0 on the clean tree; with the "
                                     "patch applied the pinned suite still reports 1008 passed and demo.py exits 1"})
        keep = tempfile.mkdtemp(prefix="evidence-keep-")
        sh(f"cp -a {VERIF}/evidence/. {keep}/")
        ap = sh(f"git -C /repo apply {d}/patch.diff")
        if ap.returncode != 0:
            meta["applies"] = False
            json.dump(meta, open(meta_path, "w"), indent=1)
            shutil.rmtree(keep)
            print(sid, "patch does not apply")
            continue
        results = meta.get("checks", {})
        try:
            for p in (ALL if all_checks else [prop]):
                r = sh(f"cd {VERIF} && ./check {p} --tier quick")
                line = next((l for l in r.stdout.splitlines() if l.startswith("VIOLATION")), "")
                results[p] = {"exit": r.returncode, "caught": r.returncode == 1 and bool(line),
                              "no_failing_input_found": line.endswith("no-failing-input-found")}
                print(sid, p, "exit", r.returncode, line[:90], flush=True)
        finally:
            sh("git -C /repo checkout -- .")
            sh(f"cp -a {keep}/. {VERIF}/evidence/")
            shutil.rmtree(keep)
        meta["applies"] = True
        meta["checks"] = results
        meta["caught_by"] = sorted(p for p, r in results.items() if r["caught"])
        meta["ran"] = "git -C /repo apply seeded/%s/patch.diff; ./check <ID> --tier quick; git -C /repo checkout -- ." % sid
        json.dump(meta, open(meta_path, "w"), indent=1)
    sh(f"/venv/bin/python {VERIF}/translator/extract.py")


if __name__ == "__main__":
    main()
