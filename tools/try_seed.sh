#!/bin/bash
# run one check against a seeded change in a scratch worktree (never touches /repo); evidence of the run is discarded
# usage: tools/try_seed.sh <seed-id> [<check-id>] [tier]
set -u
here="$(cd "$(dirname "$0")/.." && pwd)"
sid="$1"; chk="${2:-${sid:0:3}}"; tier="${3:-quick}"
wt=/tmp/ts-$sid-$$
git -C /repo worktree add --detach "$wt" HEAD >/dev/null 2>&1 || { echo "worktree failed"; exit 2; }
git -C "$wt" apply "$here/seeded/$sid/patch.diff" || { echo "$sid: patch does not apply"; git -C /repo worktree remove --force "$wt"; exit 2; }
bak=$(mktemp -d)
cp -a "$here/evidence/." "$bak/"
(cd "$here" && STATHAM_REPO="$wt" ./check "$chk" --tier "$tier"); rc=$?
rm -rf "$here/evidence"; mkdir -p "$here/evidence"; cp -a "$bak/." "$here/evidence/"; rm -rf "$bak"
git -C /repo worktree remove --force "$wt"
echo "[$sid vs $chk] exit=$rc"
exit $rc
