#!/usr/bin/env python3
"""Collect sub-agent candidates into seeded/: usage tools/collect_round.py <round-dir> <round-no> <letters>  (e.g. /tmp/r5 5 ij)
Each candidate <round-dir>/<Cxx>/out/<a|b>/ is confirmed with tools/verify_seed.sh (demo exits 0 clean, suite green + demo exits 1 patched)
and kept only then."""
import json, os, re, shutil, subprocess, sys
VERIF = os.path.dirname(os.path.dirname(os.path.abspath(__file__)))
src, rnd, letters = sys.argv[1], int(sys.argv[2]), sys.argv[3]


def section(text, *names):
    for n in names:
        m = re.search(r"^##+\s*[^\n]*" + n + r"[^\n]*\n(.*?)(?=^##+\s|\Z)", text, re.S | re.M | re.I)
        if m:
            return re.sub(r"\s+", " ", m.group(1)).strip()
    return ""


for pid in sorted(d for d in os.listdir(src) if re.fullmatch(r"C\d\d", d)):
    for sub, letter in zip("ab", letters):
        cand = os.path.join(src, pid, "out", sub)
        if not os.path.exists(os.path.join(cand, "patch.diff")):
            print(pid, sub, "missing"); continue
        sid = f"{pid}-{letter}"
        dst = os.path.join(VERIF, "seeded", sid)
        shutil.rmtree(dst, ignore_errors=True)
        shutil.copytree(cand, dst)
        r = subprocess.run([os.path.join(VERIF, "tools", "verify_seed.sh"), dst], capture_output=True, text=True)
        line = [l for l in r.stdout.splitlines() if l.startswith(sid)]
        line = line[-1] if line else r.stdout[-300:]
        ok = "clean=0 patched=1" in line and "1008 passed" in line
        print(line, "OK" if ok else "REJECTED", flush=True)
        if not ok:
            shutil.rmtree(dst); continue
        notes = open(os.path.join(dst, "notes.md"), encoding="utf8").read()
        title = next((l.lstrip("# ").strip() for l in notes.splitlines() if l.strip()), sid)
        meta = {"id": sid, "breaks_property": pid, "title": f"{pid} variant {letter} - {title}",
                "why_it_breaks": section(notes, "why", "breaks")[:2500] or section(notes, "mechanism")[:2500],
                "needs_to_manifest": section(notes, "needed", "needs", "manifest")[:2500],
                "files": {"patch": "patch.diff", "demonstration": "demo.py", "notes": "notes.md"},
                "confirmed_by": "tools/verify_seed.sh in a scratch worktree under /tmp (removed afterwards): demo.py exits 0 on the clean tree; with the patch applied the pinned suite still reports 1008 passed and demo.py exits 1",
                "round": rnd, "applies": True, "checks": {}, "caught_by": []}
        json.dump(meta, open(os.path.join(dst, "meta.json"), "w"), indent=1, ensure_ascii=False)
