"""A controlled thread scheduler for CPython: real threads, but exactly one runs at a time and the
switch points are chosen by the harness.  Each worker installs a trace function; at every `line`
event inside the library's own files it asks the scheduler for permission to go on.  A schedule
is a list of segments (thread, number of line events); when the segments are used up the
remaining threads run to completion in index order.  So one PRNG state determines the
interleaving, and a failing interleaving replays exactly."""
import os
import sys
import threading

import statham

LIB_DIR = os.path.dirname(os.path.abspath(statham.__file__)) + os.sep


class Stuck(Exception):
    pass


class Scheduler:
    def __init__(self, n_threads, segments, wait_s=3.0):
        self.cv = threading.Condition()
        self.n = n_threads
        self.segments = [list(s) for s in segments]
        self.done = set()
        self.turn, self.left = None, 0
        self.events = [0] * n_threads
        self.free = False            # set when a wait timed out: everybody runs freely, the case is discarded
        self.wait_s = wait_s
        self.switches = 0
        with self.cv:
            self._advance()

    def _advance(self):
        prev = self.turn
        while self.segments:
            tid, k = self.segments.pop(0)
            if tid not in self.done and k > 0:
                self.turn, self.left = tid, k
                break
        else:
            rest = [t for t in range(self.n) if t not in self.done]
            self.turn, self.left = (rest[0], float("inf")) if rest else (None, 0)
        if prev is not None and self.turn != prev:
            self.switches += 1

    def _wait_turn(self, tid):
        while self.turn != tid and not self.free:
            if not self.cv.wait(timeout=self.wait_s):
                self.free = True
                self.cv.notify_all()

    def tick(self, tid):
        with self.cv:
            self._wait_turn(tid)
            if self.free:
                return
            if self.left <= 0:
                self._advance()
                self.cv.notify_all()
                self._wait_turn(tid)
                if self.free:
                    return
            self.left -= 1
            self.events[tid] += 1

    def finish(self, tid):
        with self.cv:
            self.done.add(tid)
            if self.turn == tid or self.turn is None:
                self._advance()
            self.cv.notify_all()


def make_tracer(on_line):
    def local(frame, event, arg):
        if event == "line":
            on_line()
        return local

    def tracer(frame, event, arg):
        if event == "call" and frame.f_code.co_filename.startswith(LIB_DIR):
            return local
        return None
    return tracer


def count_lines(fn):
    """Number of library line events `fn()` executes when run alone, and its return value."""
    n = [0]

    def on_line():
        n[0] += 1
    old = sys.gettrace()
    sys.settrace(make_tracer(on_line))
    try:
        res = fn()
    finally:
        sys.settrace(old)
    return n[0], res


def bracket_points(fn):
    """Run `fn()` alone and return the indexes (in library line events) at which it is *inside* a bracket: the event right
    after a `with ...:` line, or after a line that swaps a module- or process-wide setting (heuristic on the source text).
    Such points are where a preemption is most likely to expose state shared between threads."""
    import linecache
    points, n, prev = [], [0], [None]

    def local(frame, event, arg):
        if event == "line":
            n[0] += 1
            src = linecache.getline(frame.f_code.co_filename, frame.f_lineno).strip()
            if prev[0] is not None and (prev[0].startswith("with ") or "catch_warnings" in prev[0] or "simplefilter" in prev[0] or "global " in prev[0]):
                points.append(n[0] - 1)
            prev[0] = src
        return local

    def tracer(frame, event, arg):
        if event == "call" and frame.f_code.co_filename.startswith(LIB_DIR):
            return local
        return None
    old = sys.gettrace()
    sys.settrace(tracer)
    try:
        fn()
    finally:
        sys.settrace(old)
    return points


def run_scheduled(workers, segments):
    """workers: list of zero-argument callables; returns (results, scheduler).  results[i] is the
    return value of workers[i] or the exception it raised."""
    sched = Scheduler(len(workers), segments)
    results = [None] * len(workers)

    def body(tid):
        sys.settrace(make_tracer(lambda: sched.tick(tid)))
        try:
            results[tid] = workers[tid]()
        except BaseException as exc:  # noqa: BLE001
            results[tid] = exc
        finally:
            sys.settrace(None)
            sched.finish(tid)
    threads = [threading.Thread(target=body, args=(i,), daemon=True) for i in range(len(workers))]
    for t in threads:
        t.start()
    for t in threads:
        t.join(timeout=30)
    if any(t.is_alive() for t in threads):
        sched.free = True
        with sched.cv:
            sched.cv.notify_all()
        for t in threads:
            t.join(timeout=5)
        raise Stuck("worker threads did not finish")
    return results, sched
