"""Element trees through the public DSL: build a real tree from a dump (the JSON shape of
`core.dump_elem` / `Codec.encElem`), and generate random dumps.  `dump_elem(build(d)) == d`
for every generated `d` (checked by the harness), so model and implementation see one tree."""
import random

from statham.schema.constants import NotPassed
from statham.schema.elements import (
    AllOf, AnyOf, Array, Boolean, Element, Integer, Not, Nothing, Null, Number, Object, OneOf, String,
)
from statham.schema.elements.meta import ObjectClassDict, ObjectMeta
from statham.schema.property import Property

from harness import gen

NP = NotPassed()
SIMPLE = {"Boolean": Boolean, "Integer": Integer, "Null": Null, "Number": Number, "String": String}
COMP = {"AnyOf": AnyOf, "OneOf": OneOf, "AllOf": AllOf}
# which kw names each class's constructor accepts (mirrors the signatures; the Lean side re-checks them)
ALLOWED = {
    "Boolean": {"default", "const", "enum", "description"},
    "Null": {"default", "const", "enum", "description"},
    "String": {"default", "const", "enum", "format", "pattern", "minLength", "maxLength", "description"},
    "Integer": {"default", "const", "enum", "minimum", "maximum", "exclusiveMinimum", "exclusiveMaximum", "multipleOf", "description"},
    "Number": {"default", "const", "enum", "minimum", "maximum", "exclusiveMinimum", "exclusiveMaximum", "multipleOf", "description"},
}


def dec_val(j):
    if j is None or isinstance(j, (bool, str)):
        return j
    if isinstance(j, list):
        return [dec_val(x) for x in j]
    if "i" in j:
        return int(j["i"])
    if "f" in j:
        return int(j["f"][0]) / int(j["f"][1])
    if "o" in j:
        return {k: dec_val(v) for k, v in j["o"]}
    raise ValueError(j)


def _kwargs(d):
    kw = d.get("kw", {})
    out = {}
    for lit in ("default", "const"):
        if lit in kw:
            out[lit] = dec_val(kw[lit])
    if "enum" in kw:
        out["enum"] = [dec_val(x) for x in kw["enum"]]
    for name in ("minItems", "maxItems", "minimum", "maximum", "exclusiveMinimum", "exclusiveMaximum", "multipleOf",
                 "minLength", "maxLength", "minProperties", "maxProperties"):
        if name in kw:
            out[name] = dec_val(kw[name])
    for name in ("format", "pattern", "description"):
        if name in kw:
            out[name] = kw[name]
    if kw.get("uniqueItems"):
        out["uniqueItems"] = True
    if "required" in kw:
        out["required"] = list(kw["required"])
    return out


def build(d, cache=None):
    """Real element from a dump.  `cache` maps id(sub-dump) to an already built real element to be reused (the same
    Python object, e.g. the same class), for trees that share an element by identity."""
    cache = {} if cache is None else cache
    if id(d) in cache:
        return cache[id(d)]
    cls = d["cls"]
    kw = d.get("kw", {})
    args = _kwargs(d)
    kind = kw.get("itemsKind")
    if kind == "single":
        args["items"] = build(d["items"][0], cache)
    elif kind == "tuple":
        args["items"] = [build(x, cache) for x in d.get("items", [])]
    if "addItems" in d:
        args["additionalItems"] = build(d["addItems"], cache)
    elif kw.get("addItemsB") is False:
        args["additionalItems"] = False
    if "contains" in d:
        args["contains"] = build(d["contains"], cache)
    if kw.get("hasProps"):
        props = {}
        for key, sub in d.get("props", []):
            props[key["name"]] = Property(build(sub, cache), required=bool(key.get("required")),
                                          source=key.get("source") if key.get("source") != key["name"] else None)
        args["properties"] = props
    if kw.get("hasPatProps"):
        args["patternProperties"] = {key["name"]: build(sub, cache) for key, sub in d.get("patProps", [])}
    if "addProps" in d:
        args["additionalProperties"] = build(d["addProps"], cache)
    elif kw.get("addPropsB") is False:
        args["additionalProperties"] = False
    if "propNames" in d:
        args["propertyNames"] = build(d["propNames"], cache)
    if kw.get("hasDeps"):
        deps = {}
        for key, sub in d.get("deps", []):
            deps[key["name"]] = list(key["names"]) if "names" in key else build(sub, cache)
        args["dependencies"] = deps
    def finish(inst, used):
        # keywords the constructor does not take can only be there through later assignment
        for k, v in args.items():
            if k not in used:
                setattr(inst, k, v)
        return inst

    if cls == "Element":
        return Element(**args)
    if cls == "Nothing":
        return finish(Nothing(), set())
    if cls in SIMPLE:
        return finish(SIMPLE[cls](**{k: v for k, v in args.items() if k in ALLOWED[cls]}), ALLOWED[cls])
    if cls == "Array":
        keep = {"items", "default", "const", "enum", "additionalItems", "minItems", "maxItems", "uniqueItems", "contains", "description"}
        items = args.get("items", NP)
        inst = Array(items, **{k: v for k, v in args.items() if k in keep and k != "items"})
        return finish(inst, keep)
    if cls in COMP:
        members = [build(x, cache) for x in d["elements"]]
        extra = {"default": args["default"]} if "default" in args else {}
        return finish(COMP[cls](*members, **extra), {"default"})
    if cls == "Not":
        extra = {"default": args["default"]} if "default" in args else {}
        return finish(Not(build(d["elements"][0], cache), **extra), {"default"})
    if cls == "Object":
        classdict = ObjectClassDict()
        for name, prop in args.get("properties", {}).items():
            classdict[name] = prop
        keep = {"properties", "default", "const", "enum", "required", "minProperties", "maxProperties", "patternProperties",
                "additionalProperties", "propertyNames", "dependencies", "description"}
        inst = ObjectMeta(d["name"], (Object,), classdict, **{k: v for k, v in args.items() if k in keep and k != "properties"})
        return finish(inst, keep)
    raise ValueError(cls)


ATTRS = ["a", "b", "c", "a_b", "class_", "_1x", "_p"]
SOURCES = {"a": None, "b": None, "c": None, "a_b": "a b", "class_": "class", "_1x": "1x", "_p": None}
# property names spelled like schema keywords (JSON name and/or attribute): nothing may treat them as the keyword
KW_ATTRS = ["default", "const", "enum", "description", "required", "items", "type", "title", "default_", "enum_"]
SOURCES.update({"default": None, "const": None, "enum": None, "description": None, "required": None, "items": None, "type": None,
                "title": None, "default_": "default", "enum_": "enum"})


class DumpGen:
    def __init__(self, rng: random.Random):
        self.rng = rng
        self.sg = gen.SchemaGen(rng)
        self.n = 0

    def enc(self, v):
        from harness.core import enc_val
        return enc_val(v)

    def num(self):
        from harness.core import enc_num
        return enc_num(self.rng.choice(gen.INTS + [1.5, 0.5, 2.0]))

    def lits(self, kw):
        r = self.rng
        if r.random() < 0.15:
            kw["default"] = self.enc(self.sg.json_value(2))
        if r.random() < 0.12:
            kw["const"] = self.enc(self.sg.json_value(1))
        if r.random() < 0.12:
            kw["enum"] = [self.enc(self.sg.json_value(1)) for _ in range(r.randint(1, 3))]
        if r.random() < 0.08:
            kw["description"] = r.choice(gen.DESCRIPTIONS)

    def dump(self, depth=3):
        r = self.rng
        if depth <= 0:
            return self.leaf()
        k = r.random()
        if k < 0.25:
            return self.leaf()
        if k < 0.45:
            return self.element(depth)
        if k < 0.6:
            return self.array(depth)
        if k < 0.78:
            return self.obj(depth)
        if k < 0.95:
            cls = r.choice(["AnyOf", "OneOf", "AllOf"])
            kw = {}
            if r.random() < 0.2:
                kw["default"] = self.enc(self.sg.json_value(1))
            return {"cls": cls, "elements": [self.dump(depth - 1) for _ in range(r.choice([1, 2, 2, 3]))], "kw": kw}
        kw = {}
        if r.random() < 0.2:
            kw["default"] = self.enc(self.sg.json_value(1))
        return {"cls": "Not", "elements": [self.dump(depth - 1)], "kw": kw}

    def leaf(self):
        r = self.rng
        cls = r.choice(["String", "Integer", "Number", "Boolean", "Null", "Element", "Nothing", "Element"])
        kw = {}
        if cls == "Nothing":
            return {"cls": cls, "kw": kw}
        self.lits(kw)
        if cls == "String":
            if r.random() < 0.4:
                kw["minLength"] = self.enc(r.choice([0, 1, 2]))
            if r.random() < 0.4:
                kw["maxLength"] = self.enc(r.choice([1, 2, 3]))
            if r.random() < 0.3:
                kw["pattern"] = r.choice(gen.PATTERNS)
            if r.random() < 0.15:
                kw["format"] = r.choice(gen.FORMATS)
        if cls in ("Integer", "Number", "Element"):
            for name in ("minimum", "maximum", "exclusiveMinimum", "exclusiveMaximum"):
                if r.random() < 0.2:
                    kw[name] = self.num()
            if r.random() < 0.2:
                kw["multipleOf"] = self.enc(r.choice([1, 2, 3, 5]))
        return {"cls": cls, "kw": kw}

    def array(self, depth):
        r = self.rng
        kw = {}
        out = {"cls": "Array"}
        self.lits(kw)
        if r.random() < 0.6:
            kw["itemsKind"] = "single"
            out["items"] = [self.dump(depth - 1)]
        else:
            kw["itemsKind"] = "tuple"
            items = [self.dump(depth - 1) for _ in range(r.choice([0, 1, 2, 2]))]
            if items:
                out["items"] = items
        self.array_kws(kw, out, depth)
        out["kw"] = kw
        return out

    def array_kws(self, kw, out, depth):
        r = self.rng
        k = r.random()
        if k < 0.25:
            kw["addItemsB"] = False
        elif k < 0.4:
            out["addItems"] = self.dump(depth - 1)
        if r.random() < 0.25:
            kw["minItems"] = self.enc(r.choice([0, 1, 2]))
        if r.random() < 0.25:
            kw["maxItems"] = self.enc(r.choice([1, 2, 3]))
        if r.random() < 0.2:
            kw["uniqueItems"] = True
        if r.random() < 0.2:
            out["contains"] = self.dump(depth - 1)

    def object_kws(self, kw, out, depth, is_class):
        r = self.rng
        names = r.sample(ATTRS, r.choice([0, 1, 2, 2, 3]))
        if r.random() < 0.2:
            names.append(r.choice(KW_ATTRS))
        if names or is_class or r.random() < 0.3:
            kw["hasProps"] = True
            plist = []
            for n in names:
                key = {"name": n}
                if r.random() < 0.4:
                    key["required"] = True
                key["source"] = SOURCES[n] or n
                plist.append([key, self.dump(depth - 1)])
            if plist:
                out["props"] = plist
        if r.random() < 0.3:
            kw["required"] = r.sample(["a", "b", "a b", "zz", "class"], r.choice([0, 1, 2]))
        if r.random() < 0.25:
            kw["hasPatProps"] = True
            pl = [[{"name": p}, self.dump(depth - 1)] for p in r.sample(gen.PATTERNS, r.choice([0, 1, 2]))]
            if pl:
                out["patProps"] = pl
        k = r.random()
        if k < 0.25:
            kw["addPropsB"] = False
        elif k < 0.4:
            out["addProps"] = self.dump(depth - 1)
        if r.random() < 0.15:
            kw["minProperties"] = self.enc(r.choice([0, 1, 2]))
        if r.random() < 0.15:
            kw["maxProperties"] = self.enc(r.choice([1, 2, 3]))
        if r.random() < 0.12:
            out["propNames"] = r.choice([{"cls": "String", "kw": {"pattern": "^a"}}, {"cls": "String", "kw": {"maxLength": {"i": "1"}}},
                                         {"cls": "Nothing", "kw": {}}, {"cls": "Element", "kw": {}}])
        if r.random() < 0.15:
            kw["hasDeps"] = True
            dl = []
            for trig in r.sample(["a", "b", "zz", "a b"], r.choice([1, 2])):
                if r.random() < 0.5:
                    dl.append([{"name": trig, "names": r.sample(["a", "b", "c", "zz"], r.choice([0, 1, 2]))}, {"cls": "Element", "kw": {}}])
                else:
                    dl.append([{"name": trig}, self.dump(depth - 1)])
            out["deps"] = dl

    def element(self, depth):
        r = self.rng
        kw = {}
        out = {"cls": "Element"}
        self.lits(kw)
        if r.random() < 0.5:
            k = r.random()
            if k < 0.5:
                kw["itemsKind"] = "single"
                out["items"] = [self.dump(depth - 1)]
            elif k < 0.8:
                kw["itemsKind"] = "tuple"
                items = [self.dump(depth - 1) for _ in range(r.choice([0, 1, 2]))]
                if items:
                    out["items"] = items
            self.array_kws(kw, out, depth)
        if r.random() < 0.6:
            self.object_kws(kw, out, depth, False)
        if r.random() < 0.3:
            for name in ("minimum", "maximum"):
                if r.random() < 0.5:
                    kw[name] = self.num()
        if r.random() < 0.2:
            kw["minLength"] = self.enc(r.choice([0, 1, 2]))
        out["kw"] = kw
        return out

    def obj(self, depth):
        r = self.rng
        self.n += 1
        kw = {}
        out = {"cls": "Object", "name": r.choice(["Model", "Thing", f"Gen{self.n}"])}
        self.lits(kw)
        self.object_kws(kw, out, depth, True)
        kw["hasProps"] = True
        out["kw"] = kw
        return out
