"""Run the generator on a list of document files in *this* process and print what it produced.
Started by harness/props/c09.py once per hash seed (PYTHONHASHSEED is fixed at interpreter start)."""
import copy
import json
import sys


def main():
    from json_ref_dict import materialize, RefDict
    from statham.__main__ import main as generate
    from statham.schema.parser import parse
    from statham.serializers import serialize_json, serialize_python
    from statham.serializers.orderer import get_object_classes
    from statham.titles import title_labeller

    paths = json.load(sys.stdin)
    out = {}
    for n_done, path in enumerate(paths):
        rec = {}
        uri = path + "#/"
        try:
            rec["python"] = generate(uri)
        except Exception as exc:  # noqa: BLE001
            rec["python"] = "exc:" + type(exc).__name__
        try:
            schema = materialize(RefDict.from_uri(uri), context_labeller=title_labeller())
            try:
                rec["materialized"] = json.loads(json.dumps(copy.deepcopy(schema)))
            except Exception:  # noqa: BLE001
                rec["materialized"] = None
            elements = parse(schema)
            seen, names = set(), []
            for c in get_object_classes(*elements):
                if id(c) not in seen:          # one entry per class object
                    seen.add(id(c))
                    names.append(c.__name__)
            rec["names"] = names
            rec["python2"] = serialize_python(*elements)
            try:
                rec["json"] = json.dumps(serialize_json(*elements))      # key order is part of the bytes
            except Exception as exc:  # noqa: BLE001
                rec["json"] = "exc:" + type(exc).__name__
        except Exception as exc:  # noqa: BLE001
            rec["names"] = "exc:" + type(exc).__name__
        if n_done < 3:
            # the console entry point writing to a file (the way the tool is run): the file's bytes
            import os
            import tempfile
            import statham.__main__ as cli
            target = os.path.join(tempfile.mkdtemp(prefix="statham-c09-cli-"), "models.py")
            saved = sys.argv
            try:
                cli.argv = ["statham", "--input", uri, "--output", target]
                sys.argv = cli.argv
                cli.entry_point()
                with open(target, encoding="utf8") as fh:
                    rec["cli_file"] = fh.read()
            except SystemExit as exc:
                rec["cli_file"] = f"exit:{exc.code}"
            except Exception as exc:  # noqa: BLE001
                rec["cli_file"] = "exc:" + type(exc).__name__
            finally:
                sys.argv = saved
                import shutil
                shutil.rmtree(os.path.dirname(target), ignore_errors=True)
        out[path] = rec
    json.dump(out, sys.stdout)


if __name__ == "__main__":
    main()
