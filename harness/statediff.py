"""Heap state snapshots: everything reachable from an element tree (public and private
attributes, class dictionaries, containers) plus the library's module-level mutable state,
as an identity-free canonical structure.  Two snapshots are equal iff no observable or
hidden state changed."""
import types

import statham.schema.validation.format as _fmt
from statham.schema.constants import NotPassed
from statham.schema.elements import Element
from statham.schema.elements.meta import ObjectMeta
from statham.schema.property import _Property, _PropertyDict

SKIP_CLASS_ATTRS = {"__module__", "__doc__", "__qualname__", "__dict__", "__weakref__", "__annotations__",
                    "__orig_bases__", "__parameters__", "__abstractmethods__", "_abc_impl", "__firstlineno__",
                    "__static_attributes__"}


def snapshot(*roots, include_parent=False):
    """Canonical dump of everything reachable from `roots`."""
    memo = {}
    order = []

    def walk(x, depth=0):
        if x is None or isinstance(x, (bool, int, float, str, bytes)):
            return ("v", type(x).__name__, repr(x))
        if isinstance(x, NotPassed):
            return ("NotPassed",)
        if depth > 200:
            return ("deep",)
        oid = id(x)
        if oid in memo:
            return ("ref", memo[oid])
        if isinstance(x, (types.FunctionType, types.BuiltinFunctionType, types.MethodType, staticmethod, classmethod, property)):
            return ("callable", getattr(x, "__qualname__", type(x).__name__))
        memo[oid] = len(order)
        order.append(oid)
        if isinstance(x, ObjectMeta):
            items = {k: v for k, v in vars(x).items() if k not in SKIP_CLASS_ATTRS and not isinstance(v, (types.FunctionType, staticmethod, classmethod, property))}
            return ("class", x.__name__, tuple(b.__name__ for b in x.__bases__),
                    tuple((k, walk(v, depth + 1)) for k, v in sorted(items.items())))
        if isinstance(x, type):
            return ("type", x.__name__)
        if isinstance(x, _PropertyDict):
            return ("propdict", tuple((k, walk(v, depth + 1)) for k, v in x.items()),
                    walk(x._parent, depth + 1) if include_parent else ("parent", type(x._parent).__name__))
        if isinstance(x, dict):
            return ("dict", type(x).__name__, tuple((walk(k, depth + 1), walk(v, depth + 1)) for k, v in x.items()))
        if isinstance(x, (list, tuple)):
            return (type(x).__name__, tuple(walk(v, depth + 1) for v in x))
        if isinstance(x, (set, frozenset)):
            return ("set", tuple(sorted(repr(walk(v, depth + 1)) for v in x)))
        if isinstance(x, _Property):
            d = dict(vars(x))
            parent = d.pop("parent", None)
            return ("property", tuple((k, walk(v, depth + 1)) for k, v in sorted(d.items())),
                    walk(parent, depth + 1) if include_parent else ("parent", type(parent).__name__ if not isinstance(parent, ObjectMeta) else "ObjectMeta"))
        if hasattr(x, "__dict__"):
            return ("obj", type(x).__name__, tuple((k, walk(v, depth + 1)) for k, v in sorted(vars(x).items())))
        return ("opaque", type(x).__name__)

    return tuple(walk(r) for r in roots)


def module_state():
    """The library's module-level mutable state that a call could touch."""
    from statham.schema.elements import base as _base
    from statham.schema import validation as _validation
    reg = _fmt.format_checker._callable_register  # pylint: disable=protected-access
    out = {
        "format_registry": tuple((k, getattr(v, "__qualname__", repr(v))) for k, v in reg.items()),
        "unbound_property": snapshot(_base.UNBOUND_PROPERTY, include_parent=True),
        "validator_subclasses": tuple(sorted(c.__name__ for c in _validation._all_subclasses(_validation.Validator))),  # pylint: disable=protected-access
        "class_attrs": tuple(
            (cls.__name__, tuple(sorted(k for k in vars(cls) if not k.startswith("__"))))
            for cls in [Element, _Property, _PropertyDict] + sorted(Element.__subclasses__(), key=lambda c: c.__name__)
        ),
    }
    return out


def diff(a, b, path="root", out=None, limit=5):
    """Human-readable first differences between two snapshots."""
    out = [] if out is None else out
    if len(out) >= limit:
        return out
    if a == b:
        return out
    if type(a) is not type(b) or not isinstance(a, tuple) or len(a) != len(b):
        out.append(f"{path}: {str(a)[:160]} -> {str(b)[:160]}")
        return out
    for i, (x, y) in enumerate(zip(a, b)):
        if x != y:
            label = x[0] if isinstance(x, tuple) and x and isinstance(x[0], str) else i
            diff(x, y, f"{path}/{label}", out, limit)
    return out
