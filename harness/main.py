"""./check <ID> [--tier quick|thorough] [--replay FILE]"""
import argparse
import importlib
import os
import sys
import traceback

from harness import framework


def main(argv=None):
    ap = argparse.ArgumentParser()
    ap.add_argument("prop")
    ap.add_argument("--tier", default=os.environ.get("VERIF_TIER", "quick"), choices=["quick", "thorough"])
    ap.add_argument("--replay", default=None)
    ap.add_argument("--seed", type=int, default=None)
    args = ap.parse_args(argv)
    seed = args.seed if args.seed is not None else int(os.environ.get("VERIF_SEED", "20260929"))
    try:
        mod = importlib.import_module(f"harness.props.{args.prop.lower()}")
    except ImportError as exc:
        print(f"infrastructure: cannot load check for {args.prop}: {exc}", file=sys.stderr)
        return 2
    try:
        return framework.run_check(mod, args.tier, seed, replay=args.replay)
    except framework.Infra as exc:
        print(f"infrastructure: {exc}", file=sys.stderr)
        return 2
    except Exception:  # noqa: BLE001
        traceback.print_exc()
        return 2


if __name__ == "__main__":
    sys.exit(main())
