"""Harness core: line protocol to the Lean driver, tagged encoding, element dumps,
canonical results of real calls, oracle tables (regex, formats, character classes)."""
import copy
import json
import os
import subprocess
import sys
import unicodedata
import warnings

VERIF = os.path.dirname(os.path.dirname(os.path.abspath(__file__)))
LEAN_DIR = os.path.join(VERIF, "lean")
DRIVER = os.path.join(LEAN_DIR, ".lake", "build", "bin", "driver")

from statham.schema.constants import NotPassed  # noqa: E402
from statham.schema.elements import (  # noqa: E402
    AllOf, AnyOf, Array, Boolean, Element, Integer, Not, Nothing, Null, Number, Object, OneOf, String,
)
from statham.schema.elements.base import _AnonymousObject  # noqa: E402
from statham.schema.elements.composition import CompositionElement  # noqa: E402
from statham.schema.elements.meta import ObjectMeta  # noqa: E402
from statham.schema.exceptions import (  # noqa: E402
    FeatureNotImplementedError, SchemaParseError, ValidationError,
)
from statham.schema.property import _Property  # noqa: E402
from statham.schema.validation.format import format_checker  # noqa: E402

NP = NotPassed()


# ----------------------------------------------------------------------------- encoding

def big_str(i):
    """str(int) without CPython's 4300-digit limit (restored afterwards: the library must see the default)."""
    if -10 ** 4000 < i < 10 ** 4000:
        return str(i)
    old = sys.get_int_max_str_digits()
    sys.set_int_max_str_digits(0)
    try:
        return str(i)
    finally:
        sys.set_int_max_str_digits(old)


def enc_num(x):
    if isinstance(x, bool):
        raise TypeError("bool is not a number here")
    if isinstance(x, int):
        return {"i": big_str(x)}
    if x != x or x in (float("inf"), float("-inf")):
        raise ValueError("non-finite float")
    n, d = x.as_integer_ratio()
    return {"f": [str(n), str(d)]}


def enc_val(v):
    """Tagged, lossless encoding of a JSON-like Python value."""
    if v is None or isinstance(v, bool):
        return v
    if isinstance(v, (int, float)):
        return enc_num(v)
    if isinstance(v, str):
        return v
    if isinstance(v, (list, tuple)):
        return [enc_val(x) for x in v]
    if isinstance(v, dict):
        return {"o": [[k, enc_val(x)] for k, x in v.items()]}
    raise TypeError(f"not a JSON value: {type(v).__name__}")


def enc_arg(v):
    if isinstance(v, NotPassed):
        return {"np": 1}
    return enc_val(v)


def has_surrogate(s):
    return any(0xD800 <= ord(c) <= 0xDFFF for c in s)


def all_strings(v, out=None):
    """Every string occurring anywhere in a JSON-like value (keys and values)."""
    if out is None:
        out = set()
    if isinstance(v, str):
        out.add(v)
    elif isinstance(v, (list, tuple)):
        for x in v:
            all_strings(x, out)
    elif isinstance(v, dict):
        for k, x in v.items():
            if isinstance(k, str):
                out.add(k)
            all_strings(x, out)
    return out


# ----------------------------------------------------------------------------- element dump

_NUM_KWS = ["minItems", "maxItems", "minimum", "maximum", "exclusiveMinimum", "exclusiveMaximum",
            "multipleOf", "minLength", "maxLength", "minProperties", "maxProperties"]
_STR_KWS = ["format", "pattern", "description"]


def _passed(x):
    return not isinstance(x, NotPassed)


def dump_elem(e, _depth=0):
    """Dump a real element tree in the shape `Codec.encElem` prints the model's."""
    if _depth > 60:
        raise RecursionError("element tree too deep / cyclic")
    if isinstance(e, ObjectMeta):
        out = {"cls": "Object", "name": e.__name__}
    else:
        name = type(e).__name__
        if name not in ("Element", "Nothing", "Boolean", "Integer", "Null", "Number", "String", "Array",
                        "AnyOf", "OneOf", "AllOf", "Not"):
            raise TypeError(f"unknown element class {name}")
        out = {"cls": name}
    kw = {}
    for lit in ("default", "const"):
        v = getattr(e, lit, NP)
        if _passed(v):
            kw[lit] = enc_val(v)
    enum = getattr(e, "enum", NP)
    if _passed(enum):
        kw["enum"] = [enc_val(x) for x in enum]
    items = getattr(e, "items", NP)
    if isinstance(items, list):
        kw["itemsKind"] = "tuple"
        out_items = [dump_elem(i, _depth + 1) for i in items]
        if out_items:
            out["items"] = out_items
    elif _passed(items):
        kw["itemsKind"] = "single"
        out["items"] = [dump_elem(items, _depth + 1)]
    add_items = getattr(e, "additionalItems", True)
    if isinstance(add_items, bool):
        if not add_items:
            kw["addItemsB"] = False
    else:
        out["addItems"] = dump_elem(add_items, _depth + 1)
    if getattr(e, "uniqueItems", False):
        kw["uniqueItems"] = True
    for name in _NUM_KWS:
        v = getattr(e, name, NP)
        if _passed(v):
            kw[name] = enc_num(v)
    for name in _STR_KWS:
        v = getattr(e, name, NP)
        if _passed(v):
            kw[name] = v
    required = getattr(e, "required", NP)
    if _passed(required):
        kw["required"] = list(required)
    contains = getattr(e, "contains", NP)
    if _passed(contains):
        out["contains"] = dump_elem(contains, _depth + 1)
    props = getattr(e, "properties", NP)
    if _passed(props):
        kw["hasProps"] = True
        plist = []
        for pname, prop in props.items():
            key = {"name": pname}
            if prop.required:
                key["required"] = True
            if prop.source is not None:
                key["source"] = prop.source
            plist.append([key, dump_elem(prop.element, _depth + 1)])
        if plist:
            out["props"] = plist
    pats = getattr(e, "patternProperties", NP)
    if _passed(pats):
        kw["hasPatProps"] = True
        plist = [[{"name": p}, dump_elem(el, _depth + 1)] for p, el in pats.items()]
        if plist:
            out["patProps"] = plist
    add_props = getattr(e, "additionalProperties", True)
    if isinstance(add_props, bool):
        if not add_props:
            kw["addPropsB"] = False
    else:
        out["addProps"] = dump_elem(add_props, _depth + 1)
    pn = getattr(e, "propertyNames", NP)
    if _passed(pn):
        out["propNames"] = dump_elem(pn, _depth + 1)
    deps = getattr(e, "dependencies", NP)
    if _passed(deps):
        kw["hasDeps"] = True
        dlist = []
        for trig, dep in deps.items():
            if isinstance(dep, list):
                dlist.append([{"name": trig, "names": list(dep)}, {"cls": "Element", "kw": {}}])
            else:
                dlist.append([{"name": trig}, dump_elem(dep, _depth + 1)])
        if dlist:
            out["deps"] = dlist
    if isinstance(e, CompositionElement):
        out["elements"] = [dump_elem(x, _depth + 1) for x in e.elements]
    elif isinstance(e, Not):
        out["elements"] = [dump_elem(e.element, _depth + 1)]
    out["kw"] = kw
    return out


# ----------------------------------------------------------------------------- results

def canon_rval(x):
    if isinstance(x, NotPassed):
        return {"np": 1}
    if x is None or isinstance(x, bool):
        return x
    if isinstance(x, int):
        return {"i": big_str(x)}
    if isinstance(x, float):
        if x != x or x in (float("inf"), float("-inf")):
            return {"nonfinite": repr(x)}
        n, d = x.as_integer_ratio()
        return {"f": [str(n), str(d)]}
    if isinstance(x, str):
        return x
    if isinstance(x, Object):
        return {"inst": type(x).__name__, "d": [[k, canon_rval(v)] for k, v in x._dict.items()]}
    if isinstance(x, _AnonymousObject):
        return {"anon": [[k, canon_rval(v)] for k, v in x.items()]}
    if isinstance(x, dict):
        return {"dict": [[k, canon_rval(v)] for k, v in x.items()]}
    if isinstance(x, (list, tuple)):
        return [canon_rval(v) for v in x]
    return {"unknown": type(x).__name__}


def real_call(element, arg):
    """Call the real element on a private copy of the value; canonical outcome in the shape `Codec.encRes` prints.
    If the call altered the value it was given, the outcome carries `input_altered` (no model outcome has that key,
    so every comparison with the model notices)."""
    given = arg if isinstance(arg, NotPassed) else copy.deepcopy(arg)
    out = _real_call(element, given)
    if not isinstance(arg, NotPassed):
        try:
            same = _same_value(given, arg)
        except Exception:  # noqa: BLE001
            same = False
        if not same:
            out["input_altered"] = True
    return out


def _same_value(a, b):
    """type-strict deep equality of JSON-like values (anything foreign, e.g. a NotPassed written into a dict, differs)"""
    if type(a) is not type(b):
        return False
    if isinstance(a, dict):
        return list(a) == list(b) and all(_same_value(a[k], b[k]) for k in a)
    if isinstance(a, list):
        return len(a) == len(b) and all(_same_value(x, y) for x, y in zip(a, b))
    if isinstance(a, float) and a != a:
        return b != b
    return a == b


def _real_call(element, arg):
    try:
        with warnings.catch_warnings():
            warnings.simplefilter("ignore")
            if isinstance(arg, NotPassed):
                res = element(NP)
            else:
                res = element(arg)
    except ValidationError:
        return {"r": "reject"}
    except TypeError as exc:
        return {"r": "typeError", "msg": str(exc)[:200]}
    except (OverflowError, ZeroDivisionError) as exc:
        return {"r": "crash", "exc": type(exc).__name__}
    except RecursionError:
        return {"r": "recursion"}
    except Exception as exc:  # noqa: BLE001 - every other escaping exception is an observation
        return {"r": "exc", "exc": type(exc).__name__, "msg": str(exc)[:200]}
    return {"r": "ok", "v": canon_rval(res)}


def real_parse(schema):
    """parse_element on a deep copy (the parser mutates its input)."""
    from statham.schema.parser import parse_element
    doc = copy.deepcopy(schema)
    try:
        return "ok", parse_element(doc)
    except FeatureNotImplementedError:
        return "notImplemented", None
    except SchemaParseError as exc:
        msg = str(exc)
        if msg.startswith("No title defined"):
            return "missingTitle", None
        if msg.startswith("Got invalid type"):
            return "invalidType", None
        return "schemaParseError", None
    except RecursionError:
        return "recursion", None
    except Exception as exc:  # noqa: BLE001
        return "other:" + type(exc).__name__, None


# ----------------------------------------------------------------------------- oracle tables

def collect_patterns(schema, out=None):
    if out is None:
        out = set()
    if isinstance(schema, dict):
        p = schema.get("pattern")
        if isinstance(p, str):
            out.add(p)
        pp = schema.get("patternProperties")
        if isinstance(pp, dict):
            out.update(k for k in pp if isinstance(k, str))
        for v in schema.values():
            collect_patterns(v, out)
    elif isinstance(schema, list):
        for v in schema:
            collect_patterns(v, out)
    return out


def collect_formats(schema, out=None):
    if out is None:
        out = set()
    if isinstance(schema, dict):
        f = schema.get("format")
        if isinstance(f, str):
            out.add(f)
        for v in schema.values():
            collect_formats(v, out)
    elif isinstance(schema, list):
        for v in schema:
            collect_formats(v, out)
    return out


def outside_additional_properties_model(d):
    """True when some node of the dump is a composition element (`Not`/`AnyOf`/`OneOf`/`AllOf`) that forbids
    additional properties and declares a property or pattern property whose element is `Nothing()`.

    The real `AdditionalProperties` validator asks `key in __properties__`, i.e. `properties[key].element != Nothing()`:
    a key whose only declaration is a `Nothing()` element counts as undeclared.  On elements that construct through
    `Properties` the construction step rejects that key anyway, so the model's validator (which counts every declared
    or pattern-matched key as allowed) agrees with the code; on composition elements, which never construct through
    `Properties`, it does not.  Such configurations are reachable only by assigning object keywords to a composition
    element after construction; they are modelled-not-verified (DESIGN 15.6) and the correspondence skips them."""
    if isinstance(d, list):
        return any(outside_additional_properties_model(x) for x in d)
    if not isinstance(d, dict):
        return False
    if d.get("cls") in ("Not", "AnyOf", "OneOf", "AllOf"):
        kw = d.get("kw") or {}
        if kw.get("addPropsB") is False and "addProps" not in d:
            for group in ("props", "patProps"):
                for pair in d.get(group) or []:
                    if isinstance(pair, list) and len(pair) == 2 and isinstance(pair[1], dict) and pair[1].get("cls") == "Nothing":
                        return True
    return any(outside_additional_properties_model(v) for v in d.values())


def elem_patterns_formats(e, pats=None, fmts=None, seen=None):
    """Patterns and formats of a real element tree."""
    from statham.serializers.orderer import get_children
    pats = set() if pats is None else pats
    fmts = set() if fmts is None else fmts
    for el in [e] + list(get_children(e)):
        p = getattr(el, "pattern", NP)
        if isinstance(p, str):
            pats.add(p)
        f = getattr(el, "format", NP)
        if isinstance(f, str):
            fmts.add(f)
        pp = getattr(el, "patternProperties", NP)
        if isinstance(pp, dict):
            pats.update(pp.keys())
    return pats, fmts


def char_table(names):
    import re as _re
    out = {}
    for name in names:
        for ch in name:
            if ch.isascii() and ch.isalnum():
                continue
            if ch not in out:
                out[ch] = [ch, ch.isalnum(), unicodedata.name(ch, "unknown").lower()]
    return list(out.values())


def make_tables(patterns, formats, texts, names=()):
    import re
    table = {}
    rows = []
    for p in sorted(patterns):
        try:
            rx = re.compile(p)
        except re.error:
            continue
        for t in texts:
            rows.append([p, t, rx.search(t) is not None])
    table["re"] = rows
    registered = sorted(format_checker._callable_register)  # pylint: disable=protected-access
    frows = []
    for f in sorted(formats):
        if f in format_checker._callable_register:  # pylint: disable=protected-access
            for t in texts:
                try:
                    ok = bool(format_checker._callable_register[f](t))  # pylint: disable=protected-access
                except Exception:  # noqa: BLE001
                    ok = True
                frows.append([f, t, ok])
    table["fmt"] = frows
    table["fmt_registered"] = registered
    table["ci"] = char_table(names)
    return table


def schema_tables(schema, values):
    texts = set()
    all_strings(schema, texts)
    for v in values:
        if not isinstance(v, NotPassed):
            all_strings(v, texts)
    texts = sorted(texts)
    return make_tables(collect_patterns(schema), collect_formats(schema), texts, texts)


# ----------------------------------------------------------------------------- driver

class Driver:
    def __init__(self):
        if not os.path.exists(DRIVER):
            raise RuntimeError(f"driver not built: {DRIVER}")
        self.proc = subprocess.Popen([DRIVER], stdin=subprocess.PIPE, stdout=subprocess.PIPE, text=True,
                                     encoding="utf8", bufsize=1)
        self.requests = 0

    def ask(self, req):
        line = json.dumps(req, ensure_ascii=False)
        self.proc.stdin.write(line + "\n")
        self.proc.stdin.flush()
        out = self.proc.stdout.readline()
        if not out:
            raise RuntimeError("driver died on request: " + line[:500])
        self.requests += 1
        return json.loads(out)

    def close(self):
        try:
            self.proc.stdin.close()
            self.proc.wait(timeout=10)
        except Exception:  # noqa: BLE001
            self.proc.kill()
