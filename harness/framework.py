"""Check framework: one pipeline for every property.

  regenerate Gen/ from /repo  ->  lake build Props.<id> + driver  ->  axiom audit + text scan
  ->  correspondence + direct oracle (property module)  ->  known-finding replays
  ->  verdict, evidence file, replay file on violation.

Exit codes: 0 held, 1 violation (stdout line `VIOLATION property=<id> replay=<path>`),
2 infrastructure failure.
"""
import fcntl
import hashlib
import json
import os
import re
import subprocess
import sys
import time

VERIF = os.path.dirname(os.path.dirname(os.path.abspath(__file__)))
LEAN_DIR = os.path.join(VERIF, "lean")
EVIDENCE_DIR = os.path.join(VERIF, "evidence")
REPLAY_DIR = os.path.join(VERIF, "replays")
KNOWN_FINDINGS = os.path.join(VERIF, "known_findings.json")
ALLOWED_AXIOMS = {"propext", "Quot.sound", "Classical.choice"}
FORBIDDEN_TEXT = re.compile(r"\b(sorry|admit|native_decide|bv_decide|implemented_by)\b|^\s*axiom\s|\bunsafe\s|maxHeartbeats\s+0\b", re.M)
TRUSTED_BASE = [
    "Lean 4.33.0 kernel (thorough tier: re-checked by leanchecker)",
    "axioms allowed: propext, Quot.sound, Classical.choice (audited with #print axioms on every run)",
    "translator /verif/translator/extract.py (fail-closed; output exercised by the correspondence)",
    "correspondence harness /verif/harness (generators bound what the tie sees)",
    "modelled, not verified: CPython dict/int/float semantics, re, unicodedata, dateutil, uuid, json_ref_dict",
]


class Infra(Exception):
    pass


def jsonable(x):
    """Make a case printable: ints beyond CPython's int->str limit become {"$bigint_hex": ...}."""
    if isinstance(x, bool) or x is None or isinstance(x, (str, float)):
        return x
    if isinstance(x, int):
        if -10 ** 4000 < x < 10 ** 4000:
            return x
        return {"$bigint_hex": hex(x)}
    if isinstance(x, (list, tuple)):
        return [jsonable(v) for v in x]
    if isinstance(x, dict):
        return {str(k): jsonable(v) for k, v in x.items()}
    return repr(x)


def unjsonable(x):
    if isinstance(x, list):
        return [unjsonable(v) for v in x]
    if isinstance(x, dict):
        if set(x) == {"$bigint_hex"}:
            return int(x["$bigint_hex"], 16)
        return {k: unjsonable(v) for k, v in x.items()}
    return x


def log(*a):
    print(*a, file=sys.stderr, flush=True)


def run(cmd, cwd=None, timeout=3600, env=None):
    p = subprocess.run(cmd, cwd=cwd, stdout=subprocess.PIPE, stderr=subprocess.STDOUT, text=True, timeout=timeout, env=env)
    out = "\n".join(l for l in p.stdout.splitlines() if "conda.cli.condarc" not in l)
    return p.returncode, out


class BuildLock:
    def __enter__(self):
        self.fh = open(os.path.join(VERIF, ".build.lock"), "w")
        fcntl.flock(self.fh, fcntl.LOCK_EX)
        return self

    def __exit__(self, *a):
        fcntl.flock(self.fh, fcntl.LOCK_UN)
        self.fh.close()


def strip_comments(text):
    # remove /- ... -/ (nested) and -- comments
    out = []
    i, depth = 0, 0
    while i < len(text):
        if text.startswith("/-", i):
            depth += 1
            i += 2
        elif text.startswith("-/", i) and depth:
            depth -= 1
            i += 2
        elif depth:
            if text[i] == "\n":
                out.append("\n")
            i += 1
        elif text.startswith("--", i):
            while i < len(text) and text[i] != "\n":
                i += 1
        else:
            out.append(text[i])
            i += 1
    return "".join(out)


def lean_imports(module, seen=None):
    """Transitive project-local imports of a module (paths)."""
    seen = seen if seen is not None else {}
    path = os.path.join(LEAN_DIR, module.replace(".", "/") + ".lean")
    if module in seen or not os.path.exists(path):
        return seen
    text = open(path, encoding="utf8").read()
    seen[module] = path
    for m in re.findall(r"^import\s+(StathamModel\.[\w.]+)", text, re.M):
        lean_imports(m, seen)
    return seen


def theorem_names(path):
    text = strip_comments(open(path, encoding="utf8").read())
    ns = None
    m = re.search(r"^namespace\s+([\w.]+)", text, re.M)
    if m:
        ns = m.group(1)
    names = re.findall(r"^(?:private\s+|protected\s+)?theorem\s+([\w.']+)", text, re.M)
    examples = len(re.findall(r"^example\b", text, re.M))
    return ns, names, examples


def regenerate():
    rc, out = run([sys.executable, os.path.join(VERIF, "translator", "extract.py")])
    try:
        report = json.loads(out[out.index("{"):])
    except (ValueError, json.JSONDecodeError):
        report = {"errors": {"translator": out[-2000:]}, "hashes": {}, "changed": [], "fingerprints": {}}
    return report


def build(prop_id, more=()):
    """Build the property's theorem module(s) and the driver. Returns (ok, output, broken)."""
    target = f"StathamModel.Props.{prop_id}"
    rc, out = run(["lake", "build", target, *more, "driver"], cwd=LEAN_DIR, timeout=3000)
    broken = []
    if rc != 0:
        for m in re.finditer(r"error: (StathamModel/[\w/]+\.lean):(\d+):(\d+)", out):
            broken.append((m.group(1), int(m.group(2))))
        for m in re.finditer(r"error: ([\w/]+\.lean):(\d+):(\d+)", out):
            if not m.group(1).startswith("StathamModel/"):
                broken.append((m.group(1), int(m.group(2))))
    return rc == 0, out, broken


def name_broken(broken):
    """Map (file, line) error positions to the enclosing theorem/def name."""
    out = []
    for rel, line in broken:
        path = os.path.join(LEAN_DIR, rel)
        name = None
        try:
            lines = open(path, encoding="utf8").read().splitlines()
            for i in range(min(line, len(lines)) - 1, -1, -1):
                m = re.match(r"^(?:private\s+|protected\s+)?(theorem|def|example|lemma|instance|abbrev)\s*([\w.']*)", lines[i])
                if m:
                    name = f"{m.group(1)} {m.group(2)}".strip()
                    break
        except OSError:
            pass
        entry = f"{rel}:{line} ({name or 'top level'})"
        if entry not in out:
            out.append(entry)
    return out


def audit(prop_id, extra_modules=(), proof_modules=()):
    """#print axioms for every theorem of Props.<id>, of further proof modules of the property, and of the
    listed tie modules; text scan of every imported project file."""
    extra_modules = tuple(proof_modules) + tuple(extra_modules)
    module = f"StathamModel.Props.{prop_id}"
    path = os.path.join(LEAN_DIR, "StathamModel", "Props", f"{prop_id}.lean")
    ns, names, examples = theorem_names(path)
    names = [f"{ns}.{n}" if ns else n for n in names]
    ns = None
    for extra in extra_modules:
        ens, enames, eex = theorem_names(os.path.join(LEAN_DIR, extra.replace(".", "/") + ".lean"))
        names += [f"{ens}.{n}" if ens else n for n in enames]
        examples += eex
    problems = []
    axioms_seen = {}
    if names:
        tmp = os.path.join(LEAN_DIR, f".audit_{prop_id}_{os.getpid()}.lean")
        with open(tmp, "w", encoding="utf8") as fh:
            fh.write(f"import {module}\n")
            for pm in proof_modules:
                fh.write(f"import {pm}\n")
            for n in names:
                full = f"{ns}.{n}" if ns else n
                fh.write(f"#print axioms {full}\n")
        try:
            rc, out = run(["lake", "env", "lean", tmp], cwd=LEAN_DIR, timeout=1200)
        finally:
            try:
                os.remove(tmp)
            except OSError:
                pass
        if rc != 0:
            problems.append("axiom audit failed to run: " + out[-500:])
        flat = re.sub(r"\s+", " ", out)
        for n in names:
            full = f"{ns}.{n}" if ns else n
            m = re.search(re.escape(f"'{full}'") + r" (does not depend on any axioms|depends on axioms: \[([^\]]*)\])", flat)
            if not m:
                problems.append(f"no axiom report for {full}")
                continue
            axs = [] if m.group(2) is None else [a.strip() for a in m.group(2).split(",") if a.strip()]
            axioms_seen[full] = axs
            bad = [a for a in axs if a not in ALLOWED_AXIOMS]
            if bad:
                problems.append(f"{full} depends on disallowed axioms {bad}")
    files = lean_imports(module)
    for pm in proof_modules:
        files.update(lean_imports(pm))
    for mod, p in files.items():
        if "/Gen/" in p:
            continue
        text = strip_comments(open(p, encoding="utf8").read())
        for m in FORBIDDEN_TEXT.finditer(text):
            problems.append(f"forbidden token {m.group(0).strip()!r} in {mod}")
    return {"theorems": names, "examples": examples, "axioms": axioms_seen, "problems": problems,
            "modules": sorted(files)}


def leanchecker(prop_id, more=()):
    module = f"StathamModel.Props.{prop_id}"
    rc, out = run(["lake", "env", "leanchecker", module, *more], cwd=LEAN_DIR, timeout=3000)
    return rc == 0, out[-1500:]


def load_findings(prop_id):
    try:
        data = json.load(open(KNOWN_FINDINGS, encoding="utf8"))
    except FileNotFoundError:
        return []
    return [f for f in data.get("findings", []) if prop_id in f.get("properties", [f.get("property")])]


def write_replay(prop_id, seed, payload):
    os.makedirs(REPLAY_DIR, exist_ok=True)
    path = os.path.join(REPLAY_DIR, f"{prop_id}-{seed}-{int(time.time())}.json")
    with open(path, "w", encoding="utf8") as fh:
        json.dump(jsonable(payload), fh, indent=1, ensure_ascii=False, default=str)
    return path


def write_evidence(prop_id, doc):
    os.makedirs(EVIDENCE_DIR, exist_ok=True)
    path = os.path.join(EVIDENCE_DIR, f"{prop_id}.json")
    tmp = path + f".tmp{os.getpid()}"
    with open(tmp, "w", encoding="utf8") as fh:
        json.dump(jsonable(doc), fh, indent=1, ensure_ascii=False, default=str)
    os.replace(tmp, path)


def distinct_count(cases):
    return len({hashlib.sha256(json.dumps(c, sort_keys=True, ensure_ascii=False, default=str).encode()).hexdigest() for c in cases})


class Outcome:
    """What a property module reports back from its correspondence + oracle run."""

    def __init__(self):
        self.evaluations = 0
        self.nontrivial = set()          # hashes of distinct non-trivial cases
        self.rule = ""
        self.samples = []
        self.disagreements = []          # model vs implementation (each a dict with a replayable case)
        self.failures = []               # property fails on the real code: dicts with 'case', 'what', 'finding' (id or None)
        self.stats = {}
        self.traces_validated = 0
        self.notes = []

    def note_case(self, case, nontrivial):
        self.evaluations += 1
        if nontrivial:
            case = jsonable(case)
            self.nontrivial.add(hashlib.sha256(json.dumps(case, sort_keys=True, ensure_ascii=False, default=str).encode()).hexdigest())
            if len(self.samples) < 5:
                self.samples.append(case)


def run_check(mod, tier, seed, replay=None):
    """mod: property module with ID, TECHNIQUE, run(ctx) -> Outcome, search(ctx, reason) -> failure|None,
    replay_finding(finding) -> bool (still fails), optional replay(case)."""
    t0 = time.time()
    prop_id = mod.ID
    ctx = {"tier": tier, "seed": seed, "verif": VERIF}
    if replay:
        payload = unjsonable(json.load(open(replay, encoding="utf8")))
        ok = mod.replay(payload)
        print(("REPLAY property=%s still-fails" if not ok else "REPLAY property=%s passes") % prop_id)
        return 0 if ok else 1

    broken = []          # proof obligations / translator problems
    with BuildLock():
        gen = regenerate()
        for name, err in gen.get("errors", {}).items():
            broken.append(f"translator: {name}: {err}")
        proof_modules = tuple(getattr(mod, "PROOF_MODULES", ()))
        ok, out, where = build(prop_id, proof_modules)
        if not ok:
            named = name_broken(where)
            broken.extend(named or ["lake build failed: " + out[-800:]])
            # the driver may still be usable for the search if only a Props/Lemmas file broke
            run(["lake", "build", "driver"], cwd=LEAN_DIR, timeout=3000)
        aud = {"theorems": [], "examples": 0, "axioms": {}, "problems": [], "modules": []}
        if ok:
            aud = audit(prop_id, getattr(mod, "TIE_MODULES", ()), proof_modules)
            broken.extend(aud["problems"])
        checker = None
        if ok and tier == "thorough":
            cok, cout = leanchecker(prop_id, proof_modules)
            checker = cok
            if not cok:
                broken.append("leanchecker rejected the module: " + cout[-300:])
    driver_ok = os.path.exists(os.path.join(LEAN_DIR, ".lake", "build", "bin", "driver"))
    if not driver_ok:
        print("infrastructure: driver executable missing", file=sys.stderr)
        return 2

    ctx["broken"] = broken
    # safety net: a change to the library that makes some call never return (a deadlock, an endless loop) must not hang the
    # check.  The property modules have their own watchdogs around the calls they expect to be able to hang; this one is for
    # everything else.  When it fires the check reports a violation without a failing input and exits.
    import threading
    limit = int(os.environ.get("VERIF_RUN_LIMIT_S", getattr(mod, "RUN_LIMIT_S", {}).get(tier, 1500 if tier == "quick" else 14400)))

    def _overrun():
        path = write_replay(prop_id, seed, {"property": prop_id, "tier": tier, "seed": seed, "kind": "unproved",
                                            "reason": {"broken_obligations": [f"the correspondence / oracle run did not finish within {limit} s: "
                                                                              "some call into the library never returned"],
                                                       "disagreements": []},
                                            "no_failing_input_found": True, "replay_cmd": f"./check {prop_id} --replay <this file>"})
        write_evidence(prop_id, {"property_id": prop_id, "tier": tier, "seed": seed, "level": "proof",
                                 "coverage": {"obligations": 1, "discharged": 0, "checker_cmd": "n/a (run did not finish)",
                                              "trusted_base": TRUSTED_BASE, "broken_obligations": [f"run did not finish within {limit} s"]},
                                 "assumptions": getattr(mod, "ASSUMPTIONS", []), "wall_s": round(time.time() - t0, 2), "violations": 1})
        print(f"VIOLATION property={prop_id} replay={path} no-failing-input-found", flush=True)
        os._exit(1)
    watchdog = threading.Timer(limit, _overrun)       # a thread, not SIGALRM: property modules use the alarm for their own per-case limits
    watchdog.daemon = True
    watchdog.start()
    outcome = mod.run(ctx)

    findings = load_findings(prop_id)
    open_findings = [f for f in findings if f.get("status") == "open"]
    known_lines = []
    for f in open_findings:
        try:
            still = mod.replay_finding(f)
        except Exception as exc:  # noqa: BLE001
            still = None
            outcome.notes.append(f"finding {f['id']}: replay raised {type(exc).__name__}: {exc}")
        if still:
            known_lines.append(f"KNOWN-FINDING: property={prop_id} {f['id']}: {f['what_fails']}")
    # a fixed finding must not have returned
    for f in findings:
        if f.get("status") == "fixed" and f.get("witness") is not None and hasattr(mod, "replay_finding"):
            try:
                if mod.replay_finding(f):
                    outcome.failures.append({"case": f.get("witness"), "what": "fixed finding has returned: " + f.get("what_failed", f.get("id", "")), "finding": None})
            except Exception as exc:  # noqa: BLE001
                outcome.notes.append(f"fixed finding {f.get('id')}: replay raised {type(exc).__name__}: {exc}")

    open_ids = {f["id"] for f in open_findings}
    new_failures = [x for x in outcome.failures if x.get("finding") not in open_ids]
    known_hits = [x for x in outcome.failures if x.get("finding") in open_ids]

    violation = None
    if new_failures:
        violation = {"kind": "counterexample", "failure": new_failures[0], "count": len(new_failures)}
    elif broken or outcome.disagreements:
        reason = {"broken_obligations": broken, "disagreements": outcome.disagreements[:3]}
        found = None
        try:
            found = mod.search(ctx, reason)
        except Exception as exc:  # noqa: BLE001
            outcome.notes.append(f"search raised {type(exc).__name__}: {exc}")
        if found is not None and found.get("finding") in open_ids:
            found = None  # only a listed finding was found; the break itself is still unexplained
        if found is not None:
            violation = {"kind": "counterexample", "failure": found, "reason": reason}
        else:
            violation = {"kind": "unproved", "reason": reason, "no_failing_input_found": True}

    for line in known_lines:
        print(line)
    wall = time.time() - t0
    n_theorems = len(aud["theorems"]) + aud["examples"]
    obligations = max(1, n_theorems) if not broken else max(1, n_theorems + len(broken))
    discharged = n_theorems if not broken else max(0, n_theorems - len(broken))
    evidence = {
        "property_id": prop_id,
        "tier": tier,
        "seed": seed,
        "level": "proof",
        "coverage": {
            "obligations": obligations,
            "discharged": max(discharged, 1) if not broken else discharged,
            "checker_cmd": f"cd /verif/lean && lake build StathamModel.Props.{prop_id} && lake env lean <#print axioms for each theorem>" + (" && lake env leanchecker StathamModel.Props.%s" % prop_id if tier == "thorough" else ""),
            "trusted_base": TRUSTED_BASE,
            "theorems": aud["theorems"],
            "examples": aud["examples"],
            "axioms": aud["axioms"],
            "modules": aud["modules"],
            "leanchecker_ok": checker,
            "generated_hashes": gen.get("hashes", {}),
            "generated_changed": gen.get("changed", []),
            "broken_obligations": broken,
            "evaluations": outcome.evaluations,
            "distinct_nontrivial": len(outcome.nontrivial),
            "rule": outcome.rule,
            "samples": outcome.samples[:5] or [{"note": "no sample recorded"}],
            "traces_validated_against_impl": outcome.traces_validated,
            "disagreements": len(outcome.disagreements),
            "oracle_failures_in_known_regions": len(known_hits),
            "known_findings_reported": [l.split(" ", 2)[2] for l in known_lines],
            "distribution": outcome.stats,
            "notes": outcome.notes,
        },
        "assumptions": getattr(mod, "ASSUMPTIONS", []),
        "wall_s": round(wall, 2),
        "violations": 0 if violation is None else 1,
    }
    watchdog.cancel()
    write_evidence(prop_id, evidence)
    if violation is None:
        log(f"[{prop_id}] held: {n_theorems} obligations, {outcome.evaluations} cases ({len(outcome.nontrivial)} distinct non-trivial), {len(known_lines)} known findings, {wall:.1f}s")
        return 0
    payload = {"property": prop_id, "tier": tier, "seed": seed, **violation,
               "replay_cmd": f"./check {prop_id} --replay <this file>"}
    path = write_replay(prop_id, seed, payload)
    tail = " no-failing-input-found" if violation.get("no_failing_input_found") else ""
    print(f"VIOLATION property={prop_id} replay={path}{tail}")
    return 1
