"""Shared: run one (schema, values) case through the real code and the model."""
from harness import core


def observe(drv, schema, values, out, stats, compare_tree=True):
    """Returns None if the case cannot be used, else dict(el, reals, models, tree_ok).
    Records model-vs-implementation disagreements in `out`."""
    try:
        tables = core.schema_tables(schema, values)
        enc_schema = core.enc_val(schema)
        enc_args = [core.enc_arg(v) for v in values]
    except (TypeError, ValueError):
        stats["unencodable"] = stats.get("unencodable", 0) + 1
        return None
    status, el = core.real_parse(schema)
    rep = drv.ask({"op": "parse_call", "schema": enc_schema, "args": enc_args, "tables": tables})
    if "error" in rep:
        stats["driver-decode-error"] = stats.get("driver-decode-error", 0) + 1
        return None
    if status != "ok":
        stats["parse-" + status] = stats.get("parse-" + status, 0) + 1
        if rep["parse"] != "err":
            out.disagreements.append({"what": "parse outcome", "impl": status, "model": rep["parse"], "schema": schema})
        return None
    if rep["parse"] != "ok":
        out.disagreements.append({"what": "parse outcome", "impl": "ok", "model": rep.get("kind"), "schema": schema})
        return None
    out.traces_validated += 1
    tree_ok = True
    if compare_tree:
        tree = core.dump_elem(el)
        if tree != rep["elem"]:
            out.disagreements.append({"what": "element tree", "impl": tree, "model": rep["elem"], "schema": schema})
            tree_ok = False
    reals = []
    for i, v in enumerate(values):
        real = core.real_call(el, v)
        reals.append(real)
        model = rep["results"][i]
        if tree_ok and model["r"] != "crash" and real != model:
            out.disagreements.append({"what": "call result", "impl": real, "model": model, "schema": schema,
                                      "value": enc_args[i]})
    return {"el": el, "reals": reals, "models": rep["results"], "tree_ok": tree_ok, "enc_args": enc_args, "tables": tables}
