"""Canonical JSON form of the small Python expression subset the library emits
(`repr` of elements / properties, generated class bodies): the same shape `Driver.encExpr` prints."""
import ast

from harness import core


class Unsupported(Exception):
    pass


def literal(node):
    """Python value of a literal expression node, or raise Unsupported."""
    if isinstance(node, ast.Constant):
        return node.value
    if isinstance(node, ast.UnaryOp) and isinstance(node.op, ast.USub) and isinstance(node.operand, ast.Constant) \
            and isinstance(node.operand.value, (int, float)) and not isinstance(node.operand.value, bool):
        return -node.operand.value
    raise Unsupported(ast.dump(node))


def canon(node):
    if isinstance(node, ast.Expression):
        return canon(node.body)
    if isinstance(node, (ast.Constant, ast.UnaryOp)):
        v = literal(node)
        if isinstance(v, float) and (v != v or v in (float("inf"), float("-inf"))):
            return {"lit": {"nonfinite": repr(v)}}
        return {"lit": core.enc_val(v)}
    if isinstance(node, ast.Name):
        return {"name": node.id}
    if isinstance(node, ast.List):
        return {"list": [canon(e) for e in node.elts]}
    if isinstance(node, ast.Dict):
        out = []
        for k, v in zip(node.keys, node.values):
            if not (isinstance(k, ast.Constant) and isinstance(k.value, str)):
                raise Unsupported("non-string dict key")
            out.append([k.value, canon(v)])
        return {"dict": out}
    if isinstance(node, ast.Call):
        if not isinstance(node.func, ast.Name):
            raise Unsupported("call of a non-name")
        return {"call": node.func.id, "args": [canon(a) for a in node.args],
                "kwargs": [[k.arg, canon(k.value)] for k in node.keywords]}
    if isinstance(node, ast.Subscript):
        return {"subscript": ast.unparse(node)}
    raise Unsupported(type(node).__name__)


def canon_expr_text(text):
    return canon(ast.parse(text, mode="eval"))
