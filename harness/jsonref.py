"""Local `$ref` handling for serialized documents (the oracle's own, not json_ref_dict)."""
import copy


class Unresolvable(Exception):
    pass


def resolve_pointer(doc, ref):
    if not ref.startswith("#"):
        raise Unresolvable(ref)
    node = doc
    pointer = ref[1:]
    if pointer in ("", "/"):
        return node
    for part in pointer.lstrip("/").split("/"):
        part = part.replace("~1", "/").replace("~0", "~")
        if isinstance(node, dict) and part in node:
            node = node[part]
        elif isinstance(node, list) and part.isdigit() and int(part) < len(node):
            node = node[int(part)]
        else:
            raise Unresolvable(ref)
    return node


def all_refs(node, out=None):
    out = [] if out is None else out
    if isinstance(node, dict):
        if set(node) == {"$ref"} and isinstance(node["$ref"], str):
            out.append(node["$ref"])
        else:
            for v in node.values():
                all_refs(v, out)
    elif isinstance(node, list):
        for v in node:
            all_refs(v, out)
    return out


LITERAL_KEYS = ("default", "const", "enum")


def deref(doc, node=None, depth=0, drop_definitions=True):
    """Inline every local `$ref` (documents are acyclic; depth-guarded). Literal keywords are not descended."""
    if depth > 60:
        raise Unresolvable("cyclic or too deep")
    top = node is None
    node = doc if top else node
    if isinstance(node, dict):
        if set(node) == {"$ref"} and isinstance(node["$ref"], str):
            return deref(doc, resolve_pointer(doc, node["$ref"]), depth + 1)
        out = {}
        for k, v in node.items():
            if top and drop_definitions and k == "definitions":
                continue
            if k in LITERAL_KEYS:
                out[k] = copy.deepcopy(v)
            elif k in ("properties", "patternProperties", "dependencies", "definitions") and isinstance(v, dict):
                out[k] = {kk: (deref(doc, vv, depth + 1) if isinstance(vv, (dict, bool)) else copy.deepcopy(vv)) for kk, vv in v.items()}
            else:
                out[k] = deref(doc, v, depth + 1)
        return out
    if isinstance(node, list):
        return [deref(doc, v, depth + 1) for v in node]
    return node
