"""Generators: metaschema-valid Draft-6 schemas over the supported keywords, schema-directed
and free JSON values.  Every random choice comes from the `random.Random` passed in."""
import random

TITLES = ["Thing", "thing", "Other", "my object", "Thing", "Pt", "node"]
PROP_NAMES = ["a", "b", "c", "d", "a b", "a_b", "class", "x-y", "1st", "é", "id", "_p", "n$", "def",
              # a JSON name that is a Python keyword plus one underscore; names of annotation-only schema keywords
              "from_", "examples"]
PATTERNS = ["^a", "b$", "^[a-c]+$", "x", ".*", "^$", "^.$", "[0-9]", "_"]
FORMATS = ["uuid", "date-time", "unknown-fmt", "email"]
STRINGS = ["", "a", "b", "ab", "abc", "x", "a b", "é", "1", "xyz", "aaaa",
           "2020-01-01T00:00:00Z", "123e4567-e89b-12d3-a456-426614174000", "_", "a_b",
           # valid spellings of formatted values that are not the canonical one
           "123E4567-E89B-12D3-A456-426614174000", "{123e4567-e89b-12d3-a456-426614174000}", "urn:uuid:123e4567-e89b-12d3-a456-426614174000",
           "123e4567e89b12d3a456426614174000", "2020-01-01t00:00:00z", "2020-01-01 00:00:00+00:00", "00000000-0000-0000-0000-000000000000"]
INTS = [0, 1, -1, 2, 3, 4, 5, 7, 10, 100, -5, 6]
FLOATS = [0.0, 1.0, 0.5, 1.5, 2.5, -0.5, 0.1, 0.3, 3.0, 1e3, 2.0]
BIG = [2 ** 53, 2 ** 53 + 1, -(2 ** 53) - 1, 10 ** 30, 1e308, -1e308, 5e-324, 10 ** 400, 2 ** 1024]
TYPES = ["string", "integer", "number", "boolean", "null", "array", "object"]
DESCRIPTIONS = ["A thing.", "desc", "multi\nline", "with 'quotes'", "ünï", "x" * 5]
# descriptions that must survive character for character (no quote / backslash hazards: those are C07's finding)
WHITESPACE_DESCRIPTIONS = ["Example document:\n    verbose: true\n    retries: 3", "\nleading blank line", "trailing blank line\n",
                           "tab\there", "  two leading spaces", "trailing spaces  ", "a\n\n\nb", "    indented first line\n    second",
                           "x", "ünï çødé ✓", "line1\n\tline2"]


class Budget:
    def __init__(self, nodes):
        self.nodes = nodes

    def take(self):
        self.nodes -= 1
        return self.nodes >= 0


class SchemaGen:
    def __init__(self, rng: random.Random, extreme=False, titled=True):
        self.rng = rng
        self.extreme = extreme
        self.titled = titled
        self.counter = 0

    # -- literals
    def number(self):
        r = self.rng
        if self.extreme and r.random() < 0.25:
            return r.choice(BIG)
        return r.choice(INTS) if r.random() < 0.6 else r.choice(FLOATS)

    def json_value(self, depth=2):
        r = self.rng
        k = r.random()
        if depth <= 0 or k < 0.55:
            return r.choice([None, True, False, r.choice(INTS), r.choice(FLOATS), r.choice(STRINGS),
                             0, 1, 1.0, 0.0, "", r.choice(STRINGS)])
        if k < 0.78:
            return [self.json_value(depth - 1) for _ in range(r.randint(0, 3))]
        return {r.choice(PROP_NAMES): self.json_value(depth - 1) for _ in range(r.randint(0, 3))}

    def nonneg(self):
        return self.rng.choice([0, 1, 1, 2, 2, 3])

    # -- schemas
    def schema(self, depth=3, budget=None):
        r = self.rng
        budget = budget or Budget(r.randint(3, 30))
        if not budget.take() or depth <= 0:
            return self.leaf()
        k = r.random()
        if k < 0.06:
            return r.choice([True, False, {}])
        if k < 0.16:
            return self.leaf()
        s = {}
        # type
        t = r.random()
        if t < 0.45:
            s["type"] = r.choice(TYPES)
        elif t < 0.58:
            n = r.choice([1, 2, 2, 3])
            s["type"] = r.sample(TYPES, n)
        types = s.get("type")
        tlist = types if isinstance(types, list) else ([types] if types else TYPES)
        focus = r.choice(tlist)
        self.keywords_for(s, focus, depth, budget)
        if r.random() < 0.25:
            other = r.choice(TYPES)
            self.keywords_for(s, other, depth, budget)
        # composition
        if r.random() < 0.3:
            for key in r.sample(["anyOf", "oneOf", "allOf"], r.choice([1, 1, 2])):
                s[key] = [self.schema(depth - 1, budget) for _ in range(r.choice([1, 2, 2, 3]))]
        if r.random() < 0.12:
            s["not"] = self.schema(depth - 1, budget)
        # literals
        if r.random() < 0.12:
            s["const"] = self.json_value()
        if r.random() < 0.12:
            s["enum"] = [self.json_value() for _ in range(r.randint(1, 4))]
        if r.random() < 0.2:
            s["default"] = self.json_value()
        if r.random() < 0.1:
            s["description"] = r.choice(DESCRIPTIONS)
        self.ensure_title(s)
        return s

    def ensure_title(self, s):
        t = s.get("type")
        if t == "object" or (isinstance(t, list) and "object" in t):
            if self.titled and "title" not in s:
                if self.rng.random() < 0.7:
                    s["title"] = self.rng.choice(TITLES)
                else:
                    self.counter += 1
                    s["title"] = f"Gen{self.counter}"

    def leaf(self):
        r = self.rng
        t = r.choice(TYPES + ["none"])
        s = {}
        if t != "none":
            s["type"] = t
        k = r.random()
        if t in ("integer", "number", "none") and k < 0.6:
            s[r.choice(["minimum", "maximum", "exclusiveMinimum", "exclusiveMaximum"])] = self.number()
        if t in ("string", "none") and k > 0.5:
            s[r.choice(["minLength", "maxLength"])] = self.nonneg()
        if r.random() < 0.1:
            s["default"] = self.json_value(1)
        self.ensure_title(s)
        return s

    def keywords_for(self, s, focus, depth, budget):
        r = self.rng
        if focus in ("integer", "number"):
            for key in ("minimum", "maximum", "exclusiveMinimum", "exclusiveMaximum"):
                if r.random() < 0.3:
                    s[key] = self.number()
            if r.random() < 0.3:
                m = r.choice([1, 2, 3, 5, 0.5, 0.1, 1.5, 2.0, 0.25])
                if self.extreme and r.random() < 0.3:
                    m = r.choice([1e-300, 5e-324, 10 ** 400, 2 ** 60, 1e300, 0.5])
                s["multipleOf"] = m
        elif focus == "string":
            if r.random() < 0.35:
                s["minLength"] = self.nonneg()
            if r.random() < 0.35:
                s["maxLength"] = self.nonneg() + r.choice([0, 0, 1, 2])
            if r.random() < 0.3:
                s["pattern"] = r.choice(PATTERNS)
            if r.random() < 0.15:
                s["format"] = r.choice(FORMATS)
        elif focus == "array":
            k = r.random()
            if k < 0.4:
                s["items"] = self.schema(depth - 1, budget)
            elif k < 0.75:
                s["items"] = [self.schema(depth - 1, budget) for _ in range(r.choice([1, 1, 2, 3]))]
            if r.random() < 0.4:
                s["additionalItems"] = r.choice([True, False, False]) if r.random() < 0.6 else self.schema(depth - 1, budget)
            if r.random() < 0.3:
                s["minItems"] = self.nonneg()
            if r.random() < 0.3:
                s["maxItems"] = self.nonneg() + r.choice([0, 1, 2])
            if r.random() < 0.25:
                s["uniqueItems"] = r.choice([True, True, False])
            if r.random() < 0.25:
                s["contains"] = self.schema(depth - 1, budget)
        elif focus == "object":
            names = r.sample(PROP_NAMES, r.choice([0, 1, 2, 2, 3, 4]))
            if names or r.random() < 0.2:
                s["properties"] = {n: self.schema(depth - 1, budget) for n in names}
            if r.random() < 0.45:
                pool = names + r.sample(PROP_NAMES, 2)
                req = []
                for n in r.sample(pool, min(len(pool), r.choice([0, 1, 1, 2, 3]))):
                    if n not in req:
                        req.append(n)
                s["required"] = req
            if r.random() < 0.3:
                s["patternProperties"] = {p: self.schema(depth - 1, budget) for p in r.sample(PATTERNS, r.choice([1, 1, 2]))}
            if r.random() < 0.4:
                s["additionalProperties"] = r.choice([True, False, False]) if r.random() < 0.6 else self.schema(depth - 1, budget)
            if r.random() < 0.2:
                s["minProperties"] = self.nonneg()
            if r.random() < 0.2:
                s["maxProperties"] = self.nonneg() + r.choice([0, 1, 2])
            if r.random() < 0.15:
                s["propertyNames"] = r.choice([{"pattern": r.choice(PATTERNS)}, {"maxLength": self.nonneg()},
                                               {"minLength": 1}, False, True, {"type": "string", "enum": r.sample(PROP_NAMES, 3)}])
            if r.random() < 0.2:
                deps = {}
                for n in r.sample(PROP_NAMES, r.choice([1, 2])):
                    if r.random() < 0.5:
                        deps[n] = r.sample(PROP_NAMES, r.choice([0, 1, 2]))
                    else:
                        deps[n] = self.schema(depth - 1, budget)
                s["dependencies"] = deps


class ValueGen:
    """Values aimed at a schema: mostly valid by construction, then mutated at a boundary."""

    def __init__(self, rng: random.Random, extreme=False):
        self.rng = rng
        self.extreme = extreme
        self.free = SchemaGen(rng, extreme)

    def number(self, integer=False):
        r = self.rng
        if self.extreme and r.random() < 0.3:
            x = r.choice(BIG)
            if integer and isinstance(x, float):
                return 10 ** 30
            return x
        if integer:
            return r.choice(INTS)
        return r.choice(INTS + FLOATS)

    def of_type(self, t, depth):
        r = self.rng
        if t == "string":
            return r.choice(STRINGS)
        if t == "integer":
            return self.number(True)
        if t == "number":
            return self.number()
        if t == "boolean":
            return r.choice([True, False])
        if t == "null":
            return None
        if t == "array":
            return [self.free.json_value(depth - 1) for _ in range(r.randint(0, 4))]
        if t == "object":
            return {r.choice(PROP_NAMES): self.free.json_value(depth - 1) for _ in range(r.randint(0, 4))}
        return self.free.json_value(depth)

    def aimed(self, schema, depth=3):
        r = self.rng
        if schema is True or schema == {}:
            return self.free.json_value(depth)
        if schema is False:
            return self.free.json_value(1)
        if not isinstance(schema, dict):
            return self.free.json_value(depth)
        if depth <= 0:
            return self.free.json_value(0)
        if "const" in schema and r.random() < 0.6:
            return self.twist(schema["const"])
        if "enum" in schema and schema["enum"] and r.random() < 0.6:
            return self.twist(r.choice(schema["enum"]))
        for key in ("anyOf", "oneOf", "allOf"):
            if key in schema and schema[key] and r.random() < 0.5:
                return self.aimed(r.choice(schema[key]), depth - 1)
        t = schema.get("type")
        if isinstance(t, list):
            t = r.choice(t) if t else None
        if t is None:
            cands = []
            if any(k in schema for k in ("properties", "required", "patternProperties", "additionalProperties",
                                         "minProperties", "maxProperties", "propertyNames", "dependencies")):
                cands.append("object")
            if any(k in schema for k in ("items", "additionalItems", "minItems", "maxItems", "uniqueItems", "contains")):
                cands.append("array")
            if any(k in schema for k in ("minimum", "maximum", "exclusiveMinimum", "exclusiveMaximum", "multipleOf")):
                cands.append("number")
            if any(k in schema for k in ("minLength", "maxLength", "pattern", "format")):
                cands.append("string")
            t = r.choice(cands) if cands and r.random() < 0.85 else r.choice(TYPES)
        if t == "object":
            return self.aimed_object(schema, depth)
        if t == "array":
            return self.aimed_array(schema, depth)
        if t in ("integer", "number"):
            return self.aimed_number(schema, t == "integer")
        if t == "string":
            return self.aimed_string(schema)
        return self.of_type(t, depth)

    def twist(self, v):
        """bool/number lookalikes and near misses of a literal"""
        r = self.rng
        k = r.random()
        if k < 0.5:
            return v
        if v is True:
            return r.choice([1, 1.0, True])
        if v is False:
            return r.choice([0, 0.0, False])
        if isinstance(v, int) and not isinstance(v, bool):
            as_float = float(v) if abs(v) < 2 ** 1000 else v       # beyond the float range there is no float spelling
            return r.choice([as_float, v + 1, bool(v) if v in (0, 1) else v])
        if isinstance(v, float):
            return r.choice([int(v) if v == v and abs(v) != float("inf") and v == int(v) else v, v])
        if isinstance(v, list):
            return [self.twist(x) for x in v] if r.random() < 0.7 else v + [None]
        if isinstance(v, dict):
            return {k2: self.twist(x) for k2, x in v.items()}
        if isinstance(v, str):
            return v + r.choice(["", "x"])
        return v

    def aimed_number(self, schema, integer):
        r = self.rng
        bounds = [schema[k] for k in ("minimum", "maximum", "exclusiveMinimum", "exclusiveMaximum") if k in schema]
        bounds = [b for b in bounds if isinstance(b, (int, float)) and abs(b) < 1e300]
        if bounds and r.random() < 0.7:
            b = r.choice(bounds)
            x = b + r.choice([-1, 0, 0, 1, 0.5, -0.5])
            if integer:
                x = int(x) if x == int(x) else int(x) + r.choice([0, 1])
            return x
        m = schema.get("multipleOf")
        if isinstance(m, (int, float)) and 0 < m < 1e6 and r.random() < 0.7:
            x = m * r.choice([0, 1, 2, 3, -1, 7]) + r.choice([0, 0, 0, m / 2 if not integer else 1])
            if integer and x != int(x):
                x = int(x)
            return int(x) if integer else x
        return self.number(integer)

    def aimed_string(self, schema):
        r = self.rng
        lens = [schema[k] for k in ("minLength", "maxLength") if isinstance(schema.get(k), int)]
        if lens and r.random() < 0.6:
            n = max(0, r.choice(lens) + r.choice([-1, 0, 0, 1]))
            return r.choice(["a", "b", "é", "x"]) * n
        return r.choice(STRINGS)

    def aimed_array(self, schema, depth):
        r = self.rng
        items = schema.get("items")
        out = []
        if isinstance(items, list):
            n = len(items) + r.choice([-1, 0, 0, 1, 2])
            for i in range(max(0, n)):
                if i < len(items):
                    out.append(self.aimed(items[i], depth - 1))
                else:
                    add = schema.get("additionalItems", True)
                    out.append(self.aimed(add, depth - 1) if isinstance(add, dict) else self.free.json_value(1))
        else:
            n = r.randint(0, 4)
            for key in ("minItems", "maxItems"):
                if isinstance(schema.get(key), int) and r.random() < 0.5:
                    n = max(0, schema[key] + r.choice([-1, 0, 0, 1]))
            for _ in range(n):
                out.append(self.aimed(items, depth - 1) if isinstance(items, (dict, bool)) else self.free.json_value(1))
        if "contains" in schema and r.random() < 0.5:
            out.insert(r.randint(0, len(out)), self.aimed(schema["contains"], depth - 1))
        if schema.get("uniqueItems") and out and r.random() < 0.4:
            out.append(self.twist(r.choice(out)))
        return out

    def aimed_object(self, schema, depth):
        r = self.rng
        out = {}
        props = schema.get("properties") if isinstance(schema.get("properties"), dict) else {}
        req = schema.get("required") if isinstance(schema.get("required"), list) else []
        for name, sub in props.items():
            if name in req or r.random() < 0.6:
                out[name] = self.aimed(sub, depth - 1)
        for name in req:
            if name not in out and r.random() < 0.8:
                out[name] = self.free.json_value(1)
        pats = schema.get("patternProperties") if isinstance(schema.get("patternProperties"), dict) else {}
        for _p, sub in pats.items():
            if r.random() < 0.5:
                out[r.choice(PROP_NAMES + ["aa", "ab", "xb", "x1", "a_x1b", "ab_1x"])] = self.aimed(sub, depth - 1)
        if r.random() < 0.4:
            add = schema.get("additionalProperties", True)
            key = r.choice(PROP_NAMES + ["zz", "extra"])
            out[key] = self.aimed(add, depth - 1) if isinstance(add, dict) else self.free.json_value(1)
        deps = schema.get("dependencies") if isinstance(schema.get("dependencies"), dict) else {}
        for trig, dep in deps.items():
            if r.random() < 0.5:
                out.setdefault(trig, self.free.json_value(0))
                if isinstance(dep, list) and r.random() < 0.7:
                    for n in dep:
                        out.setdefault(n, self.free.json_value(0))
        if out and r.random() < 0.15:
            out.pop(r.choice(list(out)))
        return out

    def values(self, schema, n):
        out = []
        for _ in range(n):
            if self.rng.random() < 0.75:
                out.append(self.aimed(schema))
            else:
                out.append(self.free.json_value(self.rng.choice([0, 1, 2, 3])))
        return out


# ----------------------------------------------------------------------------- focused families

LOOKALIKES = [1, 1.0, True, 0, 0.0, False, -0.0, [1], [1.0], [True], [0], [False], [[1]], [[1.0]], [[True]],
              {"a": 1}, {"a": 1.0}, {"a": True}, {"a": [0]}, {"a": [False]}, {"a": 1, "b": 2}, {"b": 2, "a": 1},
              "1", "", None, [], {}, [None], 2, 2.0, 1e0, 10 ** 20, 1e20]


def families(rng: random.Random):
    """Hand-designed (schema, values) families aimed at the interactions the properties name.
    Deterministic skeleton + a few random picks from `rng`."""
    pick = lambda n: [rng.choice(LOOKALIKES) for _ in range(n)]
    # 1. uniqueItems x lookalike items
    for _ in range(12):
        yield {"uniqueItems": True}, [pick(rng.randint(2, 4)) for _ in range(6)] + [[[1], [1.0]], [{"a": 1}, {"a": 1.0}], [[True], [1]], [[0], [False]], [[-0.0], [0]]]
    yield {"type": "array", "uniqueItems": True, "items": {"type": ["array", "object", "number", "boolean"]}}, [[[1], [1.0]], [[1], [True]], [{"a": 1, "b": 2}, {"b": 2, "a": 1}], [1, True], [1, 1.0], [[], {}]]
    # 2. const / enum x lookalikes
    for lit in LOOKALIKES[:24]:
        yield {"const": lit}, LOOKALIKES[:24]
    yield {"enum": [[1], {"a": True}, 0, "1"]}, LOOKALIKES
    yield {"enum": [True, 2.0, [False], {"a": [0]}]}, LOOKALIKES
    # 3. compositions with equal / lookalike / overlapping branches
    branches = [{"type": "integer"}, {"type": "integer"}, {"type": "number"}, {"minimum": 1}, {"maximum": 5}, {"const": 1},
                {"const": True}, {"const": 1.0}, {"type": "string"}, {}, True, False, {"multipleOf": 2}, {"enum": [1, 2]}]
    vals = [1, 1.0, True, 0, 2, 3, 6, "a", None, 5, 5.5, [], {}]
    for key in ("oneOf", "anyOf", "allOf"):
        for _ in range(14):
            yield {key: [rng.choice(branches) for _ in range(rng.choice([2, 2, 3]))]}, vals
        yield {key: [{"type": "integer"}, {"type": "integer"}]}, vals
        yield {key: [{"const": 1}, {"const": True}]}, vals
        yield {"type": "integer", key: [{"minimum": 2}, {"maximum": 4}], "not": {"const": 3}}, vals
        yield {key: [{"type": "object", "title": "A", "properties": {"x": {"type": "integer"}}},
                     {"type": "object", "title": "A", "properties": {"x": {"type": "string"}}}]}, [{"x": 1}, {"x": "s"}, {"x": None}, {}, 1]
    yield {"not": {"not": {"type": "string"}}}, vals
    yield {"anyOf": [{"type": "string"}], "oneOf": [{"maxLength": 1}, {"minLength": 1}], "allOf": [{"pattern": "^a"}]}, ["a", "ab", "", "b", 1]
    # 4. required x properties x additionalProperties x patternProperties
    objs = [{}, {"a": 1}, {"a": "s"}, {"b": 1}, {"a": 1, "b": 2}, {"a": 1, "zz": 2}, {"ab": 1}, {"a": 1, "ab": "s"}, {"zz": None}, 1, [], {"a": None},
            {"ab": 5}, {"ab": 0}, {"b": 5}, {"acb": 2.5}]  # keys matching several patterns: fine for the first, wrong for a later one
    for addl in (None, True, False, {"type": "integer"}, {"type": "string"}):
        for req in (None, [], ["a"], ["a", "b"]):
            for pat in (None, {"^a": {"type": "integer"}}, {"^a": {"type": "integer"}, "b$": {"maximum": 1}},
                        {"b$": {"maximum": 1}, "^a": {"type": "integer"}, "c": {"multipleOf": 2}}):
                s = {"properties": {"a": {"type": "integer"}, "b": {"default": 3}}}
                if addl is not None:
                    s["additionalProperties"] = addl
                if req is not None:
                    s["required"] = req
                if pat is not None:
                    s["patternProperties"] = pat
                yield s, objs
                if req and pat is None:
                    yield {**s, "type": "object", "title": "Obj"}, objs
    yield {"type": "object", "title": "R", "required": ["a"], "properties": {"a": {"type": "integer", "default": 1}}}, objs
    yield {"required": ["a"], "properties": {"a": {"type": "integer", "default": 1}}}, objs
    yield {"minProperties": 1, "maxProperties": 2}, objs
    # 5. tuple items x additionalItems x contains
    arrs = [[], [1], [1, "a"], [1, "a", None], [1, "a", 2], ["a", 1], [1, "a", 2, 3], [None], 1, {}]
    for addl in (None, True, False, {"type": "integer"}, False):
        for cont in (None, {"type": "null"}, {"const": 2}):
            s = {"items": [{"type": "integer"}, {"type": "string"}]}
            if addl is not None:
                s["additionalItems"] = addl
            if cont is not None:
                s["contains"] = cont
            yield s, arrs
            yield {**s, "type": "array", "minItems": 1, "maxItems": 3}, arrs
    yield {"additionalItems": False}, arrs
    yield {"items": {"type": "integer"}, "additionalItems": False}, arrs
    yield {"type": "array", "contains": {"type": "integer"}}, arrs
    # 5a. formats on typed and untyped strings, alone and nested, with every spelling of the formatted values
    fstrings = [x for x in STRINGS if len(x) > 15] + ["", "a", "not-a-uuid"]
    for fmt in FORMATS:
        for base in ({"type": "string", "format": fmt}, {"format": fmt}, {"type": ["string", "null"], "format": fmt}):
            yield base, fstrings + [None, 1]
            yield {"type": "array", "items": base}, [[x] for x in fstrings] + [fstrings[:3]]
            yield {"type": "object", "title": "F", "properties": {"id": base}}, [{"id": x} for x in fstrings] + [{}]
            yield {"anyOf": [base, {"type": "integer"}]}, fstrings + [1]
    # 5b. boolean schemas (and the empty tuple) in every schema position
    for b in (False, True):
        for typed in ({}, {"type": "array"}):
            yield {**typed, "items": b}, arrs + [[None, None]]
            yield {**typed, "items": [b]}, arrs
            yield {**typed, "items": [{"type": "integer"}], "additionalItems": b}, arrs
            yield {**typed, "items": [], "additionalItems": b}, arrs
            yield {**typed, "contains": b}, arrs
        yield {"items": [], "additionalItems": {"type": "integer"}}, arrs + [["a"], [1, 2]]
        yield {"type": "array", "items": [], "additionalItems": {"type": "string"}}, arrs + [["a"], [1, 2]]
        yield {"additionalProperties": b}, objs
        yield {"propertyNames": b}, objs
        yield {"properties": {"a": b}}, objs
        yield {"patternProperties": {"^a": b}}, objs
        yield {"dependencies": {"a": b}}, objs
        yield {"not": b}, vals
        yield {"anyOf": [b]}, vals
        yield {"oneOf": [b, {"type": "integer"}]}, vals
        yield {"allOf": [b, {}]}, vals
        yield {"type": "object", "title": "B", "properties": {"a": {"type": "array", "items": b}}}, [{"a": []}, {"a": [1]}, {}, {"a": [[]]}]
        yield {"anyOf": [{"type": "array", "items": b}, {"type": "string"}]}, [[], [1], "s", 1]
    # 6. dependencies
    yield {"dependencies": {"a": ["b"], "b": {"required": ["c"]}, "c": []}}, [{}, {"a": 1}, {"a": 1, "b": 2}, {"a": 1, "b": 2, "c": 3}, {"b": 1}, {"c": 1}, 1]
    yield {"type": "object", "title": "D", "dependencies": {"a": {"properties": {"b": {"type": "integer"}}}}}, [{"a": 1, "b": "s"}, {"a": 1, "b": 1}, {"b": "s"}, {}]
    # 7. numeric boundaries
    nums = [0, 1, 1.0, 2, 2.0, 2.5, 3, -1, True, 4.0, 6, 7.5, 10 ** 20, 1e20, 5]
    for kw in ("minimum", "maximum", "exclusiveMinimum", "exclusiveMaximum"):
        for b in (2, 2.0, 2.5, 0):
            yield {kw: b}, nums
            yield {"type": "integer", kw: b}, nums
    for m in (1, 2, 3, 5):
        yield {"multipleOf": m}, nums
        yield {"type": "number", "multipleOf": m}, nums
    # 8. type lists
    yield {"type": ["integer", "boolean"]}, nums + ["a", None]
    yield {"type": ["number", "null"], "minimum": 1}, nums + [None]
    yield {"type": ["string", "array"], "minLength": 2, "minItems": 2}, ["a", "ab", [], [1, 2], [1], 1]
    # 9. propertyNames
    yield {"propertyNames": {"pattern": "^a"}}, objs
    yield {"propertyNames": {"maxLength": 1}}, objs
    yield {"propertyNames": False}, objs
    # 10. string lengths in code points
    strs = ["", "a", "ab", "é", "😀", "😀😀", "é", "abc"]
    for n in (0, 1, 2):
        yield {"minLength": n}, strs
        yield {"maxLength": n}, strs
        yield {"type": "string", "minLength": n, "maxLength": n}, strs
    yield {"pattern": "^.$"}, strs
    yield {"format": "uuid"}, ["123e4567-e89b-12d3-a456-426614174000", "nope", 1]
    yield {"format": "date-time"}, ["2020-01-01T00:00:00Z", "nope", 1]
    yield {"format": "no-such-format"}, ["anything", 1]
