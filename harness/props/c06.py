"""C06 — serialize-then-parse is the identity on statham's normal form.

Correspondence: the model's parse -> serialize pipeline vs the real one, on the original schema
and on the (dereferenced) first-round document.  Oracle: strict JSON equality (true != 1) of the
first- and second-round documents; classes obtained by executing the generated Python equal the
parsed ones."""
import json
import random

from statham.serializers import serialize_json, serialize_python

from harness import core, jsonref
from harness.framework import Outcome
from harness.gen import SchemaGen, families, WHITESPACE_DESCRIPTIONS

ID = "C06"
TIE_MODULES = ["StathamModel.Tie"]
ASSUMPTIONS = ["the harness's own local $ref resolver puts the serialized document back into parser input form"]
N_SCHEMAS = {"quick": 900, "thorough": 30000}


def plain(x):
    if isinstance(x, dict):
        return {k: plain(v) for k, v in x.items()}
    if isinstance(x, (list, tuple)):
        return [plain(v) for v in x]
    return x


def strict(x):
    """structure with Python types made explicit, so that 1 != 1.0 != True"""
    return core.enc_val(x)


def round_trip(schema):
    status, el = core.real_parse(schema)
    if status != "ok":
        return {"stage": "parse1", "status": status}
    try:
        j1 = plain(serialize_json(el))
    except TypeError:
        return {"stage": "serialize1", "status": "primaryIsFalse", "el": el}
    return {"stage": "ok", "el": el, "j1": j1}


def regions_of(schema, j1):
    """Known regions: F21 (empty required / properties beside composition), class-name clashes, nothing+default."""
    regs = set()

    def walk(s, member=False):
        """member: `s` is a member of a composition list (or the operand of `not`), where an element that
        serializes to `{}` is dropped by the trivial-member filter on the next parse"""
        if isinstance(s, dict):
            comp = any(k in s for k in ("anyOf", "oneOf", "allOf", "not"))
            if (comp or member) and (s.get("required") == [] or s.get("properties") == {} or s.get("patternProperties") == {} or s.get("dependencies") == {}):
                regs.add("C06-empty-keyword-beside-composition")
            if s.get("required") == [] or s.get("patternProperties") == {} or s.get("dependencies") == {}:
                regs.add("C06-empty-keyword-beside-composition")
            for k, v in s.items():
                if k in ("anyOf", "oneOf", "allOf") and isinstance(v, list):
                    for x in v:
                        walk(x, True)
                elif k == "not":
                    walk(v, True)
                else:
                    walk(v)
        elif isinstance(s, list):
            for v in s:
                walk(v)
    walk(schema)
    # same-titled, unequal classes: `_n` suffixes are handed out in parse order, which differs between the
    # original document and its normal form (and names are consumed by classes in discarded sub-schemas)
    import re
    names = set((j1.get("definitions") or {}).keys()) if isinstance(j1, dict) else set()
    if isinstance(j1, dict) and isinstance(j1.get("title"), str):
        names.add(j1["title"])
    if any(re.match(r"^.*_\d+$", n) for n in names):
        regs.add("C06-class-name-suffixes")
    return regs


def duplicate_class_names(doc):
    """two different class bodies under one title (one `definitions` entry then serves both)"""
    seen = {}

    def walk(d):
        if isinstance(d, dict):
            if d.get("type") == "object" and isinstance(d.get("title"), str):
                body = json.dumps(d, sort_keys=True, default=str)
                if seen.setdefault(d["title"], body) != body:
                    return True
            return any(walk(v) for v in d.values())
        if isinstance(d, list):
            return any(walk(v) for v in d)
        return False
    return walk(doc)


def check_case(drv, schema, out, stats):
    rt = round_trip(schema)
    case = {"schema": schema}
    try:
        tables = core.schema_tables(schema, [])
        rep = drv.ask({"op": "parse_serialize", "schema": core.enc_val(schema), "tables": tables})
    except (TypeError, ValueError):
        return
    if "error" in rep:
        stats["driver-error"] = stats.get("driver-error", 0) + 1
        return
    if rt["stage"] == "parse1":
        if rep["parse"] != "err":
            out.disagreements.append({"what": "parse outcome", "impl": rt["status"], "model": rep["parse"], **case})
        return
    if rep["parse"] != "ok":
        out.disagreements.append({"what": "parse outcome", "impl": "ok", "model": rep, **case})
        return
    out.traces_validated += 1
    if rt["stage"] == "serialize1":
        stats["root-is-false"] = stats.get("root-is-false", 0) + 1
        if rep["r"] != "err":
            out.disagreements.append({"what": "serialize outcome", "impl": "primaryIsFalse", "model": rep["r"], **case})
        return
    j1 = rt["j1"]
    out.note_case(case, isinstance(schema, dict) and len(schema) >= 2)
    agree = rep["r"] == "ok" and rep["json"] == strict(j1)
    if not agree:
        out.disagreements.append({"what": "first-round document", "impl": strict(j1), "model": rep.get("json"), **case})
    regs = regions_of(schema, j1)

    def fail(what, region=None):
        fid = region if (agree and region in regs) else None
        out.failures.append({"case": case, "what": what, "finding": fid})
        stats["oracle-fail-" + str(fid)] = stats.get("oracle-fail-" + str(fid), 0) + 1

    try:
        flat = jsonref.deref(j1)
    except jsonref.Unresolvable as exc:
        fail(f"first-round document has an unresolvable reference: {exc}", "C06-class-name-clash")
        return
    rt2 = round_trip(flat)
    if rt2["stage"] != "ok":
        fail(f"the serialized document does not parse/serialize again ({rt2['stage']}: {rt2['status']})", "C06-nothing-with-default")
        return
    j2 = rt2["j1"]
    rep2 = drv.ask({"op": "parse_serialize", "schema": core.enc_val(flat), "tables": core.schema_tables(flat, [])})
    if "error" not in rep2 and not (rep2.get("r") == "ok" and rep2["json"] == strict(j2)):
        out.disagreements.append({"what": "second-round document", "impl": strict(j2), "model": rep2.get("json"), "schema": flat})
    # the theorem's object on the real code: `toSchema` against the real document, and inside the normal form (`NF`, the
    # hypothesis of C06_partial_round_trip) the second parse must give the very same tree, whatever region the schema is in
    try:
        dump1, dump2 = core.dump_elem(rt["el"]), core.dump_elem(rt2["el"])
        ts = drv.ask({"op": "to_schema", "elem": dump1, "doc": core.enc_val(flat), "tables": core.schema_tables(flat, [])})
    except (TypeError, ValueError, RecursionError):
        ts = {"error": "undumpable"}
    if "error" in ts:
        stats["to_schema-skipped"] = stats.get("to_schema-skipped", 0) + 1
    else:
        in_tie = "C06-class-name-suffixes" not in regs and not duplicate_class_names(j1)
        label = "to_schema-" + ("same" if ts["same"] else ("differs-outside-tie" if not in_tie else "DIFFERS"))
        stats[label] = stats.get(label, 0) + 1
        if not ts["same"] and in_tie:
            out.disagreements.append({"what": "toSchema (schema-level serializer model) vs dereferenced serialize_json output", "impl": flat, **case})
        stats["normal-form-" + str(bool(ts["nf"]))] = stats.get("normal-form-" + str(bool(ts["nf"])), 0) + 1
        if ts["nf"] and not ts["round_trip_identity"]:
            out.disagreements.append({"what": "model: NF tree whose model round trip is not the identity (contradicts C06_partial_round_trip)", **case})
        if not ts["nf"] and not regs:
            stats["not-normal-form-outside-listed-regions"] = stats.get("not-normal-form-outside-listed-regions", 0) + 1
        if ts["nf"] and ts["same"]:
            stats["theorem-instances-on-real-code"] = stats.get("theorem-instances-on-real-code", 0) + 1
            if dump1 != dump2:
                out.failures.append({"case": case, "finding": None,
                                     "what": "inside the normal form (hypothesis of C06_partial_round_trip) the second parse gives a different tree: " + first_diff(dump1, dump2)})
                return
            if strict(j1) != strict(j2):
                out.failures.append({"case": case, "finding": None,
                                     "what": "inside the normal form the second-round document differs at " + first_diff(j1, j2)})
                return
    if strict(j1) != strict(j2):
        diff = first_diff(j1, j2)
        fail(f"second round differs from the first at {diff}",
             "C06-class-name-suffixes" if "C06-class-name-suffixes" in regs else "C06-empty-keyword-beside-composition")
    stats["round-trips"] = stats.get("round-trips", 0) + 1
    # python half: executing the generated source gives classes equal to the parsed ones
    el = rt["el"]
    try:
        src = serialize_python(el)
    except Exception:  # noqa: BLE001
        return
    if not src.strip():
        return
    ns = {}
    try:
        exec(compile(src, "<generated>", "exec"), ns)  # noqa: S102 - generated by the library under test
    except Exception as exc:  # noqa: BLE001
        stats["generated-python-does-not-execute"] = stats.get("generated-python-does-not-execute", 0) + 1
        return  # C02's concern (unsafe titles / descriptions)
    from statham.serializers.orderer import get_object_classes
    for cls in get_object_classes(el):
        other = ns.get(cls.__name__)
        stats["python-classes-compared"] = stats.get("python-classes-compared", 0) + 1
        if other is None or not (cls == other and other == cls):
            fail(f"class {cls.__name__} obtained by executing the generated Python differs from the parsed class", None)
            return


def first_diff(a, b, path="$"):
    if type(a) is not type(b):
        return f"{path}: {json.dumps(a)[:60]} vs {json.dumps(b)[:60]}"
    if isinstance(a, dict):
        if list(a) != list(b):
            return f"{path}: keys {list(a)} vs {list(b)}"
        for k in a:
            d = first_diff(a[k], b[k], f"{path}.{k}")
            if d:
                return d
        return None
    if isinstance(a, list):
        if len(a) != len(b):
            return f"{path}: length {len(a)} vs {len(b)}"
        for i, (x, y) in enumerate(zip(a, b)):
            d = first_diff(x, y, f"{path}[{i}]")
            if d:
                return d
        return None
    return None if a == b else f"{path}: {a!r} vs {b!r}"


def run(ctx, scale=1.0):
    rng = random.Random(ctx["seed"] + 6)
    out = Outcome()
    out.rule = ("schemas from the generator and the focused families; a case is one schema taken through parse -> serialize -> deref -> "
                "parse -> serialize; non-trivial = the schema object has >= 2 keywords; distinct by SHA-256")
    stats = {}
    drv = core.Driver()
    try:
        for schema, _ in families(rng):
            check_case(drv, schema, out, stats)
        sg = SchemaGen(rng)
        for _ in range(int(N_SCHEMAS[ctx["tier"]] * scale)):
            check_case(drv, sg.schema(), out, stats)
        for desc in WHITESPACE_DESCRIPTIONS:
            check_case(drv, {"type": "object", "title": "Described", "description": desc,
                             "properties": {"a": {"type": "string"}, "inner": {"type": "object", "title": "Inner", "description": desc + "!"}}}, out, stats)
        for schema in ({"required": [], "not": {"type": "string"}}, {"properties": {}, "anyOf": [{"type": "string"}, {"type": "null"}]},
                       {"anyOf": [False], "default": 1}, {"type": "array"}, {"items": {}}, {"uniqueItems": False},
                       {"additionalItems": True, "additionalProperties": True}, {"type": ["string"]}, {"allOf": [{"type": "string"}]}):
            check_case(drv, schema, out, stats)
    finally:
        drv.close()
    out.stats = stats
    return out


def search(ctx, reason):
    sub = dict(ctx)
    sub["seed"] = ctx["seed"] + 104395301
    found = run(sub, scale=3.0 if ctx["tier"] == "quick" else 1.0)
    fresh = [f for f in found.failures if f.get("finding") is None]
    return fresh[0] if fresh else None


def _fails(schema):
    out, stats = Outcome(), {}
    drv = core.Driver()
    try:
        check_case(drv, schema, out, stats)
    finally:
        drv.close()
    return bool(out.failures)


def replay_finding(finding):
    return _fails(finding["witness"]["schema"])


def replay(payload):
    case = payload.get("failure", {}).get("case")
    return True if not case else not _fails(case["schema"])
