"""C06 — serialize-then-parse is the identity on statham's normal form.

Correspondence: the model's parse -> serialize pipeline vs the real one, on the original schema
and on the (dereferenced) first-round document.  Oracle: strict JSON equality (true != 1) of the
first- and second-round documents; classes obtained by executing the generated Python equal the
parsed ones.

Two routes take the first-round document back to the parser:
  * the tree route: every `$ref` is replaced by a private copy of its target, `definitions` is dropped and the
    tree goes through `parse_element` (this is the route the model follows, so the model predicts its result);
  * the document route: the document as it stands - JSON text, `definitions` kept, every `$ref` replaced by the
    target dict itself, so that all users of a class and its `definitions` entry are ONE dict, which is what
    json_ref_dict's `materialize` hands to the command line's parser - goes through `parse` (top-level schema,
    then every member of `definitions`) and `serialize_json(*elements)`.
The property speaks about "parsing that document again": both routes have to give the first-round document back.

Three clauses are judged on the real code alone, whatever the model says (they are what the statement says, not what the
theorems say):
  * the re-parsed ELEMENT declares what the parsed one declared ("no supported keyword value is lost, altered or invented"):
    two documents can be identical while a value has silently gone from both of them, so the elements are compared, too;
  * a listed region explains a difference only where the model predicts that very difference (same first- and second-round
    documents and trees as the real code); a difference the model does not predict is a new failure, wherever it occurs;
  * the generated Python source executes on its own imports ("executing the generated Python source yields classes"): a
    module that does not execute yields no classes.  Only the description-quoting hazards (C07's finding) are left aside."""
import json
import random

from statham.schema.parser import parse
from statham.serializers import serialize_json, serialize_python

from harness import core, jsonref
from harness.framework import Outcome
from harness.gen import SchemaGen, families, WHITESPACE_DESCRIPTIONS

ID = "C06"
TIE_MODULES = ["StathamModel.Tie"]
PROOF_MODULES = ["StathamModel.Lemmas.SerOk", "StathamModel.Lemmas.ParseNF"]
ASSUMPTIONS = ["the harness's own local $ref resolvers put the serialized document back into parser input form: by private copies of the "
               "targets (tree route) and by sharing one dict per target with `definitions` kept, as json_ref_dict.materialize does (document route)"]
N_SCHEMAS = {"quick": 900, "thorough": 30000}


def plain(x):
    if isinstance(x, dict):
        return {k: plain(v) for k, v in x.items()}
    if isinstance(x, (list, tuple)):
        return [plain(v) for v in x]
    return x


def strict(x):
    """structure with Python types made explicit, so that 1 != 1.0 != True"""
    return core.enc_val(x)


def round_trip(schema):
    status, el = core.real_parse(schema)
    if status != "ok":
        return {"stage": "parse1", "status": status}
    try:
        j1 = plain(serialize_json(el))
    except TypeError:
        return {"stage": "serialize1", "status": "primaryIsFalse", "el": el}
    return {"stage": "ok", "el": el, "j1": j1}


def share_refs(doc):
    """Resolve every local `$ref` of a self-contained document IN PLACE to the target dict itself: all pointers to one
    target (and the target's own place under `definitions`) become the same dict object.  Literal keywords are not
    descended; the keys of properties-like maps are names, not keywords.  Returns (doc, number of pointers replaced,
    number of distinct targets: each of them is reachable both from its user(s) and from its own place in the document)."""
    users = {}
    seen = set()

    def target(ref):
        node, hops = jsonref.resolve_pointer(doc, ref), 0
        while isinstance(node, dict) and set(node) == {"$ref"} and isinstance(node["$ref"], str):
            node, hops = jsonref.resolve_pointer(doc, node["$ref"]), hops + 1
            if hops > 60:
                raise jsonref.Unresolvable("reference chain does not end")
        users[id(node)] = users.get(id(node), 0) + 1
        return node

    def is_ref(v):
        return isinstance(v, dict) and set(v) == {"$ref"} and isinstance(v["$ref"], str)

    def put(container, key, v, names=False):
        if is_ref(v):
            v = container[key] = target(v["$ref"])
        walk(v, names)

    def walk(node, names=False):
        if isinstance(node, dict):
            if id(node) in seen:
                return
            seen.add(id(node))
            for k, v in list(node.items()):
                if not names and k in jsonref.LITERAL_KEYS:
                    continue
                if not names and k in ("properties", "patternProperties", "dependencies", "definitions") and isinstance(v, dict):
                    walk(v, True)
                elif isinstance(v, (dict, list)):
                    put(node, k, v)
        elif isinstance(node, list):
            for i, v in enumerate(node):
                if isinstance(v, (dict, list)):
                    put(node, i, v)

    walk(doc)
    return doc, sum(users.values()), len(users)


def document_round(j):
    """The first-round document, as a document, through the real pipeline once more:
    JSON text -> shared-target `$ref` resolution (definitions kept) -> parse -> serialize_json(*elements)."""
    doc, replaced, shared = share_refs(json.loads(json.dumps(j)))
    try:
        elements = parse(doc)
    except RecursionError:
        return {"stage": "parse", "status": "RecursionError", "replaced": replaced, "shared": shared}
    except Exception as exc:  # noqa: BLE001 - whatever escapes from the library here is an observation
        return {"stage": "parse", "status": f"{type(exc).__name__}: {str(exc)[:160]}", "replaced": replaced, "shared": shared}
    try:
        j2 = plain(serialize_json(*elements))
    except Exception as exc:  # noqa: BLE001
        return {"stage": "serialize", "status": f"{type(exc).__name__}: {str(exc)[:160]}", "replaced": replaced, "shared": shared}
    return {"stage": "ok", "els": elements, "j": j2, "replaced": replaced, "shared": shared}


def regions_of(schema, j1):
    """Known regions: F21 (empty required / properties beside composition), class-name clashes, nothing+default."""
    regs = set()

    def walk(s, member=False):
        """member: `s` is a member of a composition list (or the operand of `not`), where an element that
        serializes to `{}` is dropped by the trivial-member filter on the next parse"""
        if isinstance(s, dict):
            comp = any(k in s for k in ("anyOf", "oneOf", "allOf", "not"))
            if (comp or member) and (s.get("required") == [] or s.get("properties") == {} or s.get("patternProperties") == {} or s.get("dependencies") == {}):
                regs.add("C06-empty-keyword-beside-composition")
            if s.get("required") == [] or s.get("patternProperties") == {} or s.get("dependencies") == {}:
                regs.add("C06-empty-keyword-beside-composition")
            for k, v in s.items():
                if k in ("anyOf", "oneOf", "allOf") and isinstance(v, list):
                    for x in v:
                        walk(x, True)
                elif k == "not":
                    walk(v, True)
                else:
                    walk(v)
        elif isinstance(s, list):
            for v in s:
                walk(v)
    walk(schema)
    # same-titled, unequal classes: `_n` suffixes are handed out in parse order, which differs between the
    # original document and its normal form (and names are consumed by classes in discarded sub-schemas)
    import re
    names = set((j1.get("definitions") or {}).keys()) if isinstance(j1, dict) else set()
    if isinstance(j1, dict) and isinstance(j1.get("title"), str):
        names.add(j1["title"])
    if any(re.match(r"^.*_\d+$", n) for n in names):
        regs.add("C06-class-name-suffixes")
    return regs


def duplicate_class_names(doc):
    """two different class bodies under one title (one `definitions` entry then serves both)"""
    seen = {}

    def walk(d):
        if isinstance(d, dict):
            if d.get("type") == "object" and isinstance(d.get("title"), str):
                body = json.dumps(d, sort_keys=True, default=str)
                if seen.setdefault(d["title"], body) != body:
                    return True
            return any(walk(v) for v in d.values())
        if isinstance(d, list):
            return any(walk(v) for v in d)
        return False
    return walk(doc)


def bump(stats, key, n=1):
    stats[key] = stats.get(key, 0) + n


def declared(dump):
    """An element dump without the keywords that are present but declare nothing: an empty `properties` map and an empty
    `required` list (the serializer drops both on purpose; there is no property, no required name - no keyword VALUE - to
    lose).  Everything else is kept: names, flags, order, literals with their Python types."""
    if isinstance(dump, list):
        return [declared(x) for x in dump]
    if not isinstance(dump, dict):
        return dump
    out = {k: declared(v) for k, v in dump.items()}
    kw = out.get("kw")
    # `additionalItems` / `additionalProperties` holding a bare `Nothing()` (a composition that collapsed onto `false`) is written
    # `false`, which the parser keeps as the boolean: the same keyword value in its other spelling (the `notNothing` clause of the
    # normal form `NF`), not a value lost
    for name, flag in (("addItems", "addItemsB"), ("addProps", "addPropsB")):
        sub = out.get(name)
        if isinstance(sub, dict) and sub.get("cls") == "Nothing" and not sub.get("kw"):
            out.pop(name)
            out.setdefault("kw", {})[flag] = False
            kw = out["kw"]
    if isinstance(kw, dict):
        if kw.get("hasProps") and not out.get("props"):
            kw.pop("hasProps")
        if kw.get("required") == []:
            kw.pop("required")
    return out


def only_empty_keywords_differ(dump1, dump2):
    return dump1 != dump2 and declared(dump1) == declared(dump2)


def hazardous_descriptions(schema):
    """descriptions that do not survive a triple-quoted docstring (C07-docstring-quoting; C02 counts them as its own region):
    the only reason, known on the unchanged library, for which a generated module is not valid Python"""
    if isinstance(schema, dict):
        d = schema.get("description")
        if isinstance(d, str) and (d == "" or '"' in d or "\\" in d or "\r" in d or "\x00" in d):
            return True
        return any(hazardous_descriptions(v) for v in schema.values())
    if isinstance(schema, list):
        return any(hazardous_descriptions(v) for v in schema)
    return False


def document_route(case, j1, j2, out, stats):
    """Oracle of the document route: `serialize_json(*parse(D1))` must be `D1` itself, where `D1` is the first-round
    document with `definitions` kept and shared `$ref` targets.  `j2` is what the tree route gave (the model's route; a
    difference there has been reported, with its region, by the caller).  A document-route result that is neither `D1`
    nor the tree route's document is a failure no listed region describes: the regions are about what the first parse
    does to the ORIGINAL schema's order, and the model predicts the tree route's document, nothing else.
    Returns False when a failure was recorded."""
    try:
        dr = document_round(j1)
    except (jsonref.Unresolvable, TypeError, ValueError, RecursionError):
        bump(stats, "document-route-skipped")
        return True
    bump(stats, "document-route-round-trips")
    if dr["replaced"]:
        bump(stats, "document-route-with-shared-targets")
        bump(stats, "document-route-pointers-replaced", dr["replaced"])
    if dr["stage"] != "ok":
        out.failures.append({"case": case, "finding": None,
                             "what": f"document route: the first-round document (definitions kept, one dict per $ref target) fails at "
                                     f"{dr['stage']} ({dr['status']}), while its dereferenced tree parses and serializes"})
        bump(stats, "document-route-FAILS")
        return False
    jd = dr["j"]
    if strict(jd) == strict(j1):
        bump(stats, "document-route-identity")
        return True
    if strict(jd) == strict(j2):
        bump(stats, "document-route-differs-exactly-as-tree-route")
        return True
    out.failures.append({"case": case, "finding": None,
                         "what": "document route: parsing the first-round document (definitions kept, one dict per $ref target, parse()) and "
                                 "serializing again differs from it at " + str(first_diff(j1, jd))
                                 + ("" if strict(j1) != strict(j2) else "; the dereferenced tree does round-trip")})
    bump(stats, "document-route-FAILS")
    return False


# ---------------------------------------------------------------------------------------------------------------- families
# Every place of a parent schema where a sub-schema can sit: (keyword, how to put the sub-schema there).
def _in_map(kw, key):
    return lambda parent, sub: parent.setdefault(kw, {}).__setitem__(key, sub)


def _in_list(kw, pad):
    return lambda parent, sub: parent.setdefault(kw, []).append(sub) if kw in parent else parent.__setitem__(kw, list(pad) + [sub])


def _direct(kw):
    return lambda parent, sub: parent.__setitem__(kw, sub)


PLACES = {
    "properties": [_in_map("properties", "a"), _in_map("properties", "b")],
    "patternProperties": [_in_map("patternProperties", "^a"), _in_map("patternProperties", "b$")],
    "additionalProperties": [_direct("additionalProperties")],
    "propertyNames": [_direct("propertyNames")],
    "dependencies": [_in_map("dependencies", "a"), _in_map("dependencies", "b")],
    "items": [_direct("items"), _in_list("items", []), _in_list("items", [{"type": "integer"}])],
    "additionalItems": [_direct("additionalItems")],
    "contains": [_direct("contains")],
    "anyOf": [_in_list("anyOf", []), _in_list("anyOf", [{"type": "string"}])],
    "oneOf": [_in_list("oneOf", []), _in_list("oneOf", [{"type": "null"}])],
    "allOf": [_in_list("allOf", []), _in_list("allOf", [{"minProperties": 0}])],
    "not": [_direct("not")],
}
OBJECT_PLACES = ("properties", "patternProperties", "additionalProperties", "propertyNames", "dependencies")
ARRAY_PLACES = ("items", "additionalItems", "contains")
SIBLING_PLACES = ("properties", "patternProperties", "dependencies", "items", "anyOf", "oneOf", "allOf")
CLASS_BODIES = [
    {"properties": {"sku": {"type": "string"}}, "required": ["sku"]},
    {"properties": {"note": {"type": "string"}}},
    {"properties": {"n": {"type": "integer"}}, "additionalProperties": False},
    {"minProperties": 1},
    {"description": "bare"},
    {"patternProperties": {"^x": {"type": "number"}}, "maxProperties": 3},
]


def _deeper(rng, sub):
    """the class one level further down, behind an array or behind another (differently titled) class"""
    k = rng.random()
    if k < 0.5:
        return sub
    if k < 0.75:
        return {"type": "array", "items": sub}
    return {"type": "object", "title": "Mid", "properties": {"inner": sub}}


def same_title_family(rng):
    """Two or three object schemas with ONE title and different bodies (the parser numbers them in the order it meets them,
    the serializer writes the numbered names back as titles), hanging off every pair of sub-schema keywords of one parent,
    and off two members of every keyword that holds several.  What a round trip may change here is which class gets which
    name, whenever two walks of the same tree disagree about the order."""
    kws = list(PLACES)
    pairs = [(a, b) for i, a in enumerate(kws) for b in kws[i + 1:]] + [(k, k) for k in SIBLING_PLACES]
    for _ in range(16):
        pairs.append(tuple(rng.sample(kws, 3)))
    for combo in pairs:
        title = rng.choice(["Entry", "my entry", "T"])
        bodies = rng.sample(CLASS_BODIES, len(combo))
        parent = {}
        if all(k in OBJECT_PLACES for k in combo) and rng.random() < 0.5:
            parent = {"type": "object", "title": "Holder"}
        elif all(k in ARRAY_PLACES for k in combo) and rng.random() < 0.5:
            parent = {"type": "array"}
        used = {}
        for kw, body in zip(combo, bodies):
            variants = PLACES[kw]
            if kw in used:                       # the second member of a keyword that holds several
                place = used[kw]
            else:
                place = used[kw] = rng.choice(variants[1:] if (combo.count(kw) > 1 and kw == "items") else variants)
                if combo.count(kw) > 1 and kw in ("properties", "patternProperties", "dependencies"):
                    used[kw] = variants[1]
                    place = variants[0]
            place(parent, _deeper(rng, {"type": "object", "title": title, **body}))
        k = rng.random()
        if k < 0.6:
            yield "top", parent
        elif k < 0.8:
            yield "under-property", {"type": "object", "title": "Outer", "properties": {"p": parent, "q": {"type": "string"}}}
        else:
            yield "under-items", {"type": "array", "items": parent}


BOOLEAN_SCHEMAS = (False, True, {})


def referenced_class_family(rng):
    """An object class that is NOT the top-level schema - so it lives in `definitions`, is reached through `$ref` and, in the
    document route, is one dict with several users - holding a boolean or empty schema in each of its sub-schema places."""
    def bodies(v):
        yield "properties", {"properties": {"a": v}}
        yield "properties-required", {"properties": {"a": v}, "required": ["a"]}
        yield "patternProperties", {"patternProperties": {"^a": v}}
        yield "additionalProperties", {"additionalProperties": v}
        yield "propertyNames", {"propertyNames": v}
        yield "dependencies", {"dependencies": {"a": v}}
        yield "array-items", {"properties": {"a": {"type": "array", "items": v}}}
        yield "array-tuple", {"properties": {"a": {"type": "array", "items": [v], "additionalItems": v}}}
        yield "array-contains", {"properties": {"a": {"type": "array", "contains": v}}}
        yield "not", {"properties": {"a": {"not": v}}}
        yield "anyOf", {"properties": {"a": {"anyOf": [v, {"type": "string"}]}}}

    def placements(cls):
        yield "property", {"type": "object", "title": "Envelope", "required": ["payload"],
                           "properties": {"payload": {"type": "string"}, "reserved": cls}}
        yield "two-users", {"type": "object", "title": "Envelope", "properties": {"first": cls, "second": copy_of(cls)}}
        yield "items", {"type": "array", "items": cls}
        yield "composition-member", {"anyOf": [cls, {"type": "string"}]}
        yield "class-in-class", {"type": "object", "title": "Envelope",
                                 "properties": {"mid": {"type": "object", "title": "Mid", "properties": {"reserved": cls}}}}
        yield "additionalProperties", {"type": "object", "title": "Envelope", "additionalProperties": cls}

    for v in BOOLEAN_SCHEMAS:
        for where, body in bodies(v):
            cls = {"type": "object", "title": "Reserved", "description": "Reserved for future use.", **body}
            for placed, schema in rng.sample(list(placements(cls)), 2):
                yield f"{where}={json.dumps(v)}", placed, schema


def copy_of(x):
    return json.loads(json.dumps(x))


LEAVES = [{"type": "string"}, {"type": "integer"}, {"type": "number", "minimum": 0}, {"type": "boolean"}, {"type": "null"},
          {"type": "string", "maxLength": 3}, {"type": "integer", "default": 1}]


def lone_annotation_family(rng):
    """The generated module's imports are worked out from what its declarations use.  Here ONE class has ONE property, whose
    schema takes every shape that has an annotation of its own - untyped, each scalar, arrays of every items / additionalItems /
    contains form (the empty tuple, open and closed, among them), type lists, compositions, `not`, another class - so that the
    names the module needs are exactly the names this one annotation needs; then the same shape required, with a default, and
    one level down (array of it, class of it).  Such a module has to execute on its own imports and give the parsed classes."""
    def shapes():
        x, y = (copy_of(v) for v in rng.sample(LEAVES, 2))
        yield "untyped", {}
        yield "true", True
        yield "untyped-keyword", {"minLength": 1}
        for leaf in LEAVES[:5]:
            yield "scalar-" + leaf["type"], copy_of(leaf)
        yield "array-bare", {"type": "array"}
        yield "array-items-any", {"type": "array", "items": {}}
        yield "array-items-true", {"type": "array", "items": True}
        yield "array-items", {"type": "array", "items": x}
        yield "array-of-arrays", {"type": "array", "items": {"type": "array"}}
        yield "tuple-empty-open", {"type": "array", "items": []}
        yield "tuple-empty-closed", {"type": "array", "items": [], "additionalItems": False}
        yield "tuple-empty-additional", {"type": "array", "items": [], "additionalItems": x}
        yield "tuple-one-open", {"type": "array", "items": [x]}
        yield "tuple-one-closed", {"type": "array", "items": [x], "additionalItems": False}
        yield "tuple-two-closed", {"type": "array", "items": [x, y], "additionalItems": False}
        yield "tuple-one-additional", {"type": "array", "items": [x], "additionalItems": y}
        yield "tuple-any-closed", {"type": "array", "items": [{}], "additionalItems": False}
        yield "array-contains", {"type": "array", "contains": x}
        yield "array-untyped-items", {"items": x}
        yield "type-list", {"type": [x["type"], y["type"]] if x["type"] != y["type"] else [x["type"], "array"]}
        yield "type-list-with-array", {"type": ["array", "null"], "items": x}
        yield "anyOf", {"anyOf": [x, y]}
        yield "oneOf-with-any", {"oneOf": [x, {}]}
        yield "allOf", {"allOf": [x, {"description": "more"}]}
        yield "anyOf-arrays", {"anyOf": [{"type": "array", "items": []}, {"type": "array", "items": [], "additionalItems": False}]}
        yield "not", {"not": x}
        yield "const", {"const": [1, "a"]}
        yield "enum", {"enum": [None, 1, "a"]}
        yield "class", {"type": "object", "title": "Part", "properties": {"n": x}}
        yield "class-bare", {"type": "object", "title": "Part"}

    for label, shape in shapes():
        k = rng.random()
        holder = {"type": "object", "title": rng.choice(["Holder", "Envelope", "holder of things"]),
                  "properties": {rng.choice(["value", "attachments", "p"]): shape}}
        name = next(iter(holder["properties"]))
        if k < 0.3:
            holder["required"] = [name]
        elif k < 0.45 and isinstance(shape, dict):
            shape["default"] = rng.choice([None, [], 1, "a"])
        yield label, "property", holder
        k = rng.random()
        if k < 0.25:
            yield label, "items-of-property", {"type": "object", "title": "Holder", "properties": {"values": {"type": "array", "items": copy_of(shape)}}}
        elif k < 0.45:
            yield label, "class-in-class", {"type": "object", "title": "Outer", "required": ["inner"],
                                            "properties": {"inner": {"type": "object", "title": "Inner", "properties": {"v": copy_of(shape)}}}}
        elif k < 0.6:
            yield label, "class-under-array", {"type": "array", "items": copy_of(holder)}
        elif k < 0.7:
            yield label, "unannotated-places", {"type": "object", "title": "Holder", "additionalProperties": copy_of(shape),
                                                "patternProperties": {"^x": copy_of(shape)}}


def check_case(drv, schema, out, stats):
    rt = round_trip(schema)
    case = {"schema": schema}
    try:
        tables = core.schema_tables(schema, [])
        rep = drv.ask({"op": "parse_serialize", "schema": core.enc_val(schema), "tables": tables})
    except (TypeError, ValueError):
        return
    if "error" in rep:
        stats["driver-error"] = stats.get("driver-error", 0) + 1
        return
    if rt["stage"] == "parse1":
        if rep["parse"] != "err":
            out.disagreements.append({"what": "parse outcome", "impl": rt["status"], "model": rep["parse"], **case})
        return
    if rep["parse"] != "ok":
        out.disagreements.append({"what": "parse outcome", "impl": "ok", "model": rep, **case})
        return
    out.traces_validated += 1
    if rt["stage"] == "serialize1":
        stats["root-is-false"] = stats.get("root-is-false", 0) + 1
        if rep["r"] != "err":
            out.disagreements.append({"what": "serialize outcome", "impl": "primaryIsFalse", "model": rep["r"], **case})
        return
    j1 = rt["j1"]
    out.note_case(case, isinstance(schema, dict) and len(schema) >= 2)
    agree = rep["r"] == "ok" and rep["json"] == strict(j1)
    if not agree:
        out.disagreements.append({"what": "first-round document", "impl": strict(j1), "model": rep.get("json"), **case})
    regs = regions_of(schema, j1)
    # `nfGood`: the decidable condition on the source schema under which C06_round_trip / C06_fixpoint hold (parse_NF); `nf`: the
    # parsed tree (before de-duplication renaming) is in normal form.  nfGood must imply nf (that is the theorem, evaluated).
    nf_good = bool(rep.get("nf_good"))
    stats["source-nfGood-" + str(nf_good)] = stats.get("source-nfGood-" + str(nf_good), 0) + 1
    if nf_good and rep.get("good_src"):
        # the three hypotheses of C06_meaning_preserved: Good and nfGood on the source, Good on the normal-form document
        key = "meaning-preserved-hypotheses-" + ("hold" if rep.get("good_nf") else "source-ok-but-normal-form-not-Good")
        stats[key] = stats.get(key, 0) + 1
    if nf_good and not rep.get("nf"):
        out.disagreements.append({"what": "model: nfGood schema whose parse is not in normal form (contradicts parse_NF)", **case})
    if not nf_good and rep.get("nf"):
        stats["normal-form-although-not-nfGood"] = stats.get("normal-form-although-not-nfGood", 0) + 1

    predicted = {"by-model": agree}

    def fail(what, region=None):
        # a listed region explains a failure only where the model predicts the very same behaviour of the real code
        # (first- and second-round documents and trees): what the model does not predict, no finding describes
        fid = region if (predicted["by-model"] and region in regs) else None
        if region in regs and fid is None:
            bump(stats, "oracle-fail-in-region-but-not-as-the-model-predicts")
        out.failures.append({"case": case, "what": what, "finding": fid})
        stats["oracle-fail-" + str(fid)] = stats.get("oracle-fail-" + str(fid), 0) + 1

    try:
        flat = jsonref.deref(j1)
    except jsonref.Unresolvable as exc:
        fail(f"first-round document has an unresolvable reference: {exc}", "C06-class-name-clash")
        return
    rt2 = round_trip(flat)
    if rt2["stage"] != "ok":
        fail(f"the serialized document does not parse/serialize again ({rt2['stage']}: {rt2['status']})", "C06-nothing-with-default")
        return
    j2 = rt2["j1"]
    rep2 = drv.ask({"op": "parse_serialize", "schema": core.enc_val(flat), "tables": core.schema_tables(flat, [])})
    if "error" not in rep2 and not (rep2.get("r") == "ok" and rep2["json"] == strict(j2)):
        out.disagreements.append({"what": "second-round document", "impl": strict(j2), "model": rep2.get("json"), "schema": flat})
        predicted["by-model"] = False
    # the two trees of the real code, dumped strictly (Python types of literals explicit, names, flags, order)
    try:
        dump1, dump2 = core.dump_elem(rt["el"]), core.dump_elem(rt2["el"])
    except (TypeError, ValueError, RecursionError):
        dump1 = dump2 = None
        bump(stats, "element-comparison-skipped-undumpable")
    if dump1 is not None and predicted["by-model"]:
        # the model's trees (after de-duplication renaming) are the real ones: only then does the model predict what follows
        if rep.get("elem") != dump1 or ("error" not in rep2 and rep2.get("elem") != dump2):
            predicted["by-model"] = False
            bump(stats, "model-tree-differs-from-real-tree")
    # the theorem's object on the real code: `toSchema` against the real document, and inside the normal form (`NF`, the
    # hypothesis of C06_partial_round_trip) the second parse must give the very same tree, whatever region the schema is in
    try:
        if dump1 is None:
            raise ValueError("undumpable")
        ts = drv.ask({"op": "to_schema", "elem": dump1, "doc": core.enc_val(flat), "tables": core.schema_tables(flat, [])})
    except (TypeError, ValueError, RecursionError):
        ts = {"error": "undumpable"}
    if "error" in ts:
        stats["to_schema-skipped"] = stats.get("to_schema-skipped", 0) + 1
    else:
        in_tie = "C06-class-name-suffixes" not in regs and not duplicate_class_names(j1)
        label = "to_schema-" + ("same" if ts["same"] else ("differs-outside-tie" if not in_tie else "DIFFERS"))
        stats[label] = stats.get(label, 0) + 1
        if not ts["same"] and in_tie:
            out.disagreements.append({"what": "toSchema (schema-level serializer model) vs dereferenced serialize_json output", "impl": flat, **case})
        stats["normal-form-" + str(bool(ts["nf"]))] = stats.get("normal-form-" + str(bool(ts["nf"])), 0) + 1
        if ts["nf"] and not ts["round_trip_identity"]:
            out.disagreements.append({"what": "model: NF tree whose model round trip is not the identity (contradicts C06_partial_round_trip)", **case})
        if not ts["nf"] and not regs:
            stats["not-normal-form-outside-listed-regions"] = stats.get("not-normal-form-outside-listed-regions", 0) + 1
        if nf_good and ts["same"] and not duplicate_class_names(j1) and "C06-class-name-suffixes" not in regs:
            # C06_round_trip on the real code, hypothesis on the source schema only (the theorem is about the parser before
            # de-duplication renaming: documents in which same-titled unequal classes get `_n` suffixes are outside it)
            stats["theorem-instances-nfGood-on-real-code"] = stats.get("theorem-instances-nfGood-on-real-code", 0) + 1
            if dump1 != dump2 or strict(j1) != strict(j2):
                out.failures.append({"case": case, "finding": None,
                                     "what": "the source schema meets nfGood (hypothesis of C06_round_trip) but the second round differs: " +
                                             (first_diff(dump1, dump2) if dump1 != dump2 else first_diff(j1, j2))})
                return
        if ts["nf"] and ts["same"]:
            stats["theorem-instances-on-real-code"] = stats.get("theorem-instances-on-real-code", 0) + 1
            if dump1 != dump2:
                out.failures.append({"case": case, "finding": None,
                                     "what": "inside the normal form (hypothesis of C06_partial_round_trip) the second parse gives a different tree: " + first_diff(dump1, dump2)})
                return
            if strict(j1) != strict(j2):
                out.failures.append({"case": case, "finding": None,
                                     "what": "inside the normal form the second-round document differs at " + first_diff(j1, j2)})
                return
    if strict(j1) != strict(j2):
        diff = first_diff(j1, j2)
        fail(f"second round differs from the first at {diff}",
             "C06-class-name-suffixes" if "C06-class-name-suffixes" in regs else "C06-empty-keyword-beside-composition")
    elif dump1 is not None and dump1 != dump2:
        # Both rounds write the same document, yet the element parsed from it is not the element that was serialized: whatever
        # distinguishes the two was never written, i.e. a keyword value was lost by the round trip (and stays lost).  Judged on
        # the real code alone.  Keywords that are present but empty declare nothing and are left aside (counted).
        if only_empty_keywords_differ(dump1, dump2):
            bump(stats, "same-document-elements-differ-only-by-empty-properties-or-required")
        else:
            bump(stats, "same-document-but-different-element")
            fail("the element parsed from the first-round document differs from the parsed element although both serialize to the "
                 "same document (a keyword value is lost by the round trip): " + str(first_diff(declared(dump1), declared(dump2))), None)
            return
    elif dump1 is not None:
        bump(stats, "re-parsed-element-identical")
    stats["round-trips"] = stats.get("round-trips", 0) + 1
    if not document_route(case, j1, j2, out, stats):
        return
    # python half: executing the generated source gives classes equal to the parsed ones
    el = rt["el"]
    from statham.serializers.orderer import get_object_classes
    try:
        classes = list(get_object_classes(el))
    except Exception:  # noqa: BLE001
        return
    if not classes:
        return
    hazard = hazardous_descriptions(schema)
    try:
        src = serialize_python(el)
    except Exception as exc:  # noqa: BLE001
        bump(stats, "serialize_python-raises")
        if not hazard:
            fail(f"serialize_python raises {type(exc).__name__}: {str(exc)[:160]} on the parsed element ({len(classes)} classes)", None)
        return
    ns = {}
    try:
        exec(compile(src, "<generated>", "exec"), ns)  # noqa: S102 - generated by the library under test
    except Exception as exc:  # noqa: BLE001
        if hazard:
            # a description that does not survive the triple-quoted docstring: C07-docstring-quoting, C02's region
            bump(stats, "generated-python-does-not-execute-description-hazard")
            return
        bump(stats, "generated-python-does-not-execute")
        fail(f"the generated Python source does not execute on its own imports ({type(exc).__name__}: {str(exc)[:160]}): "
             f"it yields none of the {len(classes)} parsed classes", None)
        return
    bump(stats, "python-modules-executed")
    for cls in classes:
        other = ns.get(cls.__name__)
        stats["python-classes-compared"] = stats.get("python-classes-compared", 0) + 1
        if other is None or not (cls == other and other == cls):
            fail(f"class {cls.__name__} obtained by executing the generated Python differs from the parsed class", None)
            return


def first_diff(a, b, path="$"):
    if type(a) is not type(b):
        return f"{path}: {json.dumps(a)[:60]} vs {json.dumps(b)[:60]}"
    if isinstance(a, dict):
        if list(a) != list(b):
            return f"{path}: keys {list(a)} vs {list(b)}"
        for k in a:
            d = first_diff(a[k], b[k], f"{path}.{k}")
            if d:
                return d
        return None
    if isinstance(a, list):
        if len(a) != len(b):
            return f"{path}: length {len(a)} vs {len(b)}"
        for i, (x, y) in enumerate(zip(a, b)):
            d = first_diff(x, y, f"{path}[{i}]")
            if d:
                return d
        return None
    return None if a == b else f"{path}: {a!r} vs {b!r}"


def run(ctx, scale=1.0):
    rng = random.Random(ctx["seed"] + 6)
    out = Outcome()
    out.rule = ("schemas from the generator and the focused families (among them: same-titled classes with different bodies at every pair "
                "of sub-schema keywords; a class referenced from elsewhere with a boolean/empty schema in each of its sub-schema places; a class whose single "
                "property takes every annotation shape, so that the generated module's imports hang on that one annotation); "
                "a case is one schema taken through parse -> serialize -> deref -> parse -> serialize (tree route) and through "
                "parse -> serialize -> JSON text -> shared-target $ref resolution with definitions kept -> parse() -> serialize (document "
                "route); the re-parsed element is compared with the parsed one and the generated Python module is executed, both on the "
                "real code alone; non-trivial = the schema object has >= 2 keywords; distinct by SHA-256")
    stats = {}
    drv = core.Driver()
    try:
        for schema, _ in families(rng):
            check_case(drv, schema, out, stats)
        sg = SchemaGen(rng)
        for _ in range(int(N_SCHEMAS[ctx["tier"]] * scale)):
            check_case(drv, sg.schema(), out, stats)
        for desc in WHITESPACE_DESCRIPTIONS:
            check_case(drv, {"type": "object", "title": "Described", "description": desc,
                             "properties": {"a": {"type": "string"}, "inner": {"type": "object", "title": "Inner", "description": desc + "!"}}}, out, stats)
        for schema in ({"required": [], "not": {"type": "string"}}, {"properties": {}, "anyOf": [{"type": "string"}, {"type": "null"}]},
                       {"anyOf": [False], "default": 1}, {"type": "array"}, {"items": {}}, {"uniqueItems": False},
                       {"additionalItems": True, "additionalProperties": True}, {"type": ["string"]}, {"allOf": [{"type": "string"}]}):
            check_case(drv, schema, out, stats)
        # (after everything else, so that the generator's share of the rng stream is what it always was)
        for placed, schema in same_title_family(rng):
            bump(stats, "family-same-title-classes")
            bump(stats, "family-same-title-classes-" + placed)
            check_case(drv, schema, out, stats)
        for where, placed, schema in referenced_class_family(rng):
            bump(stats, "family-referenced-class-boolean-subschemas")
            bump(stats, "family-referenced-class-" + placed)
            check_case(drv, schema, out, stats)
        for label, placed, schema in lone_annotation_family(rng):
            bump(stats, "family-lone-annotation")
            bump(stats, "family-lone-annotation-" + placed)
            before = stats.get("python-modules-executed", 0)
            check_case(drv, schema, out, stats)
            bump(stats, "family-lone-annotation-modules-executed", stats.get("python-modules-executed", 0) - before)
    finally:
        drv.close()
    # the smallest failing input first (the framework reports the first one)
    out.failures.sort(key=lambda f: len(json.dumps(f.get("case"), default=str)))
    out.stats = stats
    return out


def search(ctx, reason):
    sub = dict(ctx)
    sub["seed"] = ctx["seed"] + 104395301
    found = run(sub, scale=3.0 if ctx["tier"] == "quick" else 1.0)
    fresh = [f for f in found.failures if f.get("finding") is None]
    return fresh[0] if fresh else None


def _fails(schema, new_only=False):
    """new_only: failures a listed finding explains (they occur on the unchanged library, too) do not count"""
    out, stats = Outcome(), {}
    drv = core.Driver()
    try:
        check_case(drv, schema, out, stats)
    finally:
        drv.close()
    return bool([f for f in out.failures if f.get("finding") is None] if new_only else out.failures)


def replay_finding(finding):
    return _fails(finding["witness"]["schema"])


def replay(payload):
    failure = payload.get("failure") or {}
    case = failure.get("case")
    return True if not case else not _fails(case["schema"], new_only=failure.get("finding") is None)
