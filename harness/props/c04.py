"""C04 — an accepted value comes back complete and unaltered inside the model.

Correspondence: the canonical dump of every returned model vs the Lean model's result.
Oracle: a structural walk of input vs returned object (`embeds`) that does not use the model.  At a composition the
walk follows the sub-schema that the statement says builds the result (`builder`: the first listed one that accepts),
so the kind of object / number that comes back is demanded there too; a member that was not in the input must be a
declared property holding its default or the not-passed marker (`check_absent`).
Histories: one element object validates whole sequences of values (`check_histories`: unions with overlapping
branches at every position, later-branch values first), every accepted value judged on its own; a failure is
recorded with the earlier calls it needs (`history` in the case) and replayed with them.
Carried values: "all values they accept" includes the values an application holds after an earlier step - the dict-like
objects an un-typed element returned (whole, as the payload of a loosely described envelope, or as the members of a
freshly assembled container) and other dict subclasses (`OrderedDict`).  Every accepted value that contains an object
is handed in again in one of those forms (`check_carried`): it is the same JSON value, so the same walk must succeed
on what comes back, the call must leave it alone, and what comes back must be what the plain value gave."""
import collections
import copy
import random

from statham.schema.constants import NotPassed
from statham.schema.elements import Object
from statham.schema.elements.base import _AnonymousObject
from statham.schema.parser import _parse_attribute_name

from harness import core
from harness.callcheck import observe
from harness.framework import Outcome
from harness.gen import SchemaGen, ValueGen, families

ID = "C04"
TIE_MODULES = ["StathamModel.Tie"]
PROOF_MODULES = ["StathamModel.Props.C04Tree"]
ASSUMPTIONS = ["the JSON name -> Python name mapping used by the oracle is the library's own (_parse_attribute_name; C12 checks it)"]
N_SCHEMAS = {"quick": 1200, "thorough": 30000}
TWO53 = 2 ** 53


def sub_item(elem, i):
    """The element governing array position i, read straight off the attributes (None = unknown)."""
    from statham.schema.elements import Element as _E
    from statham.schema.elements.composition import CompositionElement, Not
    if elem is None or isinstance(elem, (CompositionElement, Not)):
        return None
    items = getattr(elem, "items", NotPassed())
    if isinstance(items, NotPassed):
        return None
    if isinstance(items, list):
        if i < len(items):
            return items[i]
        add = getattr(elem, "additionalItems", True)
        return add if isinstance(add, _E) else None
    return items


def sub_prop(elem, k):
    """The element governing member k when it is unambiguous (declared only, or additional only)."""
    import re
    from statham.schema.elements import Element as _E
    from statham.schema.elements.composition import CompositionElement, Not
    if elem is None or isinstance(elem, (CompositionElement, Not)):
        return None
    pats = getattr(elem, "patternProperties", NotPassed())
    if not isinstance(pats, NotPassed):
        try:
            if any(re.search(p, k) for p in pats):
                return None
        except (re.error, TypeError):
            return None
    props = getattr(elem, "properties", NotPassed())
    if not isinstance(props, NotPassed):
        for name, prop in props.items():
            if (prop.source or name) == k:
                return prop.element
    add = getattr(elem, "additionalProperties", True)
    return add if isinstance(add, _E) else None


def accepts(elem, v):
    """Does the real element accept `v` on its own?  True / False / None (the call escaped with something else)."""
    from statham.schema.exceptions import ValidationError
    try:
        elem(copy.deepcopy(v))
    except (TypeError, ValidationError):
        return False
    except Exception:  # noqa: BLE001
        return None
    return True


def builder(elem, v, seen=None, depth=0):
    """The element that builds the result for an accepted `v` at a position governed by `elem`, as the statement
    has it ("including which anyOf/oneOf/allOf branch builds the result"): a composition's result is the construction
    of its first listed sub-schema that accepts the value (anyOf: the first that accepts; oneOf: the one that accepts;
    allOf: all accept, so the first listed), followed through nested compositions.  Which sub-schemas accept is asked
    of the sub-schemas themselves, one by one, never of the composition.  None = unknown (then nothing is demanded)."""
    from statham.schema.elements.composition import CompositionElement, Not
    if elem is None or isinstance(elem, Not) or depth > 12:
        return None
    if not isinstance(elem, CompositionElement):
        return elem
    mode = getattr(elem, "mode", None)
    if mode not in ("anyOf", "oneOf", "allOf"):
        return None
    if seen is not None:
        seen[mode] = seen.get(mode, 0) + 1
    if mode == "allOf":
        return builder(elem.elements[0], v, seen, depth + 1)
    for position, sub in enumerate(elem.elements):
        verdict = accepts(sub, v)
        if verdict is None:
            return None
        if verdict:
            if seen is not None and position:
                seen["later-branch"] = seen.get("later-branch", 0) + 1
            return builder(sub, v, seen, depth + 1)
    return None


def json_like(x, depth=0):
    if x is None or isinstance(x, (bool, int, float, str)):
        return True
    if depth > 40:
        return False
    if isinstance(x, list):
        return all(json_like(y, depth + 1) for y in x)
    if isinstance(x, dict):
        return all(isinstance(k, str) and json_like(y, depth + 1) for k, y in x.items())
    return False


def check_absent(elem_props, n, held, path, problems, regions):
    """A result member that was not in the input: it must be a declared property (checked by the caller) holding
    its default or the not-passed marker."""
    if isinstance(held, NotPassed) or elem_props is None or n not in elem_props:
        return
    default = getattr(elem_props[n].element, "default", NotPassed())
    if not isinstance(default, NotPassed):
        if not json_like(default):
            return
        sub = []
        embeds(default, held, f"{path}.{n}", sub, regions, None)
        if not sub:
            return
    problems.append(f"{path}.{n}: declared property absent from the input holds {held!r}, which is neither its default "
                    f"({'none declared' if isinstance(default, NotPassed) else repr(default)}) nor the not-passed marker")


def embeds(v, r, path, problems, regions, elem=None, seen=None):
    """Is every part of input `v` present, unaltered, in result `r`?  `elem` (optional) is the element
    governing this position, used only for what kind of object must come back; a composition stands for the
    sub-schema that builds its result (`builder`)."""
    from statham.schema.elements.meta import ObjectMeta as _OM
    from statham.schema.elements import Number as _Number, Integer as _Integer, Element as _Element
    elem = builder(elem, v, seen)
    if elem is not None and not isinstance(elem, _OM) and isinstance(elem, _Element) and isinstance(v, dict) and isinstance(r, Object):
        problems.append(f"{path}: expected an untyped object (built by {type(elem).__name__}), got an instance of model {type(r).__name__}")
        return
    if isinstance(elem, _OM) and isinstance(v, dict) and not isinstance(r, elem):
        problems.append(f"{path}: expected an instance of model {elem.__name__}, got {type(r).__name__}")
        return
    if isinstance(elem, _Number) and isinstance(v, int) and not isinstance(v, bool) and not isinstance(r, float):
        problems.append(f"{path}: int under a number schema came back as {type(r).__name__}, not float")
        return
    if isinstance(elem, _Integer) and isinstance(v, int) and not isinstance(v, bool) and type(r) is not int:
        problems.append(f"{path}: int under an integer schema came back as {type(r).__name__}")
        return
    if isinstance(r, NotPassed):
        problems.append(f"{path}: value replaced by the not-passed marker")
        return
    if v is None or isinstance(v, (bool, str)):
        if type(r) is not type(v) or r != v:
            problems.append(f"{path}: {v!r} came back as {r!r}")
        return
    if isinstance(v, int):
        if isinstance(r, bool) or not isinstance(r, (int, float)):
            problems.append(f"{path}: {v!r} came back as {type(r).__name__}")
        elif isinstance(r, float):
            if abs(v) > TWO53:
                regions.add("int-precision")
            if r != v:
                problems.append(f"{path}: int {v} came back as float {r!r} (not equal)")
        elif r != v:
            problems.append(f"{path}: {v} came back as {r}")
        return
    if isinstance(v, float):
        if not isinstance(r, float) or r != v:
            problems.append(f"{path}: {v!r} came back as {r!r}")
        return
    if isinstance(v, list):
        if not isinstance(r, list):
            problems.append(f"{path}: list came back as {type(r).__name__}")
        elif len(r) != len(v):
            problems.append(f"{path}: list of {len(v)} came back with {len(r)} items")
        else:
            for i, (x, y) in enumerate(zip(v, r)):
                embeds(x, y, f"{path}[{i}]", problems, regions, sub_item(elem, i), seen)
        return
    if isinstance(v, dict):
        if isinstance(r, Object):
            mapping = r._dict  # pylint: disable=protected-access
            declared = set(type(r).properties)
        elif isinstance(r, dict):
            mapping = r
            declared = None
        else:
            problems.append(f"{path}: object came back as {type(r).__name__}")
            return
        pynames = {}
        for k in v:
            if isinstance(k, str) and not core.has_surrogate(k):
                pynames[k] = _parse_attribute_name(k)
        names = list(pynames.values())
        if len(set(names)) != len(names) or any(pynames[k] != k and pynames[k] in v for k in pynames):
            regions.add("key-collision")
        matched = set()
        for k, x in v.items():
            cands = [k] + ([pynames[k]] if k in pynames and pynames[k] != k else [])
            if isinstance(r, Object):
                # a class declared in the DSL may give a JSON name any attribute name it likes
                cands += [a for a, p in type(r).properties.items() if (p.source or a) == k and a not in cands]
            elif elem is not None and isinstance(getattr(elem, "properties", None), dict):
                # the same for an untyped element written in the DSL: its result is keyed by the attribute names its own
                # property mapping declares (`enum_ = Property(..., source="enum")`), whatever the parser would have chosen
                cands += [a for a, p in elem.properties.items() if (getattr(p, "source", None) or a) == k and a not in cands]
            ok = False
            first_problem = None
            for c in cands:
                if c in mapping:
                    sub = []
                    embeds(x, mapping[c], f"{path}.{c}", sub, regions, sub_prop(elem, k), seen)
                    if not sub:
                        ok = True
                        matched.add(c)
                        if isinstance(r, Object) and c in declared:
                            try:
                                attr = getattr(r, c)
                            except AttributeError:
                                problems.append(f"{path}.{c}: declared property is not readable as an attribute")
                                attr = mapping[c]
                            if attr is not mapping[c] and attr != mapping[c]:
                                problems.append(f"{path}.{c}: attribute differs from the stored member")
                        break
                    first_problem = first_problem or sub[0]
            if not ok:
                problems.append(first_problem or f"{path}: member {k!r} is missing from the result")
        if isinstance(r, Object):
            own_props = type(r).properties
        else:
            own_props = getattr(elem, "properties", None) if elem is not None else None
            if elem is not None and isinstance(own_props, NotPassed):
                own_props = {}
        for n in mapping:
            if n in matched:
                continue
            if own_props is not None and n not in own_props:
                problems.append(f"{path}: result member {n!r} was not in the input and is not a declared property")
            else:
                check_absent(own_props, n, mapping[n], path, problems, regions)
        return
    problems.append(f"{path}: unexpected input type {type(v).__name__}")


# ----------------------------------------------------------------------------- carried values
# "all supported schemas x all values they accept": a value does not stop being that value because an earlier step of the
# application already ran it through the library (or through `json.load(..., object_pairs_hook=OrderedDict)`).  Multi-step
# use is ordinary: an envelope is read with a loose schema, then its payload is validated against the schema its `kind`
# selects; a document is assembled from parts of earlier results.  What the second schema is given is then not a plain
# `dict` but the dict subclass the first step returned.

CARRY_MODES = ["whole", "envelope", "parts", "ordered"]


def has_object(v, depth=0):
    if depth > 40:
        return False
    if isinstance(v, dict):
        return True
    return isinstance(v, list) and any(has_object(x, depth + 1) for x in v)


def carry(v, mode):
    """The JSON value `v` in the form an application holds it after an earlier step (a fresh object on every call)."""
    from statham.schema.elements import Element
    from statham.schema.parser import parse_element
    if mode == "whole":          # the output of an un-typed element
        return Element()(copy.deepcopy(v))
    if mode == "envelope":       # the un-described payload of a loosely described envelope
        envelope = parse_element({"properties": {"kind": {"type": "string"}}})({"kind": "k", "payload": copy.deepcopy(v)})
        return envelope["payload"]
    if mode == "parts":          # a plain container assembled from members that earlier conversions returned
        loose = Element()
        if isinstance(v, dict):
            return {k: loose(copy.deepcopy(x)) for k, x in v.items()}
        if isinstance(v, list):
            return [loose(copy.deepcopy(x)) for x in v]
        return copy.deepcopy(v)
    if mode == "ordered":        # what json.load(..., object_pairs_hook=OrderedDict) gives
        if isinstance(v, dict):
            return collections.OrderedDict((k, carry(x, mode)) for k, x in v.items())
        if isinstance(v, list):
            return [carry(x, mode) for x in v]
        return v
    raise ValueError(mode)


def plain(x):
    """(the JSON value with every dict subclass turned back into a dict, how many there were)"""
    if isinstance(x, dict):
        n = 0 if type(x) is dict else 1
        d = {}
        for k, y in x.items():
            d[k], m = plain(y)
            n += m
        return d, n
    if isinstance(x, list):
        items = [plain(y) for y in x]
        return [y for y, _ in items], sum(m for _, m in items)
    return x, 0


def first_difference(a, b, path="$"):
    """Where two canonical results (`core.canon_rval`) differ first, and how: a short text, None when they are the same."""
    def kind(c):
        if isinstance(c, dict) and len(c) == 1:
            k = next(iter(c))
            return {"i": "an int", "f": "a float", "inst": "a model instance", "anon": "an untyped object", "dict": "an untyped object",
                    "np": "the not-passed marker"}.get(k, k)
        if isinstance(c, dict) and "inst" in c:
            return f"an instance of model {c['inst']}"
        return "an array" if isinstance(c, list) else repr(c)[:40]
    if type(a) is not type(b) or (isinstance(a, dict) and (list(a) != list(b) or a.get("inst") != b.get("inst"))):
        return f"{path}: {kind(a)} instead of {kind(b)}"
    if isinstance(a, dict):
        for k in a:
            if k in ("d", "anon", "dict"):
                if [m[0] for m in a[k]] != [m[0] for m in b[k]]:
                    return f"{path}: members {[m[0] for m in a[k]][:8]} instead of {[m[0] for m in b[k]][:8]}"
                for (name, x), (_, y) in zip(a[k], b[k]):
                    d = first_difference(x, y, f"{path}.{name}")
                    if d:
                        return d
            elif a[k] != b[k]:
                return f"{path}: {kind(a)} {a[k]!r} instead of {kind(b)} {b[k]!r}"
        return None
    if isinstance(a, list):
        if len(a) != len(b):
            return f"{path}: {len(a)} items instead of {len(b)}"
        for i, (x, y) in enumerate(zip(a, b)):
            d = first_difference(x, y, f"{path}[{i}]")
            if d:
                return d
        return None
    return None if a == b else f"{path}: {a!r} instead of {b!r}"


def untyped_alike(c):
    if isinstance(c, list):
        return [untyped_alike(x) for x in c]
    if isinstance(c, dict):
        return {("dict" if k == "anon" and len(c) == 1 else k): untyped_alike(x) for k, x in c.items()}
    return c


def judge_carried(el, v, mode, plain_result, seen=None):
    """Hand the accepted JSON value `v` to `el` again in the carried form `mode`.  Returns (status, problem): status is
    "judged" (problem None = fine), or why nothing could be judged.  `plain_result` is what `el` returned for the plain value."""
    try:
        given, witness = carry(v, mode), carry(v, mode)
        back, foreign = plain(given)
    except Exception:  # noqa: BLE001 - the earlier step itself failed: the other families judge that schema
        return "carry-failed", None
    if not foreign:
        return "nothing-carried", None
    if not core._same_value(back, v) or not core._same_value(given, witness):  # pylint: disable=protected-access
        return "carry-unfaithful", None
    try:
        res = el(given)
    except Exception:  # noqa: BLE001 - C04 is about accepted values; acceptance itself is C01's
        return "carried-not-accepted", None
    if not core._same_value(given, witness):  # pylint: disable=protected-access
        return "judged", "the call altered the value it was given"
    problems, regions = [], set()
    embeds(v, res, "$", problems, regions, el, seen)
    if problems:
        return "judged", problems[0]
    # model instance vs untyped object, int vs float, members and their order - but not which dict class an untyped
    # object is (an element that hands the value back as it is, e.g. `not`, hands back the dict class it was given)
    where = first_difference(untyped_alike(core.canon_rval(res)), untyped_alike(core.canon_rval(plain_result)))
    if where:
        return "judged", f"{where} (the latter is what the same value gives when handed in as plain dicts)"
    return "judged", None


class Carrier:
    """Chooses the carried form (its own stream, derived from ctx["seed"]) and keeps the books."""

    def __init__(self, rng, stats):
        self.rng, self.stats = rng, stats

    def check(self, el, v, plain_result, out, prior, seen=None, schema=None, element=None):
        if not has_object(v):
            return
        mode = self.rng.choice(CARRY_MODES)
        status, problem = judge_carried(el, v, mode, plain_result, seen)
        if status == "nothing-carried" and mode != "whole":
            mode = "whole"
            status, problem = judge_carried(el, v, mode, plain_result, seen)
        stats = self.stats
        stats["carried-" + status] = stats.get("carried-" + status, 0) + 1
        if status != "judged":
            return
        stats["carried-as-" + mode] = stats.get("carried-as-" + mode, 0) + 1
        kind = type(el).__name__ if not isinstance(el, type) else "model-class"
        stats["carried-into-" + kind] = stats.get("carried-into-" + kind, 0) + 1
        if problem:
            record_failure(out, stats, prior, v, f"handed in as {mode!r} (the form an earlier conversion left it in): {problem}",
                           None, schema=schema, element=element, carried=mode)


def enc_hist(v):
    return {"$notpassed": 1} if isinstance(v, NotPassed) else v


def dec_hist(v):
    return NotPassed() if isinstance(v, dict) and set(v) == {"$notpassed"} else v


def history_of(prior, value, schema=None, element=None, carried=None):
    """Which of the calls made on the same element object before the judged one (`prior`, in order) are needed for the
    failure to show again on a freshly built element: none, else one of them, else all of them (None: it does not
    show again even with all of them)."""
    singles = []
    for h in reversed(prior):
        if not any(core._same_value(h, x) if not isinstance(h, NotPassed) else isinstance(x, NotPassed) for x in singles):  # pylint: disable=protected-access
            singles.append(h)
    for hist in [[]] + [[h] for h in singles[:16]] + ([list(prior)] if len(prior) > 1 else []):
        try:
            if _fails(schema, value, element, [enc_hist(h) for h in hist], carried):
                return [enc_hist(h) for h in hist]
        except Exception:  # noqa: BLE001
            continue
    return None


def record_failure(out, stats, prior, value, what, fid, schema=None, element=None, carried=None):
    case = {"schema": schema, "value": value} if element is None else {"element": element, "value": value}
    if carried:
        case["carried"] = carried      # the form in which the value was handed in (`carry`)
    hist = history_of(prior, value, schema, element, carried)
    if hist is None:
        # seen once, on this element object after these calls, and not again when everything is redone from scratch
        case["history"] = [enc_hist(h) for h in prior]
        case["shows_again"] = False
        stats["failure-not-reproduced"] = stats.get("failure-not-reproduced", 0) + 1
    elif hist:
        case["history"] = hist
        fid = None    # the listed findings are about one value on a fresh element, not about what was validated before
        stats["failure-needs-history"] = stats.get("failure-needs-history", 0) + 1
    out.failures.append({"case": case, "what": what, "finding": fid})
    stats["embed-fail-" + str(fid)] = stats.get("embed-fail-" + str(fid), 0) + 1


def check_case(drv, schema, values, out, stats, seen=None, carrier=None):
    """The values are validated one after the other by ONE element object (the property is about every accepted
    value, whatever the same schema object validated before), so value i is judged after the history values[:i]."""
    obs = observe(drv, schema, values, out, stats)
    if obs is None:
        return False
    el = obs["el"]
    for i, v in enumerate(values):
        if isinstance(v, NotPassed):
            continue
        real = obs["reals"][i]
        if real["r"] != "ok":
            continue
        if real.get("input_altered"):
            out.failures.append({"case": {"schema": schema, "value": v}, "what": "the call altered the value it was given", "finding": None})
            continue
        # call again to get the object itself (the canonical dump has no attributes)
        try:
            res = el(copy.deepcopy(v))
        except Exception:  # noqa: BLE001
            continue
        problems, regions = [], set()
        embeds(v, res, "$", problems, regions, el, seen)
        nontrivial = isinstance(v, (dict, list)) and len(v) > 0
        out.note_case({"schema": schema, "value": obs["enc_args"][i]}, nontrivial)
        stats["accepted"] = stats.get("accepted", 0) + 1
        if problems:
            fid = None
            if "key-collision" in regions:
                fid = "C04-key-collision"
            elif "int-precision" in regions:
                fid = "C04-int-precision"
            # a known region only if the model predicts exactly what the implementation returned
            if not (obs["tree_ok"] and (obs["models"][i] == real or obs["models"][i]["r"] == "crash")):
                fid = None
            record_failure(out, stats, list(values) + list(values[:i]), v, problems[0], fid, schema=schema)
        elif carrier is not None:
            carrier.check(el, v, res, out, list(values) + list(values[:i + 1]), seen, schema=schema)
    return True


def check_dsl(drv, dump, values, out, stats, seen=None, carrier=None):
    """The same oracle on a tree built through the DSL (model tie via `elem_call`); one element object for all the values."""
    from harness import dsl
    el = dsl.build(dump)
    try:
        enc_args = [core.enc_arg(v) for v in values]
    except (TypeError, ValueError):
        return
    pats, fmts = core.elem_patterns_formats(el)
    texts = set()
    for v in values:
        core.all_strings(v, texts)
    core.all_strings(dump, texts)
    rep = drv.ask({"op": "elem_call", "elem": dump, "args": enc_args, "tables": core.make_tables(pats, fmts, sorted(texts))})
    if "error" in rep:
        stats["driver-error"] = stats.get("driver-error", 0) + 1
        return
    out.traces_validated += 1
    for idx, (v, enc, model) in enumerate(zip(values, enc_args, rep["results"])):
        real = core.real_call(el, v)
        agree = model["r"] == "crash" or model == real
        if not agree and real["r"] in ("ok", "reject"):
            out.disagreements.append({"what": "call result (DSL tree)", "impl": real, "model": model, "element": dump, "value": enc})
        if real.get("input_altered"):
            out.failures.append({"case": {"element": dump, "value": v}, "what": "the call altered the value it was given", "finding": None})
            continue
        if real["r"] != "ok":
            continue
        try:
            res = el(copy.deepcopy(v))
        except Exception:  # noqa: BLE001
            continue
        problems, regions = [], set()
        embeds(v, res, "$", problems, regions, el, seen)
        out.note_case({"element": dump, "value": enc}, isinstance(v, (dict, list)) and len(v) > 0)
        stats["accepted-dsl"] = stats.get("accepted-dsl", 0) + 1
        if problems:
            fid = "C04-key-collision" if "key-collision" in regions else ("C04-int-precision" if "int-precision" in regions else None)
            if not agree:
                fid = None
            record_failure(out, stats, [x for y in values[:idx] for x in (y, y)] + [v], v, problems[0], fid, element=dump)
        elif carrier is not None:
            carrier.check(el, v, res, out, [x for y in values[:idx + 1] for x in (y, y)], seen, element=dump)


# ----------------------------------------------------------------------------- histories over overlapping branches
# "Whenever a value is accepted ... (including which anyOf/oneOf/allOf branch builds the result)": the schema object is
# quantified once, the values many times.  One element object therefore validates a whole sequence of values - across
# calls, and within one call as the items / members of one container - in which values built by a LATER listed branch
# come before values that several branches accept, and each accepted value is judged on its own.

BRANCH_SHAPES = [
    {"type": "integer"}, {"type": "number"}, {"type": "number", "minimum": 0}, {"type": "integer", "maximum": 5},
    {"multipleOf": 2}, {"type": "string"}, {"maxLength": 2}, {"type": "null"}, {"type": "boolean"}, {}, True,
    {"type": "object", "title": "Keyword", "properties": {"class": {"type": "string"}, "weight": {"type": "number"}}, "required": ["class"]},
    {"type": "object", "title": "Point", "properties": {"x": {"type": "number"}, "y": {"type": "number", "default": 0}}},
    {"type": "object", "title": "Quantity", "properties": {"x": {"type": "integer"}, "unit": {"type": "string", "default": "m"}}, "required": ["x"]},
    {"type": "object", "title": "Open"},
    {"type": "object", "title": "Closed", "properties": {"y": {"type": "integer"}}, "additionalProperties": False},
    {"properties": {"x": {"type": "integer"}, "unit": {"default": "m"}}, "required": ["x"]},
    {"properties": {"unit": {"default": "ft"}, "a b": {"type": "number"}}},
    {"additionalProperties": {"type": "number"}},
    {"type": "array", "items": {"type": "number"}}, {"type": "array"}, {"items": {"type": "integer"}, "maxItems": 3},
    {"items": [{"type": "number"}, {"type": "string"}]},
]
TYPE_LISTS = [
    {"type": ["integer", "number"]}, {"type": ["number", "integer"], "minimum": 0}, {"type": ["integer", "number", "string"]},
    {"type": ["object", "array"], "title": "Either", "properties": {"n": {"type": "number"}}, "items": {"type": "number"}},
    {"type": ["null", "integer", "number"], "maximum": 100},
]
HISTORY_POOL = [0, 1, 2, 3, -2, 7, 10, 2.5, -0.5, 4.0, "a", "abc", "", None, True, [], [1, 2], [1, 2.5], ["a"], [3, "a"], [2, "a", 1], {},
                {"class": "noun", "weight": 2, "extra": [1, 2]}, {"class": "verb"}, {"unrelated": True}, {"x": 1, "y": 2}, {"y": 2},
                {"x": 1}, {"x": "s", "y": 1}, {"x": 2.5}, {"x": 3, "unit": "cm"}, {"weight": 3}, {"a b": 1}, {"n": 1}, {"k": 1, "l": 2.5}]
POSITIONS = ["top", "items", "tuple-tail", "declared", "additional", "pattern", "in-allOf", "in-oneOf", "in-anyOf", "nested-items"]


def make_union(rng, sg):
    """(union schema, the branch schemas in listed order)"""
    if rng.random() < 0.2:
        u = copy.deepcopy(rng.choice(TYPE_LISTS))
        return u, [{**u, "type": t} for t in u["type"]]
    branches = [copy.deepcopy(b) for b in rng.sample(BRANCH_SHAPES, rng.choice([2, 2, 2, 3, 3, 4]))]
    if rng.random() < 0.3:
        sg.extreme = False
        branches[rng.randrange(len(branches))] = sg.schema(2)
    return {"anyOf": branches}, branches


def place(position, union, seq, rng):
    """The schema with `union` at `position`, and the calls that take the values `seq`, in order, to that one element."""
    chunks, rest = [], list(seq)
    while rest:
        n = rng.choice([1, 2, 3, 4, len(rest)])
        chunks.append(rest[:n])
        rest = rest[n:]
    keys = ["k%d" % j for j in range(len(seq))]
    if position == "top":
        return union, list(seq)
    if position == "items":
        return {"type": "array", "items": union}, [list(seq)] + chunks
    if position == "nested-items":
        return {"items": {"items": union}}, [[c for c in chunks]] + [[c] for c in chunks]
    if position == "tuple-tail":
        return {"items": [{"type": "string"}], "additionalItems": union}, [["s"] + list(seq)] + [["s"] + c for c in chunks]
    if position == "declared":
        return {"type": "object", "title": "Holder", "properties": {"held value": union}}, [{"held value": v} for v in seq]
    if position == "additional":
        return ({"properties": {"id": {"type": "integer"}}, "additionalProperties": union},
                [dict(zip(keys, seq))] + [dict(zip(keys, c), id=1) for c in chunks])
    if position == "pattern":
        return {"type": "object", "title": "Bag", "patternProperties": {"^k": union}}, [dict(zip(keys, seq))] + [dict(zip(keys, c)) for c in chunks]
    if position == "in-allOf":
        return {"allOf": [union, {}]}, list(seq)
    if position == "in-oneOf":
        return {"oneOf": [{"type": "null"}, union]}, [v for v in seq if v is not None]
    if position == "in-anyOf":
        return {"anyOf": [{"const": "never"}, union]}, list(seq)
    raise ValueError(position)


def overlap_histories(rng, sg, vg, count, stats):
    """Yields (position, schema, calls)."""
    made = 0
    while made < count:
        union, branches = make_union(rng, sg)
        parsed = [core.real_parse(b) for b in branches]
        if any(st != "ok" for st, _ in parsed):
            stats["history-branch-unparsed"] = stats.get("history-branch-unparsed", 0) + 1
            made += 1
            continue
        cands = rng.sample(HISTORY_POOL, 9)
        for b in branches:
            cands += [vg.aimed(b) for _ in range(2)]
        acc = []
        for v in cands:
            verdicts = [accepts(el, v) for _, el in parsed]
            acc.append([j for j, ok in enumerate(verdicts) if ok] if None not in verdicts else None)
        usable = [(v, a) for v, a in zip(cands, acc) if a]
        rejected = [v for v, a in zip(cands, acc) if a == []]
        if not usable:
            made += 1
            continue
        for flavour in ("later-first", "shuffled"):
            order = list(usable)
            rng.shuffle(order)
            if flavour == "later-first":
                order.sort(key=lambda va: -va[1][0])       # stable: values built by later listed branches come first
            # an overlap value is "primed" when an earlier value of the sequence was built by a later branch that accepts it too
            primed = sum(1 for n, (v, a) in enumerate(order) if len(a) > 1 and any(b[0] > a[0] and b[0] in a for _, b in order[:n]))
            stats["history-overlap-values"] = stats.get("history-overlap-values", 0) + sum(1 for _, a in order if len(a) > 1)
            stats["history-primed-overlaps"] = stats.get("history-primed-overlaps", 0) + primed
            seq = [v for v, _ in order]
            position = rng.choice(POSITIONS)
            schema, calls = place(position, union, seq, rng)
            if position in ("top", "declared", "in-allOf", "in-anyOf") and rejected:
                calls.insert(rng.randrange(len(calls) + 1), rejected[0] if position != "declared" else {"held value": rejected[0]})
            stats["history-position-" + position] = stats.get("history-position-" + position, 0) + 1
            yield position, schema, calls
            made += 1


def check_single(schema, calls, out, stats, seen=None, carrier=None):
    """One element object, every value validated exactly once, every accepted result judged (no model involved; run
    only after `check_case` found nothing to report on the same calls, known regions included)."""
    status, el = core.real_parse(schema)
    if status != "ok":
        return
    for i, v in enumerate(calls):
        try:
            res = el(copy.deepcopy(v))
        except Exception:  # noqa: BLE001
            continue
        problems, regions = [], set()
        embeds(v, res, "$", problems, regions, el, seen)
        stats["history-single-accepted"] = stats.get("history-single-accepted", 0) + 1
        if problems:
            record_failure(out, stats, list(calls[:i]), v, problems[0], None, schema=schema)
        elif carrier is not None:
            carrier.check(el, v, res, out, list(calls[:i + 1]), seen, schema=schema)


def check_histories(drv, rng, sg, vg, count, out, stats, seen, stop_at_first=False, carrier=None):
    from harness import dsl
    for n, (position, schema, calls) in enumerate(overlap_histories(rng, sg, vg, count, stats)):
        if stop_at_first and any(f.get("finding") is None for f in out.failures):
            break
        before = len(out.failures)
        observed = check_case(drv, schema, calls, out, stats, seen, carrier)
        if observed and len(out.failures) == before:
            # nothing at all went wrong when every call was made twice: now every call once
            check_single(schema, calls, out, stats, seen, carrier)
        if n % 4 == 0 and len(out.failures) == before:
            # the same tree built through the DSL (a class object per model, shared by nothing else)
            status, el = core.real_parse(schema)
            if status == "ok":
                try:
                    dump = core.dump_elem(el)
                    dsl.build(dump)
                except Exception:  # noqa: BLE001
                    stats["history-dsl-unbuildable"] = stats.get("history-dsl-unbuildable", 0) + 1
                    continue
                check_dsl(drv, dump, calls, out, stats, seen, carrier)
                stats["history-dsl"] = stats.get("history-dsl", 0) + 1
        stats["history-cases"] = stats.get("history-cases", 0) + 1


def check_inherited(rng, i, out, stats):
    from statham.schema.elements import Integer, Number, String
    from statham.schema.elements.meta import ObjectClassDict, ObjectMeta
    from statham.schema.property import Property
    pd = ObjectClassDict()
    pd["id"] = Property(Integer(), required=True)
    parent = ObjectMeta("Record", (Object,), pd)
    cd = ObjectClassDict()
    cd["amount"] = Property(Number())
    cd["class_"] = Property(String(), source="class")
    cd["note"] = Property(String(default="n/a"))
    child = ObjectMeta("Invoice", (parent,), cd, **({"additionalProperties": False} if i % 3 == 0 else {}))
    order = ["parent-first", "child-first"][i % 2]
    pvals = [{"id": 1}, {"id": 2, "other": "x"}]
    cvals = [{"id": 1, "amount": 3, "class": "k"}, {"id": 2, "amount": 2.5}, {"id": 3, "class": "q", "note": "given"}, {"id": 4}]
    plan = [(parent, pvals), (child, cvals)] if order == "parent-first" else [(child, cvals), (parent, pvals)]
    for cls, vals in plan:
        for v in vals:
            case = {"inherited": {"order": order, "class": cls.__name__, "closed": i % 3 == 0}, "value": v}
            out.note_case(case, True)
            try:
                res = cls(copy.deepcopy(v))
            except Exception:  # noqa: BLE001
                stats["inherited-rejected"] = stats.get("inherited-rejected", 0) + 1
                if not (i % 3 == 0 and cls is child and set(v) - {"id", "amount", "class", "note"}):
                    out.failures.append({"case": case, "what": f"{cls.__name__} rejects {v!r}", "finding": None})
                continue
            problems, regions = [], set()
            embeds(v, res, "$", problems, regions, cls)
            for name, prop in cls.properties.items():
                src = prop.source or name
                if src not in v and not isinstance(getattr(prop.element, "default", NotPassed()), NotPassed):
                    if isinstance(getattr(res, name, NotPassed()), NotPassed):
                        problems.append(f"$.{name}: the declared default is missing")
            stats["inherited-accepted"] = stats.get("inherited-accepted", 0) + 1
            if problems:
                out.failures.append({"case": case, "what": problems[0], "finding": None})
                return


N_HISTORIES = {"quick": 160, "thorough": 4000}


def run(ctx, scale=1.0, histories=1.0):
    rng = random.Random(ctx["seed"] + 4)
    hrng = random.Random(ctx["seed"] * 7919 + 404)     # the history family has its own stream: the older families keep theirs
    out = Outcome()
    out.rule = ("schemas from the generator and the focused families; values aimed at acceptance; a case is an accepted (schema, value) "
                "pair; non-trivial = the value is a non-empty array or object; distinct by SHA-256")
    stats = {}
    seen = {}
    carrier = Carrier(random.Random(ctx["seed"] * 104729 + 4004), stats)    # the carried forms have their own stream too
    drv = core.Driver()
    try:
        check_histories(drv, hrng, SchemaGen(hrng), ValueGen(hrng), int(N_HISTORIES[ctx["tier"]] * scale * histories), out, stats, seen,
                        carrier=carrier)
        for schema, values in families(rng):
            check_case(drv, schema, list(values), out, stats, seen, carrier)
        sg, vg = SchemaGen(rng), ValueGen(rng)
        n = int(N_SCHEMAS[ctx["tier"]] * scale)
        for i in range(n):
            extreme = (i % 12 == 11)
            sg.extreme = vg.extreme = vg.free.extreme = extreme
            schema = sg.schema()
            check_case(drv, schema, vg.values(schema, 8), out, stats, seen, carrier)
        # renamed properties, collisions, nested models, tuple tails, branches
        special = [
            ({"type": "object", "title": "M", "properties": {"a b": {"type": "integer"}, "class": {"type": "string"}},
              "additionalProperties": {"type": "number"}},
             [{"a b": 1, "class": "x", "z": 2}, {"a b": 1, "a_b": 2}, {"class": "x", "class_": 3}, {"z": 1, "y": 2.5}]),
            ({"properties": {"a b": {}}}, [{"a b": [1, {"k": 2}], "q": None}, {"a b": 1, "a_b": 2}]),
            ({"items": [{"type": "integer"}, {"type": "object", "title": "I", "properties": {"x": {"type": "number"}}}],
              "additionalItems": {"type": "string"}}, [[1, {"x": 2}, "a", "b"], [1], []]),
            ({"anyOf": [{"type": "object", "title": "A", "properties": {"x": {"type": "integer"}}, "required": ["x"]},
                        {"type": "object", "title": "B", "properties": {"y": {"type": "integer"}}}]},
             [{"x": 1, "y": 2}, {"y": 2}, {"x": "s", "y": 1}]),
            ({"type": "number"}, [1, 2 ** 53, 2 ** 53 + 1, -(2 ** 53) - 1, 10 ** 30, 0.5]),
            ({"type": "array", "items": {"type": "number"}}, [[1, 2 ** 60 + 1], [3, 4.5]]),
            ({"not": {"type": "string"}}, [{"a": [1, 2]}, [1, {"b": 2}], 3]),
        ]
        for schema, values in special:
            check_case(drv, schema, values, out, stats, seen, carrier)
        from harness import dsl
        from harness.props.c08 import dump_to_schema
        dg = dsl.DumpGen(rng)
        for i in range(int(n / 3)):
            dump = dg.dump(3)
            check_dsl(drv, dump, vg.values(dump_to_schema(dump), 8), out, stats, seen, carrier)
        # model classes that inherit from a model class: the parent is used first, then the child (and the other way round)
        for i in range(int((10 if ctx["tier"] == "quick" else 200) * scale)):
            check_inherited(rng, i, out, stats)
    finally:
        drv.close()
    for mode, n in seen.items():
        stats["branch-resolved-" + mode] = n       # composition positions at which the oracle worked out the building branch
    out.stats = stats
    return out


def search(ctx, reason):
    """An obligation or the model/implementation tie broke: look for an input on which the statement itself fails.
    `reason` only aims the search (which schemas to revisit, which family to enlarge); what is returned was judged by
    `embeds` on the real code."""
    import json
    sub = dict(ctx)
    sub["seed"] = ctx["seed"] + 49979687
    rng = random.Random(sub["seed"] * 31 + 5)
    text = json.dumps(reason, default=str, ensure_ascii=False)
    out, stats, seen = Outcome(), {}, {}
    carrier = Carrier(random.Random(sub["seed"] * 104729 + 4004), stats)
    drv = core.Driver()
    try:
        # 1. the schemas on which model and implementation disagreed, each as a history on one element object
        vg = ValueGen(rng)
        for dis in reason.get("disagreements", []):
            schema = dis.get("schema")
            if schema is None:
                continue
            for _ in range(6):
                calls = vg.values(schema, 16)
                if check_case(drv, schema, calls, out, stats, seen, carrier):
                    check_single(schema, calls, out, stats, seen, carrier)
        # 2. a composition is named: many more histories over overlapping branches
        if any(w in text for w in ("anyOf", "oneOf", "allOf", "AnyOf", "OneOf", "AllOf", "omposition", "_attempt_schema")):
            check_histories(drv, rng, SchemaGen(rng), ValueGen(rng), N_HISTORIES[ctx["tier"]] * 4, out, stats, seen, stop_at_first=True, carrier=carrier)
    finally:
        drv.close()
    fresh = [f for f in out.failures if f.get("finding") is None]
    if fresh:
        return fresh[0]
    found = run(sub, scale=3.0 if ctx["tier"] == "quick" else 1.0)
    fresh = [f for f in found.failures if f.get("finding") is None]
    return fresh[0] if fresh else None


def _fails(schema, value, element=None, history=(), carried=None):
    """Build the element afresh, make the `history` calls on it, then validate `value` and judge what comes back."""
    if element is not None:
        from harness import dsl
        status, el = "ok", dsl.build(element)
    else:
        status, el = core.real_parse(schema)
    if status != "ok":
        return False
    for h in history:
        h = dec_hist(h)
        try:
            el(h if isinstance(h, NotPassed) else copy.deepcopy(h))
        except Exception:  # noqa: BLE001
            pass
    given = copy.deepcopy(value)
    try:
        res = el(given)
    except Exception:  # noqa: BLE001
        return False
    if not core._same_value(given, value):  # pylint: disable=protected-access
        return True         # the call altered the value it was given
    problems, regions = [], set()
    embeds(value, res, "$", problems, regions, el)
    if carried and not problems:
        # the plain value is fine: now the same value in the form an earlier conversion left it in
        status, problem = judge_carried(el, value, carried, res)
        return status == "judged" and problem is not None
    return bool(problems)


def replay_finding(finding):
    w = finding["witness"]
    value = w["value"]
    if isinstance(value, dict) and set(value) == {"int_pow2_plus"}:
        value = 2 ** value["int_pow2_plus"][0] + value["int_pow2_plus"][1]
    return _fails(w["schema"], value)


def replay(payload):
    case = payload.get("failure", {}).get("case")
    if not case:
        return True
    if "inherited" in case:
        inh = case["inherited"]
        i = next(i for i in range(6) if ["parent-first", "child-first"][i % 2] == inh["order"] and (i % 3 == 0) == inh["closed"])
        out, stats = Outcome(), {}
        check_inherited(random.Random(0), i, out, stats)
        return not out.failures
    return not _fails(case.get("schema"), case["value"], case.get("element"), case.get("history") or (), case.get("carried"))
