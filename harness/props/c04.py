"""C04 — an accepted value comes back complete and unaltered inside the model.

Correspondence: the canonical dump of every returned model vs the Lean model's result.
Oracle: a structural walk of input vs returned object (`embeds`) that does not use the model."""
import copy
import random

from statham.schema.constants import NotPassed
from statham.schema.elements import Object
from statham.schema.elements.base import _AnonymousObject
from statham.schema.parser import _parse_attribute_name

from harness import core
from harness.callcheck import observe
from harness.framework import Outcome
from harness.gen import SchemaGen, ValueGen, families

ID = "C04"
TIE_MODULES = ["StathamModel.Tie"]
PROOF_MODULES = ["StathamModel.Props.C04Tree"]
ASSUMPTIONS = ["the JSON name -> Python name mapping used by the oracle is the library's own (_parse_attribute_name; C12 checks it)"]
N_SCHEMAS = {"quick": 1200, "thorough": 30000}
TWO53 = 2 ** 53


def sub_item(elem, i):
    """The element governing array position i, read straight off the attributes (None = unknown)."""
    from statham.schema.elements import Element as _E
    from statham.schema.elements.composition import CompositionElement, Not
    if elem is None or isinstance(elem, (CompositionElement, Not)):
        return None
    items = getattr(elem, "items", NotPassed())
    if isinstance(items, NotPassed):
        return None
    if isinstance(items, list):
        if i < len(items):
            return items[i]
        add = getattr(elem, "additionalItems", True)
        return add if isinstance(add, _E) else None
    return items


def sub_prop(elem, k):
    """The element governing member k when it is unambiguous (declared only, or additional only)."""
    import re
    from statham.schema.elements import Element as _E
    from statham.schema.elements.composition import CompositionElement, Not
    if elem is None or isinstance(elem, (CompositionElement, Not)):
        return None
    pats = getattr(elem, "patternProperties", NotPassed())
    if not isinstance(pats, NotPassed):
        try:
            if any(re.search(p, k) for p in pats):
                return None
        except (re.error, TypeError):
            return None
    props = getattr(elem, "properties", NotPassed())
    if not isinstance(props, NotPassed):
        for name, prop in props.items():
            if (prop.source or name) == k:
                return prop.element
    add = getattr(elem, "additionalProperties", True)
    return add if isinstance(add, _E) else None


def embeds(v, r, path, problems, regions, elem=None):
    """Is every part of input `v` present, unaltered, in result `r`?  `elem` (optional) is the element
    governing this position, used only for what kind of object must come back."""
    from statham.schema.elements.meta import ObjectMeta as _OM
    from statham.schema.elements import Number as _Number, Integer as _Integer
    if isinstance(elem, _OM) and isinstance(v, dict) and not isinstance(r, elem):
        problems.append(f"{path}: expected an instance of model {elem.__name__}, got {type(r).__name__}")
        return
    if isinstance(elem, _Number) and isinstance(v, int) and not isinstance(v, bool) and not isinstance(r, float):
        problems.append(f"{path}: int under a number schema came back as {type(r).__name__}, not float")
        return
    if isinstance(elem, _Integer) and isinstance(v, int) and not isinstance(v, bool) and type(r) is not int:
        problems.append(f"{path}: int under an integer schema came back as {type(r).__name__}")
        return
    if isinstance(r, NotPassed):
        problems.append(f"{path}: value replaced by the not-passed marker")
        return
    if v is None or isinstance(v, (bool, str)):
        if type(r) is not type(v) or r != v:
            problems.append(f"{path}: {v!r} came back as {r!r}")
        return
    if isinstance(v, int):
        if isinstance(r, bool) or not isinstance(r, (int, float)):
            problems.append(f"{path}: {v!r} came back as {type(r).__name__}")
        elif isinstance(r, float):
            if abs(v) > TWO53:
                regions.add("int-precision")
            if r != v:
                problems.append(f"{path}: int {v} came back as float {r!r} (not equal)")
        elif r != v:
            problems.append(f"{path}: {v} came back as {r}")
        return
    if isinstance(v, float):
        if not isinstance(r, float) or r != v:
            problems.append(f"{path}: {v!r} came back as {r!r}")
        return
    if isinstance(v, list):
        if not isinstance(r, list):
            problems.append(f"{path}: list came back as {type(r).__name__}")
        elif len(r) != len(v):
            problems.append(f"{path}: list of {len(v)} came back with {len(r)} items")
        else:
            for i, (x, y) in enumerate(zip(v, r)):
                embeds(x, y, f"{path}[{i}]", problems, regions, sub_item(elem, i))
        return
    if isinstance(v, dict):
        if isinstance(r, Object):
            mapping = r._dict  # pylint: disable=protected-access
            declared = set(type(r).properties)
        elif isinstance(r, dict):
            mapping = r
            declared = None
        else:
            problems.append(f"{path}: object came back as {type(r).__name__}")
            return
        pynames = {}
        for k in v:
            if isinstance(k, str) and not core.has_surrogate(k):
                pynames[k] = _parse_attribute_name(k)
        names = list(pynames.values())
        if len(set(names)) != len(names) or any(pynames[k] != k and pynames[k] in v for k in pynames):
            regions.add("key-collision")
        matched = set()
        for k, x in v.items():
            cands = [k] + ([pynames[k]] if k in pynames and pynames[k] != k else [])
            if isinstance(r, Object):
                # a class declared in the DSL may give a JSON name any attribute name it likes
                cands += [a for a, p in type(r).properties.items() if (p.source or a) == k and a not in cands]
            elif elem is not None and isinstance(getattr(elem, "properties", None), dict):
                # the same for an untyped element written in the DSL: its result is keyed by the attribute names its own
                # property mapping declares (`enum_ = Property(..., source="enum")`), whatever the parser would have chosen
                cands += [a for a, p in elem.properties.items() if (getattr(p, "source", None) or a) == k and a not in cands]
            ok = False
            first_problem = None
            for c in cands:
                if c in mapping:
                    sub = []
                    embeds(x, mapping[c], f"{path}.{c}", sub, regions, sub_prop(elem, k))
                    if not sub:
                        ok = True
                        matched.add(c)
                        if isinstance(r, Object) and c in declared:
                            try:
                                attr = getattr(r, c)
                            except AttributeError:
                                problems.append(f"{path}.{c}: declared property is not readable as an attribute")
                                attr = mapping[c]
                            if attr is not mapping[c] and attr != mapping[c]:
                                problems.append(f"{path}.{c}: attribute differs from the stored member")
                        break
                    first_problem = first_problem or sub[0]
            if not ok:
                problems.append(first_problem or f"{path}: member {k!r} is missing from the result")
        for n in mapping:
            if n not in matched and declared is not None and n not in declared:
                problems.append(f"{path}: result member {n!r} was not in the input and is not a declared property")
        return
    problems.append(f"{path}: unexpected input type {type(v).__name__}")


def check_case(drv, schema, values, out, stats):
    obs = observe(drv, schema, values, out, stats)
    if obs is None:
        return
    el = obs["el"]
    for i, v in enumerate(values):
        if isinstance(v, NotPassed):
            continue
        real = obs["reals"][i]
        if real["r"] != "ok":
            continue
        if real.get("input_altered"):
            out.failures.append({"case": {"schema": schema, "value": obs["enc_args"][i]}, "what": "the call altered the value it was given", "finding": None})
            continue
        # call again to get the object itself (the canonical dump has no attributes)
        try:
            res = el(copy.deepcopy(v))
        except Exception:  # noqa: BLE001
            continue
        problems, regions = [], set()
        embeds(v, res, "$", problems, regions, el)
        nontrivial = isinstance(v, (dict, list)) and len(v) > 0
        out.note_case({"schema": schema, "value": obs["enc_args"][i]}, nontrivial)
        stats["accepted"] = stats.get("accepted", 0) + 1
        if problems:
            fid = None
            if "key-collision" in regions:
                fid = "C04-key-collision"
            elif "int-precision" in regions:
                fid = "C04-int-precision"
            # a known region only if the model predicts exactly what the implementation returned
            if not (obs["tree_ok"] and (obs["models"][i] == real or obs["models"][i]["r"] == "crash")):
                fid = None
            out.failures.append({"case": {"schema": schema, "value": v}, "what": problems[0], "finding": fid})
            stats["embed-fail-" + str(fid)] = stats.get("embed-fail-" + str(fid), 0) + 1


def check_dsl(drv, dump, values, out, stats):
    """The same oracle on a tree built through the DSL (model tie via `elem_call`)."""
    from harness import dsl
    el = dsl.build(dump)
    try:
        enc_args = [core.enc_arg(v) for v in values]
    except (TypeError, ValueError):
        return
    pats, fmts = core.elem_patterns_formats(el)
    texts = set()
    for v in values:
        core.all_strings(v, texts)
    core.all_strings(dump, texts)
    rep = drv.ask({"op": "elem_call", "elem": dump, "args": enc_args, "tables": core.make_tables(pats, fmts, sorted(texts))})
    if "error" in rep:
        stats["driver-error"] = stats.get("driver-error", 0) + 1
        return
    out.traces_validated += 1
    for v, enc, model in zip(values, enc_args, rep["results"]):
        real = core.real_call(el, v)
        agree = model["r"] == "crash" or model == real
        if not agree and real["r"] in ("ok", "reject"):
            out.disagreements.append({"what": "call result (DSL tree)", "impl": real, "model": model, "element": dump, "value": enc})
        if real.get("input_altered"):
            out.failures.append({"case": {"element": dump, "value": v}, "what": "the call altered the value it was given", "finding": None})
            continue
        if real["r"] != "ok":
            continue
        try:
            res = el(copy.deepcopy(v))
        except Exception:  # noqa: BLE001
            continue
        problems, regions = [], set()
        embeds(v, res, "$", problems, regions, el)
        out.note_case({"element": dump, "value": enc}, isinstance(v, (dict, list)) and len(v) > 0)
        stats["accepted-dsl"] = stats.get("accepted-dsl", 0) + 1
        if problems:
            fid = "C04-key-collision" if "key-collision" in regions else ("C04-int-precision" if "int-precision" in regions else None)
            if not agree:
                fid = None
            out.failures.append({"case": {"element": dump, "value": v}, "what": problems[0], "finding": fid})
            stats["embed-fail-" + str(fid)] = stats.get("embed-fail-" + str(fid), 0) + 1


def check_inherited(rng, i, out, stats):
    from statham.schema.elements import Integer, Number, String
    from statham.schema.elements.meta import ObjectClassDict, ObjectMeta
    from statham.schema.property import Property
    pd = ObjectClassDict()
    pd["id"] = Property(Integer(), required=True)
    parent = ObjectMeta("Record", (Object,), pd)
    cd = ObjectClassDict()
    cd["amount"] = Property(Number())
    cd["class_"] = Property(String(), source="class")
    cd["note"] = Property(String(default="n/a"))
    child = ObjectMeta("Invoice", (parent,), cd, **({"additionalProperties": False} if i % 3 == 0 else {}))
    order = ["parent-first", "child-first"][i % 2]
    pvals = [{"id": 1}, {"id": 2, "other": "x"}]
    cvals = [{"id": 1, "amount": 3, "class": "k"}, {"id": 2, "amount": 2.5}, {"id": 3, "class": "q", "note": "given"}, {"id": 4}]
    plan = [(parent, pvals), (child, cvals)] if order == "parent-first" else [(child, cvals), (parent, pvals)]
    for cls, vals in plan:
        for v in vals:
            case = {"inherited": {"order": order, "class": cls.__name__, "closed": i % 3 == 0}, "value": v}
            out.note_case(case, True)
            try:
                res = cls(copy.deepcopy(v))
            except Exception:  # noqa: BLE001
                stats["inherited-rejected"] = stats.get("inherited-rejected", 0) + 1
                if not (i % 3 == 0 and cls is child and set(v) - {"id", "amount", "class", "note"}):
                    out.failures.append({"case": case, "what": f"{cls.__name__} rejects {v!r}", "finding": None})
                continue
            problems, regions = [], set()
            embeds(v, res, "$", problems, regions, cls)
            for name, prop in cls.properties.items():
                src = prop.source or name
                if src not in v and not isinstance(getattr(prop.element, "default", NotPassed()), NotPassed):
                    if isinstance(getattr(res, name, NotPassed()), NotPassed):
                        problems.append(f"$.{name}: the declared default is missing")
            stats["inherited-accepted"] = stats.get("inherited-accepted", 0) + 1
            if problems:
                out.failures.append({"case": case, "what": problems[0], "finding": None})
                return


def run(ctx, scale=1.0):
    rng = random.Random(ctx["seed"] + 4)
    out = Outcome()
    out.rule = ("schemas from the generator and the focused families; values aimed at acceptance; a case is an accepted (schema, value) "
                "pair; non-trivial = the value is a non-empty array or object; distinct by SHA-256")
    stats = {}
    drv = core.Driver()
    try:
        for schema, values in families(rng):
            check_case(drv, schema, list(values), out, stats)
        sg, vg = SchemaGen(rng), ValueGen(rng)
        n = int(N_SCHEMAS[ctx["tier"]] * scale)
        for i in range(n):
            extreme = (i % 12 == 11)
            sg.extreme = vg.extreme = vg.free.extreme = extreme
            schema = sg.schema()
            check_case(drv, schema, vg.values(schema, 8), out, stats)
        # renamed properties, collisions, nested models, tuple tails, branches
        special = [
            ({"type": "object", "title": "M", "properties": {"a b": {"type": "integer"}, "class": {"type": "string"}},
              "additionalProperties": {"type": "number"}},
             [{"a b": 1, "class": "x", "z": 2}, {"a b": 1, "a_b": 2}, {"class": "x", "class_": 3}, {"z": 1, "y": 2.5}]),
            ({"properties": {"a b": {}}}, [{"a b": [1, {"k": 2}], "q": None}, {"a b": 1, "a_b": 2}]),
            ({"items": [{"type": "integer"}, {"type": "object", "title": "I", "properties": {"x": {"type": "number"}}}],
              "additionalItems": {"type": "string"}}, [[1, {"x": 2}, "a", "b"], [1], []]),
            ({"anyOf": [{"type": "object", "title": "A", "properties": {"x": {"type": "integer"}}, "required": ["x"]},
                        {"type": "object", "title": "B", "properties": {"y": {"type": "integer"}}}]},
             [{"x": 1, "y": 2}, {"y": 2}, {"x": "s", "y": 1}]),
            ({"type": "number"}, [1, 2 ** 53, 2 ** 53 + 1, -(2 ** 53) - 1, 10 ** 30, 0.5]),
            ({"type": "array", "items": {"type": "number"}}, [[1, 2 ** 60 + 1], [3, 4.5]]),
            ({"not": {"type": "string"}}, [{"a": [1, 2]}, [1, {"b": 2}], 3]),
        ]
        for schema, values in special:
            check_case(drv, schema, values, out, stats)
        from harness import dsl
        from harness.props.c08 import dump_to_schema
        dg = dsl.DumpGen(rng)
        for i in range(int(n / 3)):
            dump = dg.dump(3)
            check_dsl(drv, dump, vg.values(dump_to_schema(dump), 8), out, stats)
        # model classes that inherit from a model class: the parent is used first, then the child (and the other way round)
        for i in range(int((10 if ctx["tier"] == "quick" else 200) * scale)):
            check_inherited(rng, i, out, stats)
    finally:
        drv.close()
    out.stats = stats
    return out


def search(ctx, reason):
    sub = dict(ctx)
    sub["seed"] = ctx["seed"] + 49979687
    found = run(sub, scale=3.0 if ctx["tier"] == "quick" else 1.0)
    fresh = [f for f in found.failures if f.get("finding") is None]
    return fresh[0] if fresh else None


def _fails(schema, value, element=None):
    if element is not None:
        from harness import dsl
        status, el = "ok", dsl.build(element)
    else:
        status, el = core.real_parse(schema)
    if status != "ok":
        return False
    try:
        res = el(value)
    except Exception:  # noqa: BLE001
        return False
    problems, regions = [], set()
    embeds(value, res, "$", problems, regions, el)
    return bool(problems)


def replay_finding(finding):
    w = finding["witness"]
    value = w["value"]
    if isinstance(value, dict) and set(value) == {"int_pow2_plus"}:
        value = 2 ** value["int_pow2_plus"][0] + value["int_pow2_plus"][1]
    return _fails(w["schema"], value)


def replay(payload):
    case = payload.get("failure", {}).get("case")
    if not case:
        return True
    if "inherited" in case:
        inh = case["inherited"]
        i = next(i for i in range(6) if ["parent-first", "child-first"][i % 2] == inh["order"] and (i % 3 == 0) == inh["closed"])
        out, stats = Outcome(), {}
        check_inherited(random.Random(0), i, out, stats)
        return not out.failures
    return not _fails(case.get("schema"), case["value"], case.get("element"))
