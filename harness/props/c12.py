"""C12 — every JSON name maps to a usable, unambiguous Python name.

Correspondence: `_parse_attribute_name` / `_title_format` vs the Lean model on every code point in
three contexts and on strings built from class representatives.  The hypotheses of the theorems
about the interpreter's character classes (`Faithful`) are decided code point by code point.
Oracle: `str.isidentifier`, `keyword.iskeyword`, the reserved list, NFKC stability, `compile()`
of a class body using the name, injectivity over sibling sets, the recorded source; for every name an `Object`
(class, metaclass, instance) answers to, in each JSON spelling that maps onto it: instances of a model with such a
property keep every method and every generic protocol a property-less instance has (`check_facilities`).
Titles: the formatted class name, the `__name__` of the class parsed from an object schema carrying the title and the
class statement of the generated module must be a valid, non-keyword, unshadowing, distinct class name
(`class_name_problems`); the listed region C12-titles covers only an empty / keyword / shadowing name which the Lean
model of the formatter predicts as well (`region_for_title`).
Title sets (`check_title_set`): documents of 2-7 pairwise different objects whose titles are related - spellings the
formatter sends onto one name, numbered look-alikes of the names the library hands out to same-named classes - and the
history in which the handed-out names come back as titles (what `serialize_json` writes) beside further objects with
the first titles: one class per object, usable pairwise distinct names, a generated module with one class statement per
model that executes and binds each name to the model of that name; every library call under a watchdog."""
import keyword
import random
import unicodedata

from statham.schema.elements.meta import RESERVED_PROPERTIES
from statham.schema.parser import _parse_attribute_name, _title_format, parse_element

from harness import core
from harness.framework import Outcome

ID = "C12"
TIE_MODULES = ["StathamModel.Tie"]
ASSUMPTIONS = ["lone surrogates are excluded (not representable as Lean Char)"]
USED_NAMES = {"Any", "List", "Union", "Maybe", "Property", "Object", "Array", "Boolean", "Integer", "Null", "Number",
              "String", "Element", "Nothing", "AnyOf", "OneOf", "AllOf", "Not", "None", "True", "False"}
REPRESENTATIVES = ["a", "Z", "0", "_", "-", " ", "\t", "\n", "$", "+", ".", "<", "é", "²", "½", "ß", "İ", "ﬁ", "𝒳", "😀", "\u0301",
                   "‿", "·", "\u00a0", "\u2028", "\x00", "\x7f", "\ue000", "\uffff", "ª", "Ⅷ", "〇", "ー"]
WORDS = ["class", "def", "None", "True", "__init__", "__dict__", "_dict", "blank", "a b", "a_b", "a-b", "a.b", "a_full_stop_b",
         "", " ", "__", "1", "1st", "x y z", "müller", "total$", "$ref", "x²", "ﬁle", "a__b", "_", "-", "--", "a\tb"]


# computed by the harness in the running interpreter, not taken from the library
OWN_RESERVED = set(dir(object)) | set(keyword.kwlist) | {"_dict"}


def all_code_points():
    return [cp for cp in range(0x110000) if not 0xD800 <= cp <= 0xDFFF]


def attr_problems(name, attr):
    """Why `attr` is not a usable attribute name for JSON name `name` (empty list = fine)."""
    out = []
    if not attr.isidentifier():
        out.append("not-identifier")
    elif unicodedata.normalize("NFKC", attr) != attr:
        out.append("nfkc-unstable")
    if keyword.iskeyword(attr) or attr in RESERVED_PROPERTIES or attr in OWN_RESERVED:
        out.append("reserved")
    if not out:
        try:
            compile(f"class C:\n    {attr} = 1\n", "<attr>", "exec")
        except SyntaxError:
            out.append("does-not-compile")
    return out


def region_for_attr(name, problems):
    if not problems:
        return None
    if any((c.isalnum() and (not ("a" + c).isidentifier() or unicodedata.normalize("NFKC", c) != c)) for c in name):
        return "C12-alnum-not-identifier"
    return None


def check_names(drv, names, out, stats, sweep=False):
    names = [n for n in names if not core.has_surrogate(n)]
    rep = drv.ask({"op": "attr_names", "names": names, "tables": {"ci": core.char_table(names)}})
    rep_t = drv.ask({"op": "titles", "names": names})
    if "error" in rep or "error" in rep_t:
        stats["driver-error"] = stats.get("driver-error", 0) + 1
        return
    out.traces_validated += 1
    for n, model_attr, model_title in zip(names, rep["attrs"], rep_t["titles"]):
        case = {"name": n}
        try:
            attr = _parse_attribute_name(n)
            title = _title_format(n)
        except Exception as exc:  # noqa: BLE001
            out.evaluations += 1
            if len(out.failures) < 50:
                out.failures.append({"case": case, "what": f"mapping the name raised {type(exc).__name__}: {exc}", "finding": None})
            continue
        if not sweep:
            out.note_case(case, len(n) > 1)
        else:
            out.evaluations += 1
        if attr != model_attr:
            out.disagreements.append({"what": "attribute name", "impl": attr, "model": model_attr, **case})
        if title != model_title:
            out.disagreements.append({"what": "class name", "impl": title, "model": model_title, **case})
        problems = attr_problems(n, attr)
        if problems:
            fid = region_for_attr(n, problems)
            stats["attr-" + problems[0]] = stats.get("attr-" + problems[0], 0) + 1
            if fid is None or attr != model_attr:
                out.failures.append({"case": case, "what": f"attribute name {attr!r}: {', '.join(problems)}", "finding": None})
            elif len([f for f in out.failures if f.get("finding") == fid]) < 3:
                out.failures.append({"case": case, "what": f"attribute name {attr!r}: {', '.join(problems)}", "finding": fid})
        # the same string as a title (quantifier: every code point, alone and in context, as titles too)
        tproblems = class_name_problems(title)
        if tproblems:
            tfid = region_for_title(tproblems[0], title, model_title)
            key = "name-as-title-" + tproblems[0].split(" ")[0] + ("" if tfid else "-outside-listed-region")
            stats[key] = stats.get(key, 0) + 1
            if tfid is None and len([f for f in out.failures if f.get("finding") is None and "title" in f.get("case", {})]) < 10:
                out.failures.append({"case": {"title": n}, "what": f"title {n!r} -> class name {title!r}: {tproblems[0]}", "finding": None})
        else:
            stats["name-as-title-ok"] = stats.get("name-as-title-ok", 0) + 1


def check_faithful(out, stats, cps):
    """Decide the `Faithful` hypotheses of the Lean theorems for the running interpreter."""
    bad_alnum = 0
    bad_uname = 0
    for cp in cps:
        c = chr(cp)
        if c.isalnum() and not ("a" + c).isidentifier():
            bad_alnum += 1
        if not (c.isalnum() or c in "_- "):
            for x in unicodedata.name(c, "unknown").lower():
                if not (("a" + x).isidentifier() or x in " -"):
                    bad_uname += 1
                    break
    stats["faithful-alnum-violations(code points that are isalnum but not identifier characters)"] = bad_alnum
    stats["faithful-uname-violations"] = bad_uname
    if bad_uname:
        out.failures.append({"case": {"hypothesis": "Faithful.uname"}, "what": f"{bad_uname} Unicode names contain a character outside identifier characters, space, hyphen", "finding": None})


def check_siblings(names, out, stats):
    """Two different property names of one object must not collapse; the JSON name stays recorded."""
    names = [n for n in dict.fromkeys(names) if not core.has_surrogate(n)]
    schema = {"properties": {n: {"type": "integer"} for n in names}}
    case = {"names": names}
    out.note_case(case, len(names) > 1)
    status, el = core.real_parse(schema)
    if status != "ok":
        out.failures.append({"case": case, "what": f"schema with these property names does not parse: {status}", "finding": None})
        return
    attrs = [_parse_attribute_name(n) for n in names]
    props = el.properties
    region = None
    if len(set(attrs)) != len(attrs):
        region = "C12-collapse"
    elif "" in names:
        region = "C12-empty-name"
    sources = sorted((p.source or k) for k, p in props.items())
    if len(props) != len(names) or sources != sorted(names):
        out.failures.append({"case": case, "what": f"{len(names)} property names became {len(props)} attributes with sources {sources}", "finding": region})
        stats["sibling-fail-" + str(region)] = stats.get("sibling-fail-" + str(region), 0) + 1


def check_class_names(drv, schema, out, stats):
    """Distinct object classes of one parsed document must carry distinct class names (model tie: the parsed
    tree, names included, equals the Lean model's)."""
    from statham.serializers.orderer import get_object_classes
    status, el = core.real_parse(schema)
    if status != "ok":
        return
    case = {"schema": schema}
    out.note_case(case, True)
    try:
        rep = drv.ask({"op": "parse", "schema": core.enc_val(schema), "tables": core.schema_tables(schema, [])})
    except (TypeError, ValueError):
        return
    agree = True
    if "error" not in rep and rep.get("parse") == "ok":
        out.traces_validated += 1
        if core.dump_elem(el) != rep["elem"]:
            agree = False
            out.disagreements.append({"what": "parsed tree (class names)", "impl": core.dump_elem(el), "model": rep["elem"], **case})
    classes = []
    for c in get_object_classes(el):
        if not any(c is d for d in classes):
            classes.append(c)
    names = [c.__name__ for c in classes]
    stats["documents-with-repeated-titles"] = stats.get("documents-with-repeated-titles", 0) + (1 if len(classes) > 1 else 0)
    if len(set(names)) != len(names):
        dup = sorted(n for n in set(names) if names.count(n) > 1)
        empty = any(n == "" for n in dup)
        out.failures.append({"case": case, "what": f"different classes share the class name(s) {dup}",
                             "finding": "C12-titles" if (empty and agree) else None})


def class_name_problems(cls_name):
    """Why `cls_name` is not a usable class name (statement: a valid class name, distinct from every name the generated
    module imports or uses).  Empty list = fine."""
    if not cls_name:
        return ["empty"]
    if not cls_name.isidentifier() or unicodedata.normalize("NFKC", cls_name) != cls_name:
        return ["not a valid identifier"]
    if keyword.iskeyword(cls_name):
        return ["keyword (a reserved word)"]
    try:
        compile(f"class {cls_name}:\n    pass\n", "<class-name>", "exec")
    except SyntaxError:
        return ["does not compile as a class name"]
    if cls_name in USED_NAMES:
        return ["shadows a name the generated module imports or uses"]
    return []


# what the listed finding C12-titles describes: the formatted title is empty, is a keyword (None / True), or shadows a
# name of the generated module - and nothing else (in particular not: a class name that is not an identifier)
TITLES_REGION = {"empty", "keyword (a reserved word)", "shadows a name the generated module imports or uses"}


def region_for_title(problem, cls_name, model_name):
    """C12-titles only where the Lean model of the title formatter predicts the very same class name and the defect is
    one the finding describes; anything else is a fresh failure."""
    return "C12-titles" if (problem in TITLES_REGION and model_name is not None and cls_name == model_name) else None


def model_titles(drv, titles):
    if drv is None:
        return [None] * len(titles)
    rep = drv.ask({"op": "titles", "names": titles})
    if "error" in rep or len(rep.get("titles", [])) != len(titles):
        return [None] * len(titles)
    return rep["titles"]


def check_title(title, out, stats, drv=None, model_name=None):
    """A title maps to a valid class name: the formatter's result, the `__name__` of the class parsed from an object
    schema carrying the title (beside a second titled object), and the class statement of the generated module."""
    if core.has_surrogate(title):
        return
    case = {"title": title}
    out.note_case(case, True)
    if model_name is None:
        model_name = model_titles(drv, [title])[0]
    try:
        cls_name = _title_format(title)
    except Exception as exc:  # noqa: BLE001
        out.failures.append({"case": case, "what": f"formatting the title {title!r} raised {type(exc).__name__}: {exc}", "finding": None})
        return
    problems = class_name_problems(cls_name)
    if problems:
        fid = region_for_title(problems[0], cls_name, model_name)
        key = "title-" + problems[0].split(" ")[0] + ("" if fid else "-outside-listed-region")
        stats[key] = stats.get(key, 0) + 1
        if fid is None or len([f for f in out.failures if f.get("finding") == fid and "title" in f.get("case", {})]) < 25:
            out.failures.append({"case": case, "what": f"title {title!r} -> class name {cls_name!r}: {problems[0]}", "finding": fid})
        return
    # the title at work: an object schema carrying it, next to a differently titled object
    from statham.schema.elements.meta import ObjectMeta
    from statham.schema.parser import parse
    from statham.serializers.orderer import get_object_classes
    from statham.serializers.python import serialize_python
    doc = {"type": "object", "title": title, "properties": {
        "v": {"type": "integer"}, "other": {"type": "object", "title": "zq other", "properties": {"w": {"type": "string"}}}}}
    try:
        elements = parse(core.copy.deepcopy(doc))
        classes = []
        for c in get_object_classes(*elements):
            if not any(c is d for d in classes):
                classes.append(c)
        names = [c.__name__ for c in classes]
    except Exception as exc:  # noqa: BLE001
        out.failures.append({"case": case, "what": f"an object schema titled {title!r} does not parse: {type(exc).__name__}: {exc}", "finding": None})
        return
    bad = [(n, class_name_problems(n)[0]) for n in names if class_name_problems(n)]
    if bad or len(names) != 2 or len(set(names)) != 2:
        out.failures.append({"case": case, "what": f"object schemas titled {title!r} and 'zq other' became classes {names}" + (f": {bad[0][0]!r} {bad[0][1]}" if bad else ""), "finding": None})
        return
    try:
        ns = {}
        exec(compile(serialize_python(*elements), "<title>", "exec"), ns)  # noqa: S102 - the generated text is the thing under test
        missing = [n for n in names if not isinstance(ns.get(n), ObjectMeta)]
    except Exception as exc:  # noqa: BLE001
        out.failures.append({"case": case, "what": f"the module generated for title {title!r} (classes {names}) is unusable: {type(exc).__name__}: {exc}", "finding": None})
        return
    if missing:
        out.failures.append({"case": case, "what": f"the module generated for title {title!r} does not define {missing}", "finding": None})
        return
    stats["title-ok(format, parsed class, generated module)"] = stats.get("title-ok(format, parsed class, generated module)", 0) + 1


# word shapes a title is made of (ASCII only is what the formatter keeps; the rest exercises what it drops)
TITLE_WORDS = {
    "lower": ["point", "a", "item", "settings"],
    "upper": ["HTTP", "ID", "X"],
    "camel": ["fooBar", "HttpServer", "aB"],
    "digit-led": ["2d", "3D", "1st", "2fa", "66", "0x", "9Lives"],
    "digit-inside": ["v2", "x1y", "Area51"],
    "non-ascii": ["é", "顧客", "ß", "²", "٣"],
    "non-ascii-mixed": ["éa", "müller", "x²", "٣d", "Ünï"],
}
TITLE_SEPARATORS = [" ", "-", "_", ".", "  ", "/", ": ", "\t", "\u00a0", "é", ""]


def title_family(rng, n):
    """Titles as sequences of 1-4 words, every word shape at every word position (first / later), every separator;
    optionally led or trailed by separators.  Returns (title, shape of the first word, number of words)."""
    shapes = sorted(TITLE_WORDS)
    out = []
    for first in shapes:                       # every shape leads a title, alone and followed by every other shape
        for w in TITLE_WORDS[first]:
            out.append((w, first, 1))
        for later in shapes:
            sep = rng.choice(TITLE_SEPARATORS[:-1])
            out.append((rng.choice(TITLE_WORDS[first]) + sep + rng.choice(TITLE_WORDS[later]), first, 2))
    for _ in range(n):
        k = rng.randint(1, 4)
        picked = [rng.choice(shapes) for _ in range(k)]
        t = rng.choice(["", "", " ", "-", "_"])
        for i, sh in enumerate(picked):
            if i:
                t += rng.choice(TITLE_SEPARATORS)
            t += rng.choice(TITLE_WORDS[sh])
        t += rng.choice(["", "", " ", "-"])
        out.append((t, picked[0], k))
    return out


def check_autotitles(drv, keys, out, stats):
    """untitled object schemas under the given keys of `properties` and of `definitions`, titled by the library's own
    labeller (the generator's path): every class gets a usable, distinct class name"""
    import re as _re
    from json_ref_dict import materialize
    from statham.schema.parser import parse
    from statham.serializers.orderer import get_object_classes
    from statham.serializers.python import serialize_python
    from statham.titles import title_labeller
    doc = {"type": "object", "title": "Root",
           "properties": {k: {"type": "object", "properties": {"v": {"type": "integer"}}} for k in keys},
           "definitions": {k: {"type": "object", "properties": {"w": {"type": "string"}}} for k in keys[:2]}}
    case = {"autotitle_keys": list(keys)}
    out.note_case(case, True)
    import json as _json, os as _os, tempfile as _tempfile
    from json_ref_dict import RefDict
    tmp = _tempfile.mkdtemp(prefix="statham-c12-")
    try:
        path = _os.path.join(tmp, "doc.json")
        with open(path, "w", encoding="utf8") as fh:
            _json.dump(doc, fh)
        schema = materialize(RefDict.from_uri(path + "#/"), context_labeller=title_labeller())
    except Exception as exc:  # noqa: BLE001
        out.failures.append({"case": case, "what": f"loading / titling raised {type(exc).__name__}: {exc}", "finding": None})
        return
    finally:
        import shutil as _shutil
        _shutil.rmtree(tmp, ignore_errors=True)
    try:
        elements = parse(schema)
        classes = []
        for c in get_object_classes(*elements):
            if not any(c is d for d in classes):
                classes.append(c)
        names = [c.__name__ for c in classes]
    except Exception as exc:  # noqa: BLE001
        out.failures.append({"case": case, "what": f"titling / parsing raised {type(exc).__name__}: {exc}", "finding": None})
        return
    # listed region (C12-titles): the labeller uses the key itself as the title (all-digit keys get the parent's title in front),
    # and the title formatter — per the Lean model of it, not per the code under test — makes no usable class name of it
    rep = drv.ask({"op": "titles", "names": [k for k in keys if not k.isdigit()]})
    formatted = rep.get("titles", []) if "error" not in rep else []
    poor = [t for t in formatted if not t or not t.isidentifier() or keyword.iskeyword(t) or t in USED_NAMES]
    bad = [n for n in names if not n or not n.isidentifier() or keyword.iskeyword(n)]
    if bad or len(set(names)) != len(names):
        out.failures.append({"case": case, "what": f"automatic titles for keys {list(keys)} give class names {names}", "finding": "C12-titles" if poor else None})
        return
    try:
        compile(serialize_python(*elements), "<autotitles>", "exec")
    except SyntaxError as exc:
        out.failures.append({"case": case, "what": f"module generated for keys {list(keys)} does not compile: {exc}", "finding": "C12-titles" if poor else None})
        return
    stats["autotitles-ok"] = stats.get("autotitles-ok", 0) + 1


def object_attribute_names():
    """every attribute an `Object` instance or class already has, plus the per-instance slots `dir(object)` does not list"""
    from statham.schema.elements import Object
    from statham.schema.elements.meta import ObjectMeta
    return sorted(set(dir(Object)) | set(dir(ObjectMeta)) | {"__dict__", "__weakref__", "__slots__", "__qualname__", "__annotations__", "__module__"})


def check_usable(name, out, stats):
    """'usable': a model declared with a property of this JSON name can be built from data carrying the name, the
    value is read back under the mapped attribute, and a wrong value is refused with the validation error"""
    from statham.schema.exceptions import ValidationError
    from statham.schema.parser import parse_element
    case = {"usable": name}
    out.note_case(case, True)
    try:
        cls = parse_element({"type": "object", "title": "Probe", "properties": {name: {"type": "integer"}}})
        attr = list(cls.properties)[0]
    except Exception as exc:  # noqa: BLE001
        out.failures.append({"case": case, "what": f"declaring a property named {name!r} raised {type(exc).__name__}: {exc}", "finding": None})
        return
    try:
        inst = cls({name: 1})
        got = getattr(inst, attr)
        item = inst[attr]
    except Exception as exc:  # noqa: BLE001
        out.failures.append({"case": case, "what": f"property {name!r} (attribute {attr!r}): building / reading the model raised {type(exc).__name__}: {exc}", "finding": None})
        return
    if got != 1 or item != 1 or type(got) is not int:
        # the empty JSON name loses its source (listed region C12-empty-name): the value then never arrives
        out.failures.append({"case": case, "what": f"property {name!r} (attribute {attr!r}) reads back {got!r} / {item!r} instead of 1",
                             "finding": "C12-empty-name" if name == "" else None})
        return
    try:
        cls({name: "x"})
        out.failures.append({"case": case, "what": f"property {name!r}: a string was accepted for an integer property", "finding": None})
        return
    except ValidationError:
        pass
    except Exception as exc:  # noqa: BLE001
        out.failures.append({"case": case, "what": f"property {name!r}: a wrong value raised {type(exc).__name__} instead of the validation error", "finding": None})
        return
    # the generated module: the declaration written for this property, executed, still answers to the JSON name
    mangled = attr.startswith("__") and not attr.endswith("__")
    if attr.isidentifier() and unicodedata.normalize("NFKC", attr) == attr and not mangled and name != "":
        from statham.serializers.python import serialize_python
        try:
            ns = {}
            exec(serialize_python(cls), ns)  # noqa: S102 - the generated text is the thing under test
            gen = ns["Probe"]
            ginst = gen({name: 1})
            gsrc = gen.properties[attr].source or attr
            if getattr(ginst, attr) != 1 or gsrc != name:
                out.failures.append({"case": case, "what": f"property {name!r}: the generated class records JSON name {gsrc!r} and reads back {getattr(ginst, attr)!r}", "finding": None})
                return
        except Exception as exc:  # noqa: BLE001
            out.failures.append({"case": case, "what": f"property {name!r} (attribute {attr!r}): the generated class cannot be built from {{{name!r}: 1}}: {type(exc).__name__}: {exc}", "finding": None})
            return
        stats["usable-generated-ok"] = stats.get("usable-generated-ok", 0) + 1
    stats["usable-ok"] = stats.get("usable-ok", 0) + 1


def instance_facilities():
    """What an instance of a model *without* the property under test offers and binds to itself, read off the running
    library (nothing is listed by hand): attribute name -> the function behind the bound method.  Special names
    (`__x__`) are included; Python reaches those through the type, so they are compared on the type."""
    import inspect
    from statham.schema.elements import Object
    bare = Object.inline("Bare")
    inst = bare({})
    found = {}
    for m in dir(inst):
        try:
            v = getattr(inst, m)
        except Exception:  # noqa: BLE001
            continue
        if inspect.ismethod(v) and v.__self__ is inst:
            found[m] = v.__func__
    return bare, found


# generic Python protocols an instance may or may not support; which ones are *required* of a model with the probed
# property is decided differentially: exactly those that work on an instance of a model without it
PROTOCOLS = [
    ("repr(x)", repr),
    ("x == x", lambda x: x == x),
    ("dict(x)", dict),
    ("f(**x)", lambda x: (lambda **kw: kw)(**x)),
    ("list(x)", list),
    ("len(x)", len),
    ("bool(x)", bool),
    ("str(x)", str),
]


def works(fn, x):
    try:
        fn(x)
        return True, None
    except Exception as exc:  # noqa: BLE001
        return False, f"{type(exc).__name__}: {exc}"


def facility_variants(rng, member):
    """JSON spellings which the name mapping sends (or may send) onto the attribute `member`"""
    out = [member]
    if "_" in member.strip("_"):
        core_ = member.strip("_")
        lead = member[:len(member) - len(member.lstrip("_"))]
        trail = member[len(member.rstrip("_")):] if member.rstrip("_") != member else ""
        out.append(lead + "".join(rng.choice(" -") if c == "_" else c for c in core_) + trail)
    out.append(rng.choice([" ", "-", "_"]) + member)
    out.append(member + rng.choice(["_", " ", "-"]))
    return out


def check_facilities(name, out, stats):
    """'usable', 'not a reserved attribute': a model with a JSON property of this name (declared under `properties`, or
    only listed under `required`, or declared on a class under the mapped attribute name) still gives instances
    everything an `Object` instance provides: every method which a property-less instance binds to itself is still that
    method on the instance (special methods: on its type), and every generic protocol that works on a property-less
    instance works on it - with the property provided and with it left out."""
    import inspect
    from statham.schema.elements import Integer, Object
    from statham.schema.exceptions import SchemaDefinitionError, ValidationError
    from statham.schema.property import Property
    if core.has_surrogate(name):
        return
    case = {"facilities": name}
    out.note_case(case, True)
    try:
        bare, facilities = instance_facilities()
        baseline = bare({})
    except Exception as exc:  # noqa: BLE001
        out.failures.append({"case": case, "what": f"a property-less model cannot be built: {type(exc).__name__}: {exc}", "finding": None})
        return
    required_ops = [(label, fn) for label, fn in PROTOCOLS if works(fn, baseline)[0]]
    stats["facilities-ordinary-methods-of-an-instance"] = len([m for m in facilities if not (m.startswith("__") and m.endswith("__"))])
    stats["facilities-special-methods-of-an-instance"] = len(facilities) - stats["facilities-ordinary-methods-of-an-instance"]
    stats["facilities-protocols-required(" + ", ".join(label for label, _ in required_ops) + ")"] = len(required_ops)
    models = []
    try:
        attr = _parse_attribute_name(name)
        models.append(("declared under `properties`", parse_element({"type": "object", "title": "Probe", "properties": {name: {"type": "integer"}}})))
        models.append(("listed under `required` only", parse_element({"type": "object", "title": "Probe", "required": [name]})))
    except Exception as exc:  # noqa: BLE001
        out.failures.append({"case": case, "what": f"declaring a property named {name!r} raised {type(exc).__name__}: {exc}", "finding": None})
        return
    # the hand-written path: the mapped attribute, and the JSON name itself where it is an identifier, declared on a class
    for ident in dict.fromkeys([attr, name]):
        if not ident.isidentifier():
            continue
        try:
            models.append((f"declared on a class as `{ident} = Property(...)`", Object.inline("Probe", properties={ident: Property(Integer(), source=name)})))
            stats["facilities-class-declaration-accepted"] = stats.get("facilities-class-declaration-accepted", 0) + 1
        except SchemaDefinitionError:
            # the documented refusal of a reserved attribute: nothing to build
            stats["facilities-class-declaration-refused"] = stats.get("facilities-class-declaration-refused", 0) + 1
        except Exception as exc:  # noqa: BLE001
            out.failures.append({"case": case, "what": f"declaring `{ident} = Property(...)` raised {type(exc).__name__}: {exc}", "finding": None})
            return
    if attr in facilities:
        stats["facilities-names-mapped-onto-an-instance-method"] = stats.get("facilities-names-mapped-onto-an-instance-method", 0) + 1
    for how, cls in models:
        for given, data in (("provided", {name: 1}), ("left out", {})):
            if given == "left out" and "required" in how:
                continue
            try:
                inst = cls(data)
            except Exception as exc:  # noqa: BLE001
                # listed region C12-empty-name, only where it applies: the empty JSON name loses its recorded source (it
                # becomes 'blank'), so data carrying "" is refused as lacking the required 'blank'
                lost_source = name == "" and "required" in how and isinstance(exc, ValidationError) and cls.properties[attr].source == attr
                out.failures.append({"case": case, "what": f"property {name!r} ({how}, {given}): building the model raised {type(exc).__name__}: {exc}",
                                     "finding": "C12-empty-name" if lost_source else None})
                return
            for m, func in facilities.items():
                if m.startswith("__") and m.endswith("__"):
                    got = inspect.getattr_static(type(inst), m, None)
                    ok = got is func
                else:
                    try:
                        got = getattr(inst, m)
                    except Exception as exc:  # noqa: BLE001
                        got = exc
                    ok = inspect.ismethod(got) and got.__self__ is inst and got.__func__ is func
                if not ok:
                    broken = [f"{label} raises {why}" for label, fn in required_ops for good, why in [works(fn, inst)] if not good]
                    out.failures.append({"case": case, "what": f"property {name!r} -> attribute {attr!r} ({how}, {given}): `instance.{m}` is no longer the method "
                                         f"every Object instance has but {got!r}" + ("; " + "; ".join(broken) if broken else ""), "finding": None})
                    return
            for label, fn in required_ops:
                good, why = works(fn, inst)
                if not good:
                    out.failures.append({"case": case, "what": f"property {name!r} -> attribute {attr!r} ({how}, {given}): {label} works on a model without the "
                                         f"property but here raises {why}", "finding": None})
                    return
    stats["facilities-ok"] = stats.get("facilities-ok", 0) + 1


def check_shared_object(names, out, stats):
    """one object schema *dict* reached twice in one parse (from a property and from `definitions`, as resolving a
    `$ref` produces): its properties keep their JSON names, and it is one class"""
    from statham.schema.constants import NotPassed
    from statham.schema.parser import parse
    from statham.serializers.orderer import get_object_classes
    shared = {"type": "object", "title": "Item", "properties": {n: {"type": "integer"} for n in names}, "required": names[:1]}
    doc = {"type": "object", "title": "Root", "properties": {"first": shared, "again": {"type": "array", "items": shared}}, "definitions": {"item": shared}}
    case = {"shared_object": names}
    out.note_case(case, True)
    try:
        elements = parse(core.copy.deepcopy(doc))
    except Exception as exc:  # noqa: BLE001
        stats["shared-parse-raised-" + type(exc).__name__] = stats.get("shared-parse-raised-" + type(exc).__name__, 0) + 1
        return
    classes, seen = [], set()
    for c in get_object_classes(*elements):
        if id(c) not in seen:
            seen.add(id(c))
            classes.append(c)
    items = [c for c in classes if c.__name__.startswith("Item")]
    if len(items) != 1:
        out.failures.append({"case": case, "what": f"one object schema reached several times became {len(items)} classes: {[c.__name__ for c in items]}", "finding": None})
        return
    cls = items[0]
    sources = sorted(p.source or a for a, p in cls.properties.items())
    if len(set(names)) == len(names) and len(cls.properties) == len(names) and sources != sorted(names):
        out.failures.append({"case": case, "what": f"JSON names {sorted(names)} became sources {sources}", "finding": None})
        return
    if len(cls.properties) == len(set(names)):
        try:
            inst = cls({n: 1 for n in names})
        except Exception:  # noqa: BLE001
            return
        lost = [a for a in cls.properties if isinstance(getattr(inst, a, NotPassed()), NotPassed)]
        if lost:
            out.failures.append({"case": case, "what": f"built from its JSON names, attributes {lost} are not set", "finding": None})
            return
    stats["shared-object-ok"] = stats.get("shared-object-ok", 0) + 1


# ----------------------------------------------------------------------------- sets of titles in one module
# "distinct from every other class in the module" is a statement about *sets* of titles met in one parse, not about
# one title: spellings the formatter sends onto one class name, titles that look like the names the library hands
# out to tell same-named classes apart, and - as a history - the handed-out names themselves coming back as titles
# (that is what `serialize_json` writes) beside further objects carrying the original titles.
TITLE_BASES = ["address", "line item", "Foo", "point", "HttpServer", "v2", "area 51", "customer", "x", "order-line", "foo_bar", "é cole",
               "item 1", "Line Item", "zq"]
TITLE_TYPES = ["string", "integer", "boolean", "number", "null", "array"]


class LibraryHangs(BaseException):
    """raised by the watchdog inside a library call that does not return"""


def _watchdog(_signum, _frame):
    raise LibraryHangs()


def guarded(fn, *args, seconds=10.0):
    """Run a call into the library under a watchdog: ("ok", value) / ("raised", exception) / ("hangs", None)."""
    import signal
    old = signal.signal(signal.SIGALRM, _watchdog)
    signal.setitimer(signal.ITIMER_REAL, seconds)
    try:
        return "ok", fn(*args)
    except LibraryHangs:
        return "hangs", None
    except RecursionError as exc:
        return "raised", exc
    except Exception as exc:  # noqa: BLE001
        return "raised", exc
    finally:
        signal.setitimer(signal.ITIMER_REAL, 0)
        signal.signal(signal.SIGALRM, old)


def title_spelling(rng, base):
    """another way of writing the same title: separators exchanged, case of a word changed, blanks around it"""
    how = rng.choice(["same", "same", "same", "separator", "case", "capital", "blank", "glued"])
    if how == "separator":
        sep = rng.choice([" ", "-", "_", ".", "  ", "/"])
        return "".join(sep if c in " -_./" else c for c in base)
    if how == "case":
        return rng.choice([base.lower(), base.upper(), base.title()])
    if how == "capital":
        return base[:1].swapcase() + base[1:]
    if how == "blank":
        return rng.choice([" ", "", "-"]) + base + rng.choice([" ", "_", "-"])
    if how == "glued":
        return "".join(w[:1].upper() + w[1:] for w in base.replace("-", " ").replace("_", " ").split(" "))
    return base


def title_numbered(rng, base, upto):
    """a title that looks like the name of the n-th class of that title: the title, a separator, a small number"""
    n = rng.choice(list(range(0, upto + 2)) + list(range(1, upto + 1)) * 2)
    return base + rng.choice(["_", "_", "_", " ", "-", "", ".", "__", " _", "_0"]) + str(n)


def titled_object(title, marker, rng):
    """an object schema unlike every other one of the document: its own marker property (`p<marker>`)"""
    return {"type": "object", "title": title, "properties": {"p%d" % marker: {"type": rng.choice(TITLE_TYPES)}}}


def place_object(doc, key, obj, rng=None, inside=None):
    """put one more titled object into the document: under the root (an object's property / a further tuple item / a
    further anyOf member) or as a property of an object already there"""
    if inside is not None:
        inside["properties"][key] = obj
    elif "properties" in doc:
        doc["properties"][key] = obj
    elif "items" in doc:
        doc["items"].append(obj)
    else:
        doc["anyOf"].append(obj)


def titled_objects_of(doc):
    """every titled object of a document of this family, by its marker"""
    found = {}

    def walk(x):
        if isinstance(x, dict):
            if "title" in x and isinstance(x.get("properties"), dict):
                for k in x["properties"]:
                    if k[:1] == "p" and k[1:].isdigit():
                        found[int(k[1:])] = x
            for v in x.values():
                walk(v)
        elif isinstance(x, list):
            for v in x:
                walk(v)
    walk(doc)
    return found


def title_set_document(rng, stats):
    """One document with 2-7 pairwise different titled objects whose titles are related: spellings of one title,
    numbered look-alikes, now and then an unrelated title; laid out under an object / a tuple / an anyOf, nested or
    side by side, in random order of meeting.  Returns (document, titles that may be fed back later)."""
    base = rng.choice(TITLE_BASES)
    m = rng.randint(2, 6)
    titles = []
    for _ in range(m):
        kind = rng.choices(["spelling", "numbered", "other"], [55, 35, 10])[0]
        stats["title-set: " + kind + " titles"] = stats.get("title-set: " + kind + " titles", 0) + 1
        if kind == "spelling":
            titles.append(title_spelling(rng, base))
        elif kind == "numbered":
            titles.append(title_numbered(rng, title_spelling(rng, base), m))
        else:
            titles.append(title_spelling(rng, rng.choice(TITLE_BASES)))
    layout = rng.choice(["properties", "properties", "items", "anyOf"])
    stats["title-set: layout " + layout] = stats.get("title-set: layout " + layout, 0) + 1
    if layout == "properties":
        root_title = rng.choice([title_spelling(rng, base), title_numbered(rng, base, m), "zq root", "zq root"])
        doc = titled_object(root_title, m, rng)
    elif layout == "items":
        doc = {"type": "array", "items": []}
    else:
        doc = {"anyOf": []}
    placed = []
    for i, t in enumerate(titles):
        o = titled_object(t, i, rng)
        place_object(doc, "k%d" % i, o, inside=rng.choice(placed) if placed and rng.random() < 0.3 else None)
        placed.append(o)
    return doc, titles + [base]


def title_doc_verdict(drv, doc, out, stats):
    """The oracle for one document of pairwise different titled objects: it parses (and returns); there is one class
    per object; every class name is a usable class name; the names are pairwise distinct; the generated module has
    exactly one class statement per name, executes, and the class it binds to a name describes the model of that
    name.  Returns (what is wrong | None, class name by marker, agrees with the Lean model of the parse)."""
    import re as _re
    from statham.schema.elements.meta import ObjectMeta
    from statham.serializers.orderer import get_object_classes
    from statham.serializers.python import serialize_python
    objects = titled_objects_of(doc)
    agree = True
    how, el = guarded(parse_element, core.copy.deepcopy(doc))
    if how == "hangs":
        return "parsing the document does not return (watchdog)", {}, agree
    if how == "raised":
        return f"the document does not parse: {type(el).__name__}: {el}", {}, agree
    if drv is not None:
        try:
            rep = drv.ask({"op": "parse", "schema": core.enc_val(doc), "tables": core.schema_tables(doc, [])})
        except (TypeError, ValueError):
            rep = {"error": "not encodable"}
        if "error" not in rep and rep.get("parse") == "ok":
            out.traces_validated += 1
            if core.dump_elem(el) != rep["elem"]:
                agree = False
                out.disagreements.append({"what": "parsed tree (class names of a title set)", "impl": core.dump_elem(el), "model": rep["elem"], "title_doc": doc})
    how, listed = guarded(lambda: list(get_object_classes(el)))
    if how != "ok":
        return "collecting the classes of the parsed document " + ("does not return (watchdog)" if how == "hangs" else f"raised {type(listed).__name__}: {listed}"), {}, agree
    classes = []
    for c in listed:
        if not any(c is d for d in classes):
            classes.append(c)
    names = [c.__name__ for c in classes]
    by_marker = {}
    for c in classes:
        for k in c.properties:
            src = c.properties[k].source or k
            if src[:1] == "p" and src[1:].isdigit():
                by_marker.setdefault(int(src[1:]), []).append(c)
    if len(classes) != len(objects) or sorted(by_marker) != sorted(objects) or any(len(v) != 1 for v in by_marker.values()):
        return f"{len(objects)} different titled objects (titles {[objects[i]['title'] for i in sorted(objects)]}) became {len(classes)} classes {names}", {}, agree
    name_of = {i: v[0].__name__ for i, v in by_marker.items()}
    shown = ", ".join(f"{objects[i]['title']!r} -> {name_of[i]}" for i in sorted(objects))
    for n in names:
        problems = class_name_problems(n)
        if problems:
            return f"class name {n!r} ({shown}): {problems[0]}", name_of, agree
    if len(set(names)) != len(names):
        dup = sorted(n for n in set(names) if names.count(n) > 1)
        return f"different classes of one module share the class name(s) {dup}: {shown}", name_of, agree
    how, text = guarded(serialize_python, el)
    if how != "ok":
        return f"generating the module ({shown}) " + ("does not return (watchdog)" if how == "hangs" else f"raised {type(text).__name__}: {text}"), name_of, agree
    declared = _re.findall(r"^class (\w+)\(", text, flags=_re.MULTILINE)
    if sorted(declared) != sorted(names):
        return f"the generated module declares classes {declared} for the models {names} ({shown})", name_of, agree
    ns = {}
    how, err = guarded(lambda: exec(compile(text, "<title-set>", "exec"), ns))  # noqa: S102 - the generated text is the thing under test
    if how != "ok":
        return f"the module generated for {shown} " + ("does not finish executing (watchdog)" if how == "hangs" else f"is unusable: {type(err).__name__}: {err}"), name_of, agree
    for c in classes:
        g = ns.get(c.__name__)
        if not isinstance(g, ObjectMeta) or list(g.properties) != list(c.properties):
            return f"the generated class {c.__name__} does not describe the model of that name ({shown})", name_of, agree
    return None, name_of, agree


def check_title_set(drv, doc, fed_back, out, stats):
    """A set of related titles in one module, then the history 'the names handed out come back as titles': every
    object of the document is re-titled with the class name it was given (what `serialize_json` writes), further
    different objects carrying titles of the first round are added, and the result is parsed and generated again."""
    case = {"title_doc": doc, "fed_back": list(fed_back)}
    out.note_case(case, True)
    wrong, name_of, agree = title_doc_verdict(drv, doc, out, stats)
    if wrong:
        stats["title-set: failed as written"] = stats.get("title-set: failed as written", 0) + 1
        out.failures.append({"case": case, "what": wrong, "finding": None})
        return
    stats["title-set: ok as written"] = stats.get("title-set: ok as written", 0) + 1
    names = list(name_of.values())
    if len(names) - len({n.split("_")[0] for n in names}) > 0:
        stats["title-set: documents in which the library numbered same-named classes"] = stats.get("title-set: documents in which the library numbered same-named classes", 0) + 1
    if not fed_back:
        return
    again = core.copy.deepcopy(doc)
    objects = titled_objects_of(again)
    for i, o in objects.items():
        o["title"] = name_of[i]
    top = max(objects) + 1
    for j, t in enumerate(fed_back):
        place_object(again, "e%d" % j, {"type": "object", "title": t, "properties": {"p%d" % (top + j): {"type": "string"}, "extra": {"type": "integer"}}})
    wrong, _, _ = title_doc_verdict(drv, again, out, stats)
    if wrong:
        stats["title-set: failed after the names came back as titles"] = stats.get("title-set: failed after the names came back as titles", 0) + 1
        out.failures.append({"case": case, "what": f"after re-titling every object with the class name it was given ({sorted(name_of.values())}) and adding "
                             f"objects titled {list(fed_back)}: {wrong}", "finding": None})
        return
    stats["title-set: ok after the names came back as titles"] = stats.get("title-set: ok after the names came back as titles", 0) + 1


def run(ctx, scale=1.0):
    rng = random.Random(ctx["seed"] + 12)
    out = Outcome()
    out.rule = ("single characters in three contexts (alone, between letters, after `_`): every code point below U+3000 plus a random "
                "sample (quick) or every Unicode scalar value (thorough); strings of 2-6 class representatives; keyword / reserved / "
                "dunder words; sibling sets of 2-4 names; titles (random over a small alphabet, and built word by word: every word shape - digit-led, capitals, camel case, non-ASCII - in first and later position with every separator; every swept string also as a title), each formatted, parsed as an object title and generated; every attribute name of Object / its metaclass / an instance in the JSON "
                "spellings mapping onto it (instances keep all instance facilities); sets of 2-7 related titles (spellings of one title, numbered look-alikes) on pairwise different objects of one document, then re-titled with the class names handed out plus further objects under the first titles - parsed and generated; non-trivial = longer than one character; distinct by SHA-256")
    stats = {}
    drv = core.Driver()
    try:
        cps = all_code_points()
        if ctx["tier"] == "thorough":
            sweep = cps
        else:
            sweep = [cp for cp in cps if cp < 0x3000] + rng.sample(cps, int(12000 * scale))
        check_faithful(out, stats, sweep)
        B = 3000
        for i in range(0, len(sweep), B):
            chunk = [chr(cp) for cp in sweep[i:i + B]]
            check_names(drv, chunk + ["a" + c + "b" for c in chunk] + ["_" + c for c in chunk], out, stats, sweep=True)
        stats["code-points-swept"] = len(sweep)
        names = list(WORDS) + sorted(OWN_RESERVED) + [w + "_" for w in sorted(OWN_RESERVED)][:40]
        for _ in range(int(1500 * scale)):
            names.append("".join(rng.choice(REPRESENTATIVES) for _ in range(rng.randint(2, 6))))
        check_names(drv, names, out, stats)
        for _ in range(int(300 * scale)):
            pool = WORDS + REPRESENTATIVES + ["a b", "a_b", "a-b", "x", "y"]
            check_siblings(rng.sample(pool, rng.choice([2, 3, 4])), out, stats)
        hostile = ["first-name", "class", "total$", "a b", "x.y", "1st", "müller", "def", "__init__", "plain", "n"]
        for _ in range(int(40 * scale)):
            check_shared_object(rng.sample(hostile, rng.choice([1, 2, 3])), out, stats)
        check_siblings(["a b", "a_b"], out, stats)
        check_siblings(["", "blank"], out, stats)
        auto_pool = ["404", "2020", "1", "0", "a", "item", "x1", "1st", "my-key", "snake_case", "UPPER", "a b", "顧客", "$", "é1", "v2.0", "__x", "3d"]
        for _ in range(int(40 * scale)):
            check_autotitles(drv, rng.sample(auto_pool, rng.choice([2, 3, 4])), out, stats)
        check_autotitles(drv, ["404", "200"], out, stats)
        # every name an Object already has as an attribute, and a sample of ordinary ones, must be usable as a property
        for n in object_attribute_names() + sorted(OWN_RESERVED) + [w + "_" for w in keyword.kwlist] + rng.sample(WORDS, min(len(WORDS), 20)):
            check_usable(n, out, stats)
        # every name an Object (class, metaclass, or instance) answers to, in the JSON spellings that map onto it, plus ordinary
        # names: instances of a model with that property keep every facility of an Object instance
        _, facilities = instance_facilities()
        members = sorted(set(object_attribute_names()) | set(facilities) | OWN_RESERVED)
        probe = []
        for m in members:
            probe.extend(facility_variants(rng, m))
        probe.extend(rng.sample(WORDS, min(len(WORDS), 15)))
        for _ in range(int(60 * scale)):
            probe.append("".join(rng.choice(REPRESENTATIVES) for _ in range(rng.randint(1, 5))))
        for n in dict.fromkeys(probe):
            check_facilities(n, out, stats)
        from harness.gen import SchemaGen
        sg = SchemaGen(rng)
        for _ in range(int(400 * scale)):
            check_class_names(drv, sg.schema(), out, stats)
        same = lambda i: {"type": "object", "title": "Point", "properties": {"p%d" % i: {"type": "integer"}}}
        for schema in (
            {"items": [same(1), same(2)], "additionalItems": same(3), "contains": same(4)},
            {"type": "object", "title": "Root", "properties": {"a": same(1), "b": {"type": "array", "items": [{"type": "string"}, same(2)]}},
             "patternProperties": {"x": same(3)}, "additionalProperties": same(4), "propertyNames": same(5), "dependencies": {"a": same(6)}},
            {"anyOf": [same(1), same(2)], "oneOf": [same(3)], "allOf": [same(4)], "not": same(5)},
            {"type": "array", "items": same(1), "contains": same(1)},
        ):
            check_class_names(drv, schema, out, stats)
        titles = ["thing", "my object", "123", "é", "none", "true", "property", "any", "object", "list", "union", "maybe", "a1b", "fooBar",
                  "foo_bar", "HTTPServer", "x", "array", "_", "1abcDef", "Ünï", "the-title", "not"] + \
                 ["".join(rng.choice("abcXY12 _-é") for _ in range(rng.randint(1, 7))) for _ in range(int(200 * scale))]
        # titles built word by word: every word shape (digit-led, all capitals, camel case, non-ASCII, ...) in first and in later position
        family = title_family(rng, int(250 * scale))
        for t, first, k in family:
            key = f"title-family: first word {first}, {'one word' if k == 1 else 'several words'}"
            stats[key] = stats.get(key, 0) + 1
        titles = list(dict.fromkeys(titles + [t for t, _, _ in family]))
        titles = [t for t in titles if not core.has_surrogate(t)]
        for t, m in zip(titles, model_titles(drv, titles)):
            check_title(t, out, stats, drv, model_name=m)
        # sets of related titles in one module, and the handed-out names coming back as titles (drawn last: the
        # stream of the families above is unchanged)
        for _ in range(int(150 * scale)):
            doc, pool = title_set_document(rng, stats)
            fed_back = [rng.choice(pool) for _ in range(rng.choice([0, 1, 1, 2]))]
            if len([f for f in out.failures if f.get("finding") is None and "title_doc" in f.get("case", {})]) < 10:
                check_title_set(drv, doc, fed_back, out, stats)
    finally:
        drv.close()
    out.stats = stats
    return out


def search(ctx, reason):
    sub = dict(ctx)
    sub["seed"] = ctx["seed"] + 160481183
    found = run(sub, scale=2.0 if ctx["tier"] == "quick" else 1.0)
    fresh = [f for f in found.failures if f.get("finding") is None]
    return fresh[0] if fresh else None


def rerun(w):
    """Evaluate one recorded case again; returns the failures it produces now."""
    out, stats = Outcome(), {}
    if "schema" in w:
        drv = core.Driver()
        try:
            check_class_names(drv, w["schema"], out, stats)
        finally:
            drv.close()
    elif "title_doc" in w:
        drv = core.Driver()
        try:
            check_title_set(drv, w["title_doc"], w.get("fed_back", []), out, stats)
        finally:
            drv.close()
    elif "shared_object" in w:
        check_shared_object(w["shared_object"], out, stats)
    elif "names" in w:
        check_siblings(w["names"], out, stats)
    elif "title" in w:
        drv = core.Driver()
        try:
            check_title(w["title"], out, stats, drv)
        finally:
            drv.close()
    elif "usable" in w:
        check_usable(w["usable"], out, stats)
    elif "facilities" in w:
        check_facilities(w["facilities"], out, stats)
    elif "autotitle_keys" in w:
        drv = core.Driver()
        try:
            check_autotitles(drv, w["autotitle_keys"], out, stats)
        finally:
            drv.close()
    elif "hypothesis" in w:
        check_faithful(out, stats, all_code_points())
    else:
        drv = core.Driver()
        try:
            check_names(drv, [w["name"]], out, stats)
        finally:
            drv.close()
        out.failures = [f for f in out.failures if "name" in f.get("case", {})]
    return out.failures


def replay_finding(finding):
    """a listed finding still shows: its witness still fails (in whatever region)"""
    return bool(rerun(finding["witness"]))


def replay(payload):
    """a reported violation still fails: the case still produces a failure of the kind it was reported as (one outside
    every listed region stays outside; a case that now only shows a listed finding has stopped failing)"""
    failure = payload.get("failure", {})
    case = failure.get("case")
    if not case:
        return True
    now = rerun(case)
    if failure.get("finding") is None:
        now = [f for f in now if f.get("finding") is None]
    return not now
