"""C09 — code generation and serialization are deterministic across processes.

Correspondence: the generator (`statham.__main__.main`, `serialize_python`, `serialize_json`) is run on
generated documents in separate interpreter processes, one per hash seed (PYTHONHASHSEED = 0, 1, …
and `random`), all documents per process; the generated module text, the JSON serialization
(key order included) and the class names must be byte-identical across processes, and the class
names must be the ones the Lean model (`parseDoc`) assigns.
Documents: C02's reference documents plus families aimed at order: several composition keywords on
one schema whose branches hold distinct equally-titled objects, several undeclared required names,
many properties / definitions, equally-titled objects across definitions."""
import json
import os
import random
import shutil
import subprocess
import sys
import tempfile

from harness import core
from harness.framework import Outcome
from harness.props.c02 import Gen
from harness.props.c20 import core_names

ID = "C09"
TIE_MODULES = ["StathamModel.Tie"]
ASSUMPTIONS = ["PARTIAL: the hash-ordered-iteration inventory is syntactic; process-to-process behaviour is observed on a finite set of hash seeds",
               "address-dependent orders (hashes of classes) vary with process layout rather than with PYTHONHASHSEED; several process instances per seed are run"]
N_DOCS = {"quick": 120, "thorough": 600}
SEEDS = {"quick": ["0", "1", "2", "3", "random"], "thorough": [str(i) for i in range(14)] + ["random"] * 2}
WORKER = os.path.join(os.path.dirname(os.path.dirname(os.path.abspath(__file__))), "c09_worker.py")


def obj(title, props, **extra):
    return {"type": "object", "title": title, "properties": props, **extra}


def order_documents(rng):
    docs = []
    words = ["alpha", "beta", "gamma", "delta", "epsilon", "zeta", "eta", "theta", "iota", "kappa", "lambda", "mu"]
    for _ in range(6):
        # several composition keywords on one schema; branches hold distinct objects with one title
        kws = rng.sample(["anyOf", "oneOf", "allOf"], rng.choice([2, 3]))
        s = {"title": "Root"}
        for i, kw in enumerate(kws):
            s[kw] = [obj("Thing", {rng.choice(words): {"type": "string"}, f"k{i}{j}": {"type": "integer"}}) for j in range(rng.randint(1, 2))]
        if rng.random() < 0.5:
            s["not"] = obj("Thing", {"never": {"type": "null"}})
        docs.append(s)
    for _ in range(4):
        # type lists, also with repeated entries
        types = rng.sample(["string", "integer", "null", "boolean", "number", "array"], rng.randint(2, 5))
        if rng.random() < 0.7:
            types = types + [rng.choice(types)]
            rng.shuffle(types)
        docs.append(obj("Root", {rng.choice(words): {"type": types}, rng.choice(words): {"type": list(reversed(types))}}))
    for _ in range(4):
        # several undeclared required names
        names = rng.sample(words, rng.randint(2, 6))
        docs.append(obj("Root", {rng.choice(words): {"type": "string"}}, required=names))
    for _ in range(4):
        # many properties, many equally-titled definitions
        props = {w: ({"$ref": f"#/definitions/{w}"} if rng.random() < 0.5 else {"type": "string"}) for w in rng.sample(words, rng.randint(4, 10))}
        defs = {w: obj("Shared", {rng.choice(words): {"type": rng.choice(["string", "integer", "boolean"])}}) for w in props}
        docs.append({**obj("Root", props), "definitions": defs})
    for _ in range(3):
        # dependencies / patternProperties with nested objects of one title
        docs.append(obj("Root", {"a": {"type": "string"}},
                        patternProperties={f"^{w}": obj("Pat", {w: {"type": "string"}}) for w in rng.sample(words, 3)},
                        dependencies={w: obj("Dep", {w + "x": {"type": "integer"}}) for w in rng.sample(words, 3)}))
    for _ in range(4):
        # property names that map to one attribute name (whatever the generator does with them, it does it the same way every time)
        groups = [["delivery-address", "delivery_address", "delivery address"], ["a.b", "a_full_stop_b"], ["x y", "x-y", "x_y"], ["Größe", "Grösse"]]
        props = {}
        for grp in rng.sample(groups, rng.randint(1, 3)):
            for n in rng.sample(grp, rng.randint(2, len(grp))):
                props[n] = {"type": rng.choice(["string", "integer", "boolean"])}
        props[rng.choice(words)] = {"type": "string"}
        docs.append(obj("Root", props, required=rng.sample(list(props), rng.randint(0, 2))))
    for _ in range(4):
        # untitled object schemas under keys without any ASCII letter or digit: their automatic titles
        keys = rng.sample(["顧客", "адрес", "$", "—", "ñ", "данные", "%%", "名前"], rng.randint(2, 4))
        props = {k: {"type": "object", "properties": {rng.choice(words): {"type": "string"}}} for k in keys}
        defs = {k: {"type": "object", "properties": {rng.choice(words): {"type": "integer"}}} for k in rng.sample(["住所", "§", "имя"], rng.randint(0, 2))}
        d = obj("Root", props)
        if defs:
            d["definitions"] = defs
        docs.append(d)
    for _ in range(3):
        # two revisions of one document: the same class (name, properties, keywords) refers to a class that was only re-titled
        w1, w2 = rng.sample(words, 2)
        inner = lambda title: obj(title, {w1: {"type": "string"}, "zip": {"type": "integer"}})
        for title in (w1.title() + "Address", "Postal" + w1.title() + "Address"):
            docs.append(obj("Order", {"ship_to": inner(title), w2: {"type": "array", "items": inner(title)}}, required=["ship_to"]))
    return docs


def run_workers(paths, seeds, stats):
    outs = []
    for j, seed in enumerate(seeds):
        # every process meets the documents in another order (what was generated before must not matter either), the first
        # three staying first so that each process runs the console entry point on the same documents
        rest = paths[3:]
        k = (j * 7) % max(1, len(rest))
        order = paths[:3] + (rest[k:] + rest[:k] if j % 2 == 0 else list(reversed(rest[k:] + rest[:k])))
        env = dict(os.environ)
        env["PYTHONHASHSEED"] = seed
        env["PYTHONPATH"] = os.environ.get("STATHAM_REPO", "/repo")
        proc = subprocess.run([sys.executable, WORKER], input=json.dumps(order), capture_output=True, text=True, env=env, timeout=1800, check=False)
        if proc.returncode != 0:
            stats["worker-failed"] = stats.get("worker-failed", 0) + 1
            raise RuntimeError("c09 worker failed: " + proc.stderr[-500:])
        outs.append(json.loads(proc.stdout))
        stats["processes"] = stats.get("processes", 0) + 1
    return outs


def run(ctx, scale=1.0):
    rng = random.Random(ctx["seed"] + 9)
    out = Outcome()
    out.rule = ("documents: C02's reference documents + order-sensitive families (2-3 composition keywords with distinct equally-titled object branches, "
                "2-6 undeclared required names, 4-10 properties over equally-titled definitions, pattern/dependency objects); every document is generated "
                "in 5 (quick) / 16 (thorough) separate interpreter processes with different PYTHONHASHSEED; a case is one document across all processes; "
                "non-trivial = at least two classes; distinct by SHA-256")
    stats = {}
    tmp = tempfile.mkdtemp(prefix="statham-c09-")
    drv = core.Driver()
    try:
        g = Gen(rng)
        docs = []
        n = int(N_DOCS[ctx["tier"]] * scale)
        reps = max(1, n // 70)
        for _ in range(reps):
            docs += [{"doc.json": d} for d in order_documents(rng)]
        while len(docs) < n:
            docs.append(g.document())
        paths = []
        for i, files in enumerate(docs):
            sub = os.path.join(tmp, f"d{i}")
            os.mkdir(sub)
            for name, doc in files.items():
                with open(os.path.join(sub, name), "w", encoding="utf8") as fh:
                    json.dump(doc, fh)
            paths.append(os.path.join(sub, "doc.json"))
        outs = run_workers(paths, SEEDS[ctx["tier"]], stats)
        for files, path in zip(docs, paths):
            recs = [o[path] for o in outs]
            case = {"files": files}
            names = recs[0].get("names")
            out.note_case(case, isinstance(names, list) and len(names) >= 2)
            if isinstance(recs[0].get("python"), str) and recs[0]["python"].startswith("exc:"):
                stats["refused"] = stats.get("refused", 0) + 1
            for field, what in (("python", "generated module text"), ("json", "JSON serialization"), ("names", "class names"),
                                ("cli_file", "file written by the console entry point")):
                vals = [json.dumps(r.get(field)) for r in recs]
                if len(set(vals)) > 1:
                    j = next(i for i, v in enumerate(vals) if v != vals[0])
                    out.failures.append({"case": {**case, "hash_seeds": [SEEDS[ctx["tier"]][0], SEEDS[ctx["tier"]][j]], "field": field},
                                         "what": f"{what} differs between processes (PYTHONHASHSEED {SEEDS[ctx['tier']][0]} vs {SEEDS[ctx['tier']][j]})", "finding": None})
                    break
            else:
                if recs[0].get("python") != recs[0].get("python2") and not str(recs[0].get("python")).startswith("exc:"):
                    out.failures.append({"case": case, "what": "main() and serialize_python(*parse()) differ within one process", "finding": None})
                # the model's names
                mat = recs[0].get("materialized")
                if isinstance(names, list) and isinstance(mat, dict):
                    rep = drv.ask({"op": "parse_doc", "schema": core.enc_val(mat), "tables": core.make_tables([], [], [], names=core_names(mat))})
                    if "error" not in rep and rep.get("parse") == "ok":
                        out.traces_validated += 1
                        model_names = []

                        def walk(d):
                            if isinstance(d, dict):
                                if d.get("cls") == "Object" and d.get("name") not in model_names:
                                    model_names.append(d["name"])
                                for v in d.values():
                                    walk(v)
                            elif isinstance(d, list):
                                for v in d:
                                    walk(v)
                        walk(rep["elems"])
                        if sorted(model_names) != sorted(names):
                            out.disagreements.append({"what": "class names", "impl": sorted(names), "model": sorted(model_names), **case})
                    else:
                        stats["model-no-parse"] = stats.get("model-no-parse", 0) + 1
    finally:
        drv.close()
        shutil.rmtree(tmp, ignore_errors=True)
    out.stats = stats
    return out


def search(ctx, reason):
    sub = dict(ctx)
    sub["seed"] = ctx["seed"] + 413158511
    found = run(sub, scale=1.0)
    return found.failures[0] if found.failures else None


def _case_fails(case):
    tmp = tempfile.mkdtemp(prefix="statham-c09-")
    try:
        for name, doc in case["files"].items():
            with open(os.path.join(tmp, name), "w", encoding="utf8") as fh:
                json.dump(doc, fh)
        path = os.path.join(tmp, "doc.json")
        outs = run_workers([path], [str(i) for i in range(8)], {})
        recs = [o[path] for o in outs]
        return any(len({json.dumps(r.get(f)) for r in recs}) > 1 for f in ("python", "json", "names"))
    finally:
        shutil.rmtree(tmp, ignore_errors=True)


def replay_finding(finding):
    return _case_fails(finding["witness"])


def replay(payload):
    case = payload.get("failure", {}).get("case")
    return True if not case else not _case_fails(case)
