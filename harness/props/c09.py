"""C09 — code generation and serialization are deterministic across processes.

Correspondence: the generator (`statham.__main__.main`, `serialize_python`, `serialize_json`) is run on
generated documents in separate interpreter processes, one per hash seed (PYTHONHASHSEED = 0, 1, …
and `random`), all documents per process; the generated module text, the JSON serialization
(key order included) and the class names must be byte-identical across processes, and the class
names must be the ones the Lean model (`parseDoc`) assigns.
Documents: C02's reference documents plus families aimed at order: several composition keywords on
one schema whose branches hold distinct equally-titled objects, several undeclared required names,
many properties / definitions, equally-titled objects across definitions; `sibling_keyword_documents`: one
schema element (root or nested, typed or not) carrying 2-6 of ALL the keywords that hold sub-schemas, each holding
distinct objects of one title (the order in which the keywords of one element are visited decides the suffixes);
`annotated_trivial_documents`: schemas with no validation content at any level (`{}`, `true`, compositions of
those) carrying annotations (`default`, `title`, `description`) - the elements a parser is most likely to share.
History: "depends only on the input document" also means: not on what the process generated before. Besides every
process meeting the documents in another order, a sample of documents is generated alone in a fresh process and
compared with what the long-running processes produced for it; a difference between processes that a fresh process
per hash seed does not reproduce is reported as history dependence, with the history cut down (bisection over the
prefix of the process's document order) to the document(s) that have to come first."""
import json
import os
import random
import shutil
import subprocess
import sys
import tempfile

from harness import core
from harness.framework import Outcome
from harness.props.c02 import Gen
from harness.props.c20 import core_names

ID = "C09"
TIE_MODULES = ["StathamModel.Tie"]
ASSUMPTIONS = ["PARTIAL: the hash-ordered-iteration inventory is syntactic; process-to-process behaviour is observed on a finite set of hash seeds",
               "address-dependent orders (hashes of classes) vary with process layout rather than with PYTHONHASHSEED; several process instances per seed are run"]
N_DOCS = {"quick": 140, "thorough": 700}
N_FRESH = {"quick": 8, "thorough": 40}          # documents also generated alone, each in a process of its own
FIELDS = (("python", "generated module text"), ("json", "JSON serialization"), ("names", "class names"))
SEEDS = {"quick": ["0", "1", "2", "3", "random"], "thorough": [str(i) for i in range(14)] + ["random"] * 2}
WORKER = os.path.join(os.path.dirname(os.path.dirname(os.path.abspath(__file__))), "c09_worker.py")


def obj(title, props, **extra):
    return {"type": "object", "title": title, "properties": props, **extra}


def order_documents(rng):
    docs = []
    words = ["alpha", "beta", "gamma", "delta", "epsilon", "zeta", "eta", "theta", "iota", "kappa", "lambda", "mu"]
    for _ in range(6):
        # several composition keywords on one schema; branches hold distinct objects with one title
        kws = rng.sample(["anyOf", "oneOf", "allOf"], rng.choice([2, 3]))
        s = {"title": "Root"}
        for i, kw in enumerate(kws):
            s[kw] = [obj("Thing", {rng.choice(words): {"type": "string"}, f"k{i}{j}": {"type": "integer"}}) for j in range(rng.randint(1, 2))]
        if rng.random() < 0.5:
            s["not"] = obj("Thing", {"never": {"type": "null"}})
        docs.append(s)
    for _ in range(4):
        # type lists, also with repeated entries
        types = rng.sample(["string", "integer", "null", "boolean", "number", "array"], rng.randint(2, 5))
        if rng.random() < 0.7:
            types = types + [rng.choice(types)]
            rng.shuffle(types)
        docs.append(obj("Root", {rng.choice(words): {"type": types}, rng.choice(words): {"type": list(reversed(types))}}))
    for _ in range(4):
        # several undeclared required names
        names = rng.sample(words, rng.randint(2, 6))
        docs.append(obj("Root", {rng.choice(words): {"type": "string"}}, required=names))
    for _ in range(4):
        # many properties, many equally-titled definitions
        props = {w: ({"$ref": f"#/definitions/{w}"} if rng.random() < 0.5 else {"type": "string"}) for w in rng.sample(words, rng.randint(4, 10))}
        defs = {w: obj("Shared", {rng.choice(words): {"type": rng.choice(["string", "integer", "boolean"])}}) for w in props}
        docs.append({**obj("Root", props), "definitions": defs})
    for _ in range(3):
        # dependencies / patternProperties with nested objects of one title
        docs.append(obj("Root", {"a": {"type": "string"}},
                        patternProperties={f"^{w}": obj("Pat", {w: {"type": "string"}}) for w in rng.sample(words, 3)},
                        dependencies={w: obj("Dep", {w + "x": {"type": "integer"}}) for w in rng.sample(words, 3)}))
    for _ in range(4):
        # property names that map to one attribute name (whatever the generator does with them, it does it the same way every time)
        groups = [["delivery-address", "delivery_address", "delivery address"], ["a.b", "a_full_stop_b"], ["x y", "x-y", "x_y"], ["Größe", "Grösse"]]
        props = {}
        for grp in rng.sample(groups, rng.randint(1, 3)):
            for n in rng.sample(grp, rng.randint(2, len(grp))):
                props[n] = {"type": rng.choice(["string", "integer", "boolean"])}
        props[rng.choice(words)] = {"type": "string"}
        docs.append(obj("Root", props, required=rng.sample(list(props), rng.randint(0, 2))))
    for _ in range(4):
        # untitled object schemas under keys without any ASCII letter or digit: their automatic titles
        keys = rng.sample(["顧客", "адрес", "$", "—", "ñ", "данные", "%%", "名前"], rng.randint(2, 4))
        props = {k: {"type": "object", "properties": {rng.choice(words): {"type": "string"}}} for k in keys}
        defs = {k: {"type": "object", "properties": {rng.choice(words): {"type": "integer"}}} for k in rng.sample(["住所", "§", "имя"], rng.randint(0, 2))}
        d = obj("Root", props)
        if defs:
            d["definitions"] = defs
        docs.append(d)
    for _ in range(3):
        # two revisions of one document: the same class (name, properties, keywords) refers to a class that was only re-titled
        w1, w2 = rng.sample(words, 2)
        inner = lambda title: obj(title, {w1: {"type": "string"}, "zip": {"type": "integer"}})
        for title in (w1.title() + "Address", "Postal" + w1.title() + "Address"):
            docs.append(obj("Order", {"ship_to": inner(title), w2: {"type": "array", "items": inner(title)}}, required=["ship_to"]))
    return docs


SUBSCHEMA_KEYWORDS = ["properties", "items", "patternProperties", "propertyNames", "contains", "dependencies", "additionalProperties",
                      "additionalItems", "anyOf", "oneOf", "allOf", "not", "definitions"]
WORDS = ["alpha", "beta", "gamma", "delta", "epsilon", "zeta", "eta", "theta", "iota", "kappa", "lambda", "mu"]


def sibling_keyword_documents(rng, count, stats):
    """One schema element carrying several of the keywords that hold sub-schemas; under each of them distinct object schemas
    with one title, so that the class-name suffixes record the order in which the keywords of that element were visited."""
    docs = []
    fam = stats.setdefault("sibling-keywords", {"documents": 0, "keywords": {}, "host": {}, "host-type": {}})
    for _ in range(count):
        title = rng.choice(["Item", "Thing", "node", "Shared Part"])
        where = rng.choice(["root", "root", "property", "definition", "items", "branch"])
        pool = [k for k in SUBSCHEMA_KEYWORDS if k != "definitions" or where == "root"]      # only the root's definitions are parsed
        kws = rng.sample(pool, rng.randint(2, 6))
        if "additionalItems" in kws and "items" not in kws:
            kws.append("items")                  # additionalItems says something only next to an items list
        serial = [0]

        def thing():
            serial[0] += 1
            return obj(title, {f"{rng.choice(WORDS)}{serial[0]}": {"type": rng.choice(["string", "integer", "boolean"])}})

        host = {}
        rng.shuffle(kws)                             # the document's own key order varies too
        for kw in kws:
            if kw in ("properties", "patternProperties", "dependencies", "definitions"):
                names = rng.sample(WORDS, rng.randint(1, 2))
                host[kw] = {("^" + n if kw == "patternProperties" else n): thing() for n in names}
            elif kw in ("anyOf", "oneOf", "allOf"):
                host[kw] = [thing() for _ in range(rng.randint(1, 2))]
            elif kw == "items":
                host[kw] = [thing() for _ in range(rng.randint(1, 2))] if "additionalItems" in kws or rng.random() < 0.3 else thing()
            else:
                host[kw] = thing()
            fam["keywords"][kw] = fam["keywords"].get(kw, 0) + 1
        typ = rng.choice(["object", "array", None, ["object", "array"], ["array", "object", "null"]])
        if typ is not None:
            host["type"] = typ
        host["title"] = "Root" if where == "root" else "Host"
        if where == "root":
            doc = host
        elif where == "property":
            doc = obj("Root", {rng.choice(WORDS): {"type": "string"}, "host": host})
        elif where == "definition":
            doc = {**obj("Root", {"host": {"$ref": "#/definitions/host"}, "again": {"type": "array", "items": {"$ref": "#/definitions/host"}}}),
                   "definitions": {"host": host}}
        elif where == "items":
            doc = {"title": "Root", "type": "array", "items": host}
        else:
            doc = {"title": "Root", rng.choice(["anyOf", "oneOf", "allOf"]): [{"type": "null"}, host]}
        fam["documents"] += 1
        fam["host"][where] = fam["host"].get(where, 0) + 1
        fam["host-type"][json.dumps(typ)] = fam["host-type"].get(json.dumps(typ), 0) + 1
        docs.append(doc)
    return docs


def annotated_trivial_documents(rng, count, stats):
    """Schemas without validation content at any level - `{}`, `true`, and compositions of nothing but those - carrying
    annotations. They all denote "the" trivial element, the one object a parser may be tempted to keep a single copy of."""
    docs = []
    fam = stats.setdefault("annotated-trivial", {"documents": 0, "keywords": {}, "annotations": {}, "at": {}})

    def trivial(depth):
        k = rng.random()
        if depth <= 0 or k < 0.4:
            return rng.choice([{}, True])
        kw = rng.choice(["allOf", "anyOf", "oneOf"])
        fam["keywords"][kw] = fam["keywords"].get(kw, 0) + 1
        s = {kw: [trivial(depth - 1) for _ in range(rng.randint(1, 2))]}
        if rng.random() < 0.3:
            kw2 = rng.choice([k2 for k2 in ("allOf", "anyOf", "oneOf") if k2 != kw])
            s[kw2] = [trivial(depth - 1)]
        return s

    def annotated():
        s = trivial(2)
        if not isinstance(s, dict):
            s = {}
        if not s and rng.random() < 0.5:
            s = {rng.choice(["allOf", "anyOf", "oneOf"]): [rng.choice([{}, True])]}
        for ann, value in (("default", rng.choice([10, "n/a", None, False, [1, 2], {"k": 1}, 0.5])),
                           ("title", rng.choice(["Threshold", "anything", "Any Value"])),
                           ("description", rng.choice(["Whatever.", "Any value at all."]))):
            if rng.random() < (0.75 if ann == "default" else 0.4):
                s[ann] = value
                fam["annotations"][ann] = fam["annotations"].get(ann, 0) + 1
        return s

    for _ in range(count):
        at = rng.choice(["root", "property", "definition", "items"])
        if at == "root":
            doc = annotated()
        elif at == "property":
            doc = obj("Root", {w: annotated() for w in rng.sample(WORDS, rng.randint(1, 3))})
        elif at == "definition":
            doc = {**obj("Root", {"any": {"$ref": "#/definitions/any"}, "wrapped": {"allOf": [{"$ref": "#/definitions/any"}], "default": rng.choice([10, "x", None])}}),
                   "definitions": {"any": annotated()}}
        else:
            doc = {"title": "Root", "type": "array", "items": annotated(), "default": []}
        fam["documents"] += 1
        fam["at"][at] = fam["at"].get(at, 0) + 1
        docs.append(doc)
    return docs


def run_worker(order, seed, stats):
    """One fresh interpreter process under PYTHONHASHSEED=seed generating the documents of `order`, in that order."""
    env = dict(os.environ)
    env["PYTHONHASHSEED"] = seed
    env["PYTHONPATH"] = os.environ.get("STATHAM_REPO", "/repo")
    proc = subprocess.run([sys.executable, WORKER], input=json.dumps(order), capture_output=True, text=True, env=env, timeout=1800, check=False)
    if proc.returncode != 0:
        stats["worker-failed"] = stats.get("worker-failed", 0) + 1
        raise RuntimeError("c09 worker failed: " + proc.stderr[-500:])
    stats["processes"] = stats.get("processes", 0) + 1
    return json.loads(proc.stdout)


def worker_order(paths, j):
    rest = paths[3:]
    k = (j * 7) % max(1, len(rest))
    return paths[:3] + (rest[k:] + rest[:k] if j % 2 == 0 else list(reversed(rest[k:] + rest[:k])))


def run_workers(paths, seeds, stats):
    outs = []
    for j, seed in enumerate(seeds):
        # every process meets the documents in another order (what was generated before must not matter either), the first
        # three staying first so that each process runs the console entry point on the same documents
        outs.append(run_worker(worker_order(paths, j), seed, stats))
    return outs


def history_failure(path, field, what, j, fresh_rec, paths, seeds, files_of, stats):
    """Process j produced for `path` something else than a fresh process under the same hash seed: cut the documents the
    process generated before it down to the ones that have to come first."""
    seed = seeds[j]
    order = worker_order(paths, j)
    prefix = order[:order.index(path)]
    want = json.dumps(fresh_rec.get(field))

    def differs(history):
        return json.dumps(run_worker(history + [path], seed, stats)[path].get(field)) != want

    history = prefix
    if prefix and differs(prefix):
        lo, hi = 0, len(prefix)              # invariant: prefix[:hi] makes the difference; prefix[:lo] does not (lo = 0: the fresh process)
        while hi - lo > 1:
            mid = (lo + hi) // 2
            if differs(prefix[:mid]):
                hi = mid
            else:
                lo = mid
        history = prefix[:hi]
        if len(history) > 1 and differs(history[-1:]):
            history = history[-1:]
    stats["history-dependent"] = stats.get("history-dependent", 0) + 1
    return {"case": {"files": files_of[path], "history": [files_of[h] for h in history], "hash_seed": seed, "field": field},
            "what": f"{what} of a document depends on what the process generated before it: a fresh process (PYTHONHASHSEED {seed}) "
                    f"and one that first generated {len(history)} other document(s) disagree", "finding": None}


def explain_difference(path, field, what, pair, paths, seeds, outs, files_of, stats):
    """Two processes disagree on `path`. Fresh processes under the same two hash seeds tell whether the hash seed alone does it."""
    a, b = pair
    by_seed = {"case": {"files": files_of[path], "hash_seeds": [seeds[a], seeds[b]], "field": field},
               "what": f"{what} differs between processes (PYTHONHASHSEED {seeds[a]} vs {seeds[b]})", "finding": None}
    if field == "cli_file" or "random" in (seeds[a], seeds[b]):
        return by_seed
    alone = {j: run_worker([path], seeds[j], stats)[path] for j in (a, b)}
    if json.dumps(alone[a].get(field)) != json.dumps(alone[b].get(field)):
        stats["hash-seed-dependent"] = stats.get("hash-seed-dependent", 0) + 1
        return by_seed
    for j in (b, a):
        if json.dumps(outs[j][path].get(field)) != json.dumps(alone[j].get(field)):
            return history_failure(path, field, what, j, alone[j], paths, seeds, files_of, stats)
    return by_seed


def run(ctx, scale=1.0):
    rng = random.Random(ctx["seed"] + 9)
    out = Outcome()
    out.rule = ("documents: C02's reference documents + order-sensitive families (2-3 composition keywords with distinct equally-titled object branches, "
                "2-6 undeclared required names, 4-10 properties over equally-titled definitions, pattern/dependency objects; one element carrying 2-6 of the 13 "
                "sub-schema keywords, each over distinct objects of one title, at the root / under a property / definition / items / composition branch, "
                "typed object, array, list or untyped; annotated schemas without validation content: {} / true / 1-2 level compositions of those with "
                "default, title, description, at the root / property / definition / items); every document is generated "
                "in 5 (quick) / 16 (thorough) separate interpreter processes with different PYTHONHASHSEED, each meeting the documents in another order, "
                "and 8 (quick) / 40 (thorough) sampled documents additionally alone in a fresh process; a case is one document across all processes; "
                "non-trivial = at least two classes; distinct by SHA-256")
    stats = {}
    tmp = tempfile.mkdtemp(prefix="statham-c09-")
    drv = core.Driver()
    try:
        g = Gen(rng)
        docs = []
        n = int(N_DOCS[ctx["tier"]] * scale)
        reps = max(1, n // 100)
        for _ in range(reps):
            docs += [{"doc.json": d} for d in order_documents(rng)]
            docs += [{"doc.json": d} for d in sibling_keyword_documents(rng, 12, stats)]
            docs += [{"doc.json": d} for d in annotated_trivial_documents(rng, 10, stats)]
        while len(docs) < n:
            docs.append(g.document())
        paths = []
        for i, files in enumerate(docs):
            sub = os.path.join(tmp, f"d{i}")
            os.mkdir(sub)
            for name, doc in files.items():
                with open(os.path.join(sub, name), "w", encoding="utf8") as fh:
                    json.dump(doc, fh)
            paths.append(os.path.join(sub, "doc.json"))
        seeds = SEEDS[ctx["tier"]]
        outs = run_workers(paths, seeds, stats)
        # a sample of documents generated alone: what a process that has done nothing else produces (the first three documents
        # come first in every process, so without this nothing would show what they do to the documents after them)
        fresh_paths = rng.sample(paths[3:], min(N_FRESH[ctx["tier"]], len(paths) - 3)) if len(paths) > 3 else []
        fresh = {path: run_worker([path], seeds[0], stats)[path] for path in fresh_paths}
        stats["fresh-process-baselines"] = len(fresh)
        files_of = dict(zip(paths, docs))
        explained = 0
        for files, path in zip(docs, paths):
            recs = [o[path] for o in outs]
            case = {"files": files}
            names = recs[0].get("names")
            out.note_case(case, isinstance(names, list) and len(names) >= 2)
            if isinstance(recs[0].get("python"), str) and recs[0]["python"].startswith("exc:"):
                stats["refused"] = stats.get("refused", 0) + 1
            if isinstance(names, list) and len({n.rsplit("_", 1)[0] for n in names if n.rsplit("_", 1)[-1].isdigit()}) > 0:
                stats["documents-with-numbered-classes"] = stats.get("documents-with-numbered-classes", 0) + 1
            for field, what in FIELDS + (("cli_file", "file written by the console entry point"),):
                vals = [json.dumps(r.get(field)) for r in recs]
                if len(set(vals)) > 1:
                    j = next(i for i, v in enumerate(vals) if v != vals[0])
                    if explained < 3:
                        # which of the two is it: the hash seed, or what the process had generated before?
                        explained += 1
                        out.failures.append(explain_difference(path, field, what, (0, j), paths, seeds, outs, files_of, stats))
                    else:
                        stats["further-differing-documents"] = stats.get("further-differing-documents", 0) + 1
                    break
                if path in fresh and field != "cli_file" and json.dumps(fresh[path].get(field)) != vals[0]:
                    if explained < 3:
                        explained += 1
                        out.failures.append(history_failure(path, field, what, 0, fresh[path], paths, seeds, files_of, stats))
                    else:
                        stats["further-differing-documents"] = stats.get("further-differing-documents", 0) + 1
                    break
            else:
                if recs[0].get("python") != recs[0].get("python2") and not str(recs[0].get("python")).startswith("exc:"):
                    out.failures.append({"case": case, "what": "main() and serialize_python(*parse()) differ within one process", "finding": None})
                # the model's names
                mat = recs[0].get("materialized")
                if isinstance(names, list) and isinstance(mat, dict):
                    rep = drv.ask({"op": "parse_doc", "schema": core.enc_val(mat), "tables": core.make_tables([], [], [], names=core_names(mat))})
                    if "error" not in rep and rep.get("parse") == "ok":
                        out.traces_validated += 1
                        model_names = []

                        def walk(d):
                            if isinstance(d, dict):
                                if d.get("cls") == "Object" and d.get("name") not in model_names:
                                    model_names.append(d["name"])
                                for v in d.values():
                                    walk(v)
                            elif isinstance(d, list):
                                for v in d:
                                    walk(v)
                        walk(rep["elems"])
                        if sorted(model_names) != sorted(names):
                            out.disagreements.append({"what": "class names", "impl": sorted(names), "model": sorted(model_names), **case})
                    else:
                        stats["model-no-parse"] = stats.get("model-no-parse", 0) + 1
    finally:
        drv.close()
        shutil.rmtree(tmp, ignore_errors=True)
    out.stats = stats
    return out


def search(ctx, reason):
    sub = dict(ctx)
    sub["seed"] = ctx["seed"] + 413158511
    found = run(sub, scale=1.0)
    return found.failures[0] if found.failures else None


def _write_case_files(tmp, files):
    os.makedirs(tmp)
    for name, doc in files.items():
        with open(os.path.join(tmp, name), "w", encoding="utf8") as fh:
            json.dump(doc, fh)
    return os.path.join(tmp, "doc.json")


def _case_fails(case):
    tmp = tempfile.mkdtemp(prefix="statham-c09-")
    try:
        path = _write_case_files(os.path.join(tmp, "doc"), case["files"])
        if case.get("history"):
            # the document alone in a fresh process vs after the recorded history, under several hash seeds
            before = [_write_case_files(os.path.join(tmp, f"h{i}"), files) for i, files in enumerate(case["history"])]
            for seed in dict.fromkeys([str(case.get("hash_seed", "0")), "0", "1", "2"]):
                if seed == "random":
                    continue
                alone = run_worker([path], seed, {})[path]
                after = run_worker(before + [path], seed, {})[path]
                if any(json.dumps(alone.get(f)) != json.dumps(after.get(f)) for f, _ in FIELDS):
                    return True
            return False
        outs = run_workers([path], [str(i) for i in range(8)], {})
        recs = [o[path] for o in outs]
        return any(len({json.dumps(r.get(f)) for r in recs}) > 1 for f, _ in FIELDS)
    finally:
        shutil.rmtree(tmp, ignore_errors=True)


def replay_finding(finding):
    return _case_fails(finding["witness"])


def replay(payload):
    case = payload.get("failure", {}).get("case")
    return True if not case else not _case_fails(case)
