"""C17 — equal elements are interchangeable.

Correspondence: real `==` (both directions) vs the Lean model of `Element.__eq__` on pairs of
element trees: independent rebuilds and single-point mutations (one keyword, one literal, one
property attribute, the element class).  Oracle: whenever two elements compare equal they must
accept the same values and serialize to the same JSON Schema (class titles aside)."""
import copy
import json
import random
from fractions import Fraction

from statham.serializers import serialize_json, serialize_python

from harness import core, dsl
from harness.framework import Outcome
from harness.gen import ValueGen, INTS, PATTERNS
from harness.props.c08 import dump_to_schema

ID = "C17"
TIE_MODULES = ["StathamModel.Tie"]
PROOF_MODULES = ["StathamModel.Lemmas.AccNames", "StathamModel.Lemmas.SerNames"]
from harness.props.c18 import unique_class_names  # noqa: E402

ASSUMPTIONS = ["model classes have unique names within one tree (the serializers' documented assumption)", "class names are not part of equality (documented); serializations are compared with titles and $ref targets of equal classes identified"]
N_PAIRS = {"quick": 900, "thorough": 30000}


def nodes(d, path=(), out=None):
    out = [] if out is None else out
    if isinstance(d, dict) and "cls" in d:
        out.append(path)
        for key in ("items", "elements"):
            for i, sub in enumerate(d.get(key, [])):
                nodes(sub, path + (key, i), out)
        for key in ("addItems", "contains", "addProps", "propNames"):
            if key in d:
                nodes(d[key], path + (key,), out)
        for key in ("props", "patProps", "deps"):
            for i, (k, sub) in enumerate(d.get(key, [])):
                nodes(sub, path + (key, i, 1), out)
    return out


def get(d, path):
    for p in path:
        d = d[p]
    return d


LOOKALIKE = {True: [1, 1.0], False: [0, 0.0], 1: [True, 1.0], 0: [False, 0.0], 1.0: [True, 1], 0.0: [False, 0]}


def twist_literal(rng, j):
    """A tagged literal with a bool/number lookalike swapped somewhere, or None."""
    v = dsl.dec_val(j)

    def tw(x):
        if isinstance(x, bool) or (isinstance(x, (int, float)) and x in (0, 1)):
            cands = LOOKALIKE[x]
            return rng.choice(cands), True
        if isinstance(x, list) and x:
            i = rng.randrange(len(x))
            y, ok = tw(x[i])
            return x[:i] + [y] + x[i + 1:], ok
        if isinstance(x, dict) and x:
            k = rng.choice(list(x))
            y, ok = tw(x[k])
            return {**x, k: y}, ok
        return x, False
    w, ok = tw(v)
    return core.enc_val(w) if ok else None


def mutate(rng, dump, dg):
    """Returns (mutated dump, kind)."""
    d = copy.deepcopy(dump)
    path = rng.choice(nodes(d))
    node = get(d, path)
    kw = node.setdefault("kw", {})
    kind = rng.choice(["num", "toggle", "literal", "lookalike", "propflag", "source", "class", "reorder-props", "reorder-enum",
                       "description", "add-sub", "required-list", "attr-rename", "class-rename"])
    if kind == "attr-rename" and node.get("props"):
        # another attribute name for the same JSON member (the source is made explicit first, so the JSON name stays)
        k = rng.choice(node["props"])[0]
        k["source"] = k.get("source") or k["name"]
        taken = {kk["name"] for kk, _ in node["props"]}
        fresh = next(n for n in ("renamed", "renamed2", "other_attr", "x9") if n not in taken)
        k["name"] = fresh
        return d, kind
    if kind == "class-rename" and node["cls"] == "Object":
        node["name"] = node.get("name", "C") + "Renamed"
        return d, kind
    if kind == "num":
        name = rng.choice(["minimum", "maximum", "minLength", "maxLength", "minItems", "maxItems", "multipleOf", "minProperties"])
        if name in kw and rng.random() < 0.3:
            # same value, other number type: 2 vs 2.0 compare equal in Python
            v = dsl.dec_val(kw[name])
            kw[name] = core.enc_val(float(v) if isinstance(v, int) else (int(v) if v == int(v) else v))
            return d, "num-retype"
        kw[name] = core.enc_val(rng.choice(INTS))
        return d, kind
    if kind == "toggle":
        name = rng.choice(["uniqueItems", "addItemsB", "addPropsB"])
        if name == "uniqueItems":
            kw[name] = not kw.get(name, False)
            if not kw[name]:
                del kw[name]
        else:
            if kw.get(name) is False:
                del kw[name]
            elif ("addItems" if name == "addItemsB" else "addProps") not in node:
                kw[name] = False
        return d, kind
    if kind == "literal":
        name = rng.choice(["default", "const"])
        kw[name] = core.enc_val(rng.choice([1, "a", None, [1, 2], {"k": 1}, True, 2.5]))
        return d, kind
    if kind == "lookalike":
        for name in ("const", "default"):
            if name in kw:
                t = twist_literal(rng, kw[name])
                if t is not None:
                    kw[name] = t
                    return d, kind
        if "enum" in kw and kw["enum"]:
            i = rng.randrange(len(kw["enum"]))
            t = twist_literal(rng, kw["enum"][i])
            if t is not None:
                kw["enum"][i] = t
                return d, kind
        kw["const"] = rng.choice([True, {"i": "1"}, {"f": ["1", "1"]}])
        return d, "literal"
    if kind == "propflag" and node.get("props"):
        k = rng.choice(node["props"])[0]
        if k.get("required"):
            del k["required"]
        else:
            k["required"] = True
        return d, kind
    if kind == "source" and node.get("props"):
        k = rng.choice(node["props"])[0]
        k["source"] = k.get("source", k["name"]) + "x"
        return d, kind
    if kind == "class" and node["cls"] in ("String", "Integer", "Number", "Boolean", "Null", "Element"):
        node["cls"] = rng.choice([c for c in ("String", "Integer", "Number", "Boolean", "Null", "Element") if c != node["cls"]])
        allowed = dsl.ALLOWED.get(node["cls"])
        if allowed is not None:
            node["kw"] = {k: v for k, v in kw.items() if k in allowed}
            for key in ("items", "addItems", "contains", "props", "patProps", "addProps", "propNames", "deps"):
                node.pop(key, None)
        return d, kind
    if kind == "reorder-props" and len(node.get("props", [])) >= 2:
        node["props"] = list(reversed(node["props"]))
        return d, kind
    if kind == "reorder-enum" and len(kw.get("enum", [])) >= 2:
        kw["enum"] = list(reversed(kw["enum"]))
        return d, kind
    if kind == "description":
        kw["description"] = rng.choice(["one", "two"])
        return d, kind
    if kind == "add-sub" and node["cls"] in ("Element",):
        node["contains"] = dg.leaf()
        return d, kind
    if kind == "required-list" and node["cls"] in ("Element", "Object"):
        kw["required"] = rng.sample(["a", "b", "c"], rng.choice([0, 1, 2]))
        return d, kind
    kw["pattern"] = rng.choice(PATTERNS)
    if node["cls"] not in ("String", "Element"):
        kw.pop("pattern")
        kw["description"] = "mutated"
    return d, "fallback"


# ---- literals that differ in *structure*, and keywords present with an empty / falsy value vs absent ----------------------
# (the quantifier: pairs differing in one keyword / one literal.  A literal is any JSON value: the pair may differ by one member of
# an object literal, one element of an array literal, the kind of an empty container; a keyword may be there with a value that is
# empty or falsy in Python - `const: []`, `enum: []`, `default: {}`, `items: []`, `required: []` - which is not the same as absent.)
SCALARS = [None, True, False, 0, 1, 2, -1, 1.5, 0.0, "", "a", "k"]
FALSY_LITERALS = [[], {}, "", 0, 0.0, False, None]
LITERAL_KEYS = ["a", "b", "k", "z", "", "a b"]


def container_literal(rng, sg):
    """a JSON array or object literal (nested up to three levels)"""
    for _ in range(30):
        v = sg.json_value(3)
        if isinstance(v, (list, dict)) and (v or rng.random() < 0.3):
            return v
    return {"k": 1}


def containers_of(v, path=(), out=None):
    out = [] if out is None else out
    if isinstance(v, dict):
        out.append(path)
        for k, x in v.items():
            containers_of(x, path + (k,), out)
    elif isinstance(v, list):
        out.append(path)
        for i, x in enumerate(v):
            containers_of(x, path + (i,), out)
    return out


def restructure(rng, v):
    """(w, how): a copy of the literal `v` that differs from it at exactly one point of its structure"""
    w = copy.deepcopy(v)
    spots = containers_of(w)
    if not spots:
        return rng.choice([x for x in SCALARS + [[], {}] if x is not v and not (x == v and type(x) is type(v))]), "scalar-replaced"
    path = rng.choice(spots)
    parent, c = None, w
    for p in path:
        parent, c = c, c[p]

    def put(new):
        nonlocal w
        if parent is None:
            w = new
        else:
            parent[path[-1]] = new
    if isinstance(c, dict):
        how = rng.choice(["member-added", "member-added", "member-dropped", "member-changed", "members-reordered", "empty-kind"])
        if how == "member-added" or not c:
            if not c and how == "empty-kind":
                put([])
                return w, "empty-object-to-empty-array"
            fresh = next(k for k in LITERAL_KEYS + ["k%d" % len(c)] if k not in c)
            c[fresh] = rng.choice(SCALARS + [[], {}])
            return w, "object-member-added"
        if how == "member-dropped":
            del c[rng.choice(list(c))]
            return w, "object-member-dropped"
        if how == "members-reordered" and len(c) >= 2:
            put(dict(reversed(list(c.items()))))
            return w, "object-members-reordered"
        k = rng.choice(list(c))
        c[k] = rng.choice([x for x in SCALARS + [[], {}] if not (x == c[k] and type(x) is type(c[k]))])
        return w, "object-member-changed"
    how = rng.choice(["element-added", "element-added", "element-dropped", "element-changed", "empty-kind"])
    if how == "element-added" or not c:
        if not c and how == "empty-kind":
            put({})
            return w, "empty-array-to-empty-object"
        c.append(rng.choice(SCALARS + [[], {}]))
        return w, "array-element-added"
    if how == "element-dropped":
        c.pop(rng.randrange(len(c)))
        return w, "array-element-dropped"
    i = rng.randrange(len(c))
    c[i] = rng.choice([x for x in SCALARS + [[], {}] if not (x == c[i] and type(x) is type(c[i]))])
    return w, "array-element-changed"


def literal_slots(node):
    """the literal keywords the node's class takes"""
    cls = node["cls"]
    if cls == "Nothing":
        return []
    if cls in ("AnyOf", "OneOf", "AllOf", "Not"):
        return ["default"]
    return ["const", "default", "enum"]


def empty_keyword_options(node):
    """keywords that may be given an empty value on this node and are absent from it now: (name, setter)"""
    cls, kw = node["cls"], node.get("kw", {})
    out = []
    if cls in ("Element", "Array") and "itemsKind" not in kw:
        out.append("items")
    if cls in ("Element", "Object") and "required" not in kw:
        out.append("required")
    if cls == "Element" and not kw.get("hasProps"):
        out.append("properties")
    if cls in ("Element", "Object") and not kw.get("hasPatProps"):
        out.append("patternProperties")
    if cls in ("Element", "Object") and not kw.get("hasDeps"):
        out.append("dependencies")
    return out


def literal_pair(rng, dg, dump):
    """(da, db, kind, probe values): one tree twice, the two differing in the structure of one literal, or in one keyword that
    is absent on one side and present with an empty / falsy value on the other"""
    da = copy.deepcopy(dump)
    spots = [p for p in nodes(da) if get(da, p)["cls"] != "Nothing"]
    if not spots:
        da = {"cls": "Element", "kw": {}}
        spots = [()]
    mode = rng.choice(["structure", "structure", "empty-vs-absent", "empty-keyword"])
    if mode == "empty-keyword":
        spots = [p for p in spots if empty_keyword_options(get(da, p))] or spots
    path = () if rng.random() < 0.4 and () in spots else rng.choice(spots)
    na = get(da, path)
    na.setdefault("kw", {})
    slots = literal_slots(na)
    probes = []
    if mode == "empty-keyword":
        opts = empty_keyword_options(na)
        if not opts:
            mode = "empty-vs-absent"
        else:
            name = rng.choice(opts)
            if name == "items" and "addItems" not in na and rng.random() < 0.6:
                na["kw"]["addItemsB"] = False        # both sides: what the (empty) tuple does not cover is refused
            db = copy.deepcopy(da)
            nb = get(db, path)
            if name == "items":
                nb["kw"]["itemsKind"] = "tuple"
            elif name == "required":
                nb["kw"]["required"] = []
            else:
                nb["kw"][{"properties": "hasProps", "patternProperties": "hasPatProps", "dependencies": "hasDeps"}[name]] = True
            return da, db, "empty-" + name + "-vs-absent", [[], [1], ["a", None], {}, {"a": 1}]
    slot = rng.choice(slots)
    if mode == "empty-vs-absent":
        db = copy.deepcopy(da)
        nb = get(db, path)
        if slot == "enum":
            na["kw"].pop("enum", None)
            nb["kw"]["enum"] = []
            return da, db, "empty-enum-vs-absent", [None, "a", [], {}]
        v = rng.choice(FALSY_LITERALS)
        na["kw"].pop(slot, None)
        nb["kw"][slot] = core.enc_val(v)
        return da, db, "falsy-" + slot + "-vs-absent", [v, [v], {"a": v}, [], {}, [1], {"a": 1}, "", "a", None]
    v = container_literal(rng, dg.sg)
    w, how = restructure(rng, v)
    db = copy.deepcopy(da)
    nb = get(db, path)
    if slot == "enum":
        others = [core.enc_val(rng.choice(SCALARS)) for _ in range(rng.choice([0, 1, 2]))]
        at = rng.randrange(len(others) + 1)
        na["kw"]["enum"] = others[:at] + [core.enc_val(v)] + others[at:]
        nb["kw"]["enum"] = copy.deepcopy(others[:at]) + [core.enc_val(w)] + copy.deepcopy(others[at:])
    else:
        na["kw"][slot] = core.enc_val(v)
        nb["kw"][slot] = core.enc_val(w)
    probes = [v, w, [v], [w], {"a": v}, {"a": w}]
    if rng.random() < 0.5:
        da, db = db, da            # which side holds the larger literal must not matter
    return da, db, "literal-" + how, probes


def normalize_titles(doc, merge=False):
    """(`merge`: for trees that share one class object between several positions, compared with trees holding equal classes of
    their own there - "sharing one class between equal object schemas never changes meaning" - definitions that are the same
    document up to names count once.)
    Compare serializations as JSON Schemas, not as Python objects: member order of objects is immaterial,
    numbers compare by value (2 == 2.0, but true != 1), `required` is a set; class names are not part of
    equality, so titles / $ref targets are blanked."""
    if isinstance(doc, bool) or doc is None or isinstance(doc, str):
        return doc
    if isinstance(doc, (int, float)):
        if isinstance(doc, float) and (doc != doc or doc in (float("inf"), float("-inf"))):
            return ("num", repr(doc))
        return ("num", str(Fraction(doc)))      # exact value: 2**53 and 2.0**53 are the same JSON number
    if isinstance(doc, dict):
        out = {}
        for k, v in sorted(doc.items()):
            if k == "required" and isinstance(v, list):
                out[k] = sorted(v)
                continue
            if k == "title":
                continue
            if k == "$ref" and isinstance(v, str):
                out[k] = "#/definitions/*"
            elif k == "definitions" and isinstance(v, dict):
                defs = [json.dumps(normalize_titles(x, merge), sort_keys=True, default=str) for x in v.values()]
                out[k] = sorted(set(defs) if merge else defs)
            else:
                out[k] = normalize_titles(v, merge)
        return out
    if isinstance(doc, list):
        return [normalize_titles(v, merge) for v in doc]
    return doc


def has_bool_num_confusion(a, b):
    """do the dumps differ, and only where one literal holds a bool and the other the number equal to it
    (True/1, False/0, also 1.0 / 0.0) — the region of the recorded finding, whatever mutation produced the pair"""
    diffs = []

    def num_of(x):
        if isinstance(x, dict) and set(x) == {"i"}:
            return int(x["i"])
        if isinstance(x, dict) and set(x) == {"f"}:
            n, d = int(x["f"][0]), int(x["f"][1])
            return n / d if d else None
        return None

    def walk(p, q):
        if isinstance(p, bool) or isinstance(q, bool):
            if isinstance(p, bool) and isinstance(q, bool):
                if p != q:
                    diffs.append(False)
                return
            other = q if isinstance(p, bool) else p
            flag = p if isinstance(p, bool) else q
            n = num_of(other)
            diffs.append(n is not None and n == (1 if flag else 0))
            return
        if type(p) is not type(q):
            diffs.append(False)
            return
        if isinstance(p, dict):
            if num_of(p) is not None or num_of(q) is not None:
                if p != q:
                    diffs.append(False)
                return
            if set(p) != set(q):
                diffs.append(False)
                return
            for k in p:
                walk(p[k], q[k])
        elif isinstance(p, list):
            if len(p) != len(q):
                diffs.append(False)
                return
            for u, v in zip(p, q):
                walk(u, v)
        elif p != q:
            diffs.append(False)
    walk(a, b)
    return bool(diffs) and all(diffs)


def only_multipleof_spelling(a, b):
    """do the dumps differ, and only in the int / float spelling of equal `multipleOf` parameters — the region of the
    finding C17-int-float-multipleOf"""
    diffs = []

    def num_of(x):
        if isinstance(x, dict) and set(x) == {"i"}:
            return int(x["i"])
        if isinstance(x, dict) and set(x) == {"f"}:
            n, d = int(x["f"][0]), int(x["f"][1])
            return (n, d) if d else None
        return None

    def same_number(p, q):
        m, n = num_of(p), num_of(q)
        if m is None or n is None or type(m) is type(n):
            return False
        i, f = (m, n) if isinstance(m, int) else (n, m)
        return f[0] == i * f[1]

    def walk(p, q, key=None):
        if type(p) is not type(q):
            diffs.append(False)
        elif isinstance(p, dict):
            if p != q and key == "multipleOf" and same_number(p, q):
                diffs.append(True)
            elif set(p) != set(q):
                diffs.append(False)
            else:
                for k in p:
                    walk(p[k], q[k], k)
        elif isinstance(p, list):
            if len(p) != len(q):
                diffs.append(False)
            else:
                for u, v in zip(p, q):
                    walk(u, v, key if key != "multipleOf" else None)
        elif p != q:
            diffs.append(False)
    walk(a, b)
    return bool(diffs) and all(diffs)


def without_class_names(d):
    if isinstance(d, dict):
        return {k: ("" if k == "name" and d.get("cls") == "Object" else without_class_names(v)) for k, v in d.items()}
    if isinstance(d, list):
        return [without_class_names(v) for v in d]
    return d


def model_verdicts(drv, dump, el, v):
    """the Lean model's verdict for one call (None when the driver cannot say)"""
    if core.outside_additional_properties_model(dump):
        return None
    try:
        pats, fmts = core.elem_patterns_formats(el)
        texts = set()
        if not isinstance(v, core.NotPassed):
            core.all_strings(v, texts)
        core.all_strings(dump, texts)
        rep = drv.ask({"op": "elem_call", "elem": dump, "args": [core.enc_arg(v)], "tables": core.make_tables(pats, fmts, sorted(texts))})
        return rep["results"][0]["r"] if "error" not in rep else None
    except Exception:  # noqa: BLE001
        return None


BIG_ODD = [2 ** 53 + 1, 2 ** 53 + 3, -(2 ** 53) - 1, 3 * 2 ** 53 + 3, 2 ** 60 + 5, 10 ** 17 + 1, 10 ** 22 + 7]


def has_multiple_of(d):
    if isinstance(d, dict):
        return "multipleOf" in d or any(has_multiple_of(v) for v in d.values())
    if isinstance(d, list):
        return any(has_multiple_of(v) for v in d)
    return False


def build_aliased(dump, groups):
    """the real tree of `dump` in which, for every group of paths, ONE element object sits at all the paths of the group
    (the sub-dumps there are equal, so the tree has the very same dump as an independent build)"""
    cache = {}
    for group in groups or []:
        subs = [get(dump, p) for p in group]
        if any(json.dumps(x, sort_keys=True) != json.dumps(subs[0], sort_keys=True) for x in subs):
            raise ValueError("aliased positions hold different sub-trees")
        shared = dsl.build(subs[0])
        for x in subs:
            cache[id(x)] = shared
    return dsl.build(dump, cache)


def repeated_objects(el):
    """how many element objects occupy more than one position of the real tree (walks the attributes `==` looks at)"""
    from statham.schema.elements import Element as _El
    from statham.schema.property import _Property as _Pr
    seen = {}

    def walk(x, depth=0):
        if depth > 40:
            return
        if isinstance(x, _Pr):
            walk(x.element, depth + 1)
        elif isinstance(x, _El):
            seen[id(x)] = seen.get(id(x), 0) + 1
            if seen[id(x)] > 1:
                return
            for k, v in list(vars(x).items()):
                if not k.startswith("_") or k == "_properties":
                    walk(v, depth + 1)
        elif isinstance(x, dict):
            for v in list(x.values()):
                walk(v, depth + 1)
        elif isinstance(x, (list, tuple)):
            for v in x:
                walk(v, depth + 1)
    walk(el)
    return sum(1 for n in seen.values() if n > 1)


def check_pair(drv, da, db, kind, values, out, stats, built=None, extra=None, served_first=False, alias=None):
    try:
        if built is not None:
            a, b = built
        elif alias:
            a, b = build_aliased(da, alias.get("a")), build_aliased(db, alias.get("b"))
        else:
            a, b = dsl.build(da), dsl.build(db)
    except Exception as exc:  # noqa: BLE001
        stats["unbuildable-" + type(exc).__name__] = stats.get("unbuildable-" + type(exc).__name__, 0) + 1
        return
    if core.dump_elem(a) != da or core.dump_elem(b) != db:
        stats["dump-not-canonical"] = stats.get("dump-not-canonical", 0) + 1
        da, db = core.dump_elem(a), core.dump_elem(b)
    if served_first:
        # one of the two has already been serialized and printed (an uneven history must not show in equality)
        for fn in (serialize_json, serialize_python, repr):
            try:
                fn(a)
            except Exception:  # noqa: BLE001
                pass
        stats["one-side-serialized-first"] = stats.get("one-side-serialized-first", 0) + 1
    real = {"eq": bool(a == b), "eq_rev": bool(b == a)}
    rep = drv.ask({"op": "elem_eq", "a": da, "b": db})
    case = {"a": da, "b": db, "mutation": kind, **(extra or {})}
    if served_first:
        case["first_serialized_before_comparison"] = True
    if alias:
        case["alias"] = {side: [[list(p) for p in g] for g in groups] for side, groups in alias.items() if groups}
        for side, el in (("a", a), ("b", b)):
            if alias.get(side):
                key = "aliased-side-%s-really-shares-an-object" % side if repeated_objects(el) else "aliased-side-%s-NOT-shared" % side
                stats[key] = stats.get(key, 0) + 1
    out.note_case(case, kind != "identical")
    stats["pairs-" + kind] = stats.get("pairs-" + kind, 0) + 1
    stats["equal" if real["eq"] else "unequal"] = stats.get("equal" if real["eq"] else "unequal", 0) + 1
    if "error" in rep:
        stats["driver-error"] = stats.get("driver-error", 0) + 1
        return
    out.traces_validated += 1
    anon_same = bool(rep.pop("anon_same", False))     # hypothesis of C17_partial_congruence (same tree up to attribute and class names)
    if anon_same:
        stats["same-up-to-names"] = stats.get("same-up-to-names", 0) + 1
    agree = rep == real
    if not agree:
        out.disagreements.append({"what": "equality", "impl": real, "model": rep, **case})
    if real["eq"] != real["eq_rev"]:
        out.failures.append({"case": case, "what": f"equality is not symmetric: a==b is {real['eq']}, b==a is {real['eq_rev']}", "finding": None})
        return
    if (kind == "identical" or kind.endswith("all-equal")) and not real["eq"]:
        out.failures.append({"case": case, "what": "independently built copies of one schema are not equal", "finding": None})
        return
    if not real["eq"]:
        if anon_same:
            # not `==` (attribute names are dict keys), but the same tree up to names: C17_partial_congruence still applies
            for v in values:
                ra, rb = core.real_call(a, v), core.real_call(b, v)
                if ra["r"] in ("ok", "reject") and rb["r"] in ("ok", "reject"):
                    stats["theorem-instances-on-real-code"] = stats.get("theorem-instances-on-real-code", 0) + 1
                    if ra["r"] != rb["r"]:
                        out.failures.append({"case": {**case, "value": core.enc_arg(v)}, "finding": None,
                                             "what": f"two trees that are the same up to attribute and class names disagree on a value: {ra['r']} vs {rb['r']}"})
                        return
        return
    # (aliased family: the side with elements of its own carries class names of its own - names are not part of equality and
    # are no difference between the trees as far as the regions of the listed findings go)
    ra_, rb_ = (without_class_names(da), without_class_names(db)) if alias else (da, db)
    region = "C17-bool-number-literals" if kind in ("lookalike",) or has_bool_num_confusion(ra_, rb_) else None
    spelling = region is None and only_multipleof_spelling(ra_, rb_)
    if has_multiple_of(da) or has_multiple_of(db):
        # integers no double represents: exact `%` and the floating-point quotient part ways there
        values = list(values) + BIG_ODD + [{"a": BIG_ODD[0]}, [BIG_ODD[1]]]
        stats["pairs-with-multipleOf"] = stats.get("pairs-with-multipleOf", 0) + 1
    for v in values:
        ra, rb = core.real_call(a, v), core.real_call(b, v)
        if anon_same and ra["r"] in ("ok", "reject") and rb["r"] in ("ok", "reject"):
            stats["theorem-instances-on-real-code"] = stats.get("theorem-instances-on-real-code", 0) + 1
            if ra["r"] != rb["r"]:
                # inside the hypothesis of C17_partial_congruence no region applies
                out.failures.append({"case": {**case, "value": core.enc_arg(v)}, "finding": None,
                                     "what": f"two trees that are the same up to attribute and class names disagree on a value: {ra['r']} vs {rb['r']}"})
                return
        if ra["r"] in ("ok", "reject") and rb["r"] in ("ok", "reject") and ra["r"] != rb["r"]:
            if spelling:
                # the listed finding covers the pair only where the model predicts this very disagreement
                ma, mb = model_verdicts(drv, da, a, v), model_verdicts(drv, db, b, v)
                if (ma, mb) == (ra["r"], rb["r"]):
                    region = "C17-int-float-multipleOf"
            out.failures.append({"case": {**case, "value": core.enc_arg(v)}, "what": f"equal elements disagree on a value: {ra['r']} vs {rb['r']}",
                                 "finding": region if agree else None})
            stats["oracle-fail-" + str(region if agree else None)] = stats.get("oracle-fail-" + str(region if agree else None), 0) + 1
            return
    try:
        ja, jb = serialize_json(a), serialize_json(b)
    except TypeError:
        return
    merge = bool(alias)
    if repr(normalize_titles(_plain(ja), merge)) != repr(normalize_titles(_plain(jb), merge)):
        out.failures.append({"case": case, "what": "equal elements serialize to different JSON Schemas", "finding": region if agree else ("C17-number-spelling" if False else None)})
        stats["oracle-fail-serialize"] = stats.get("oracle-fail-serialize", 0) + 1
        return
    # "replacing an element by a reference to an equal definition never changes meaning": put each of the two equal elements at
    # the same place of one wrapper and serialize next to the same `definitions`, which hold an element equal to both (the first,
    # then the second, of the pair).  Whichever of the two sits in the tree, the document must be the same JSON Schema.
    from statham.schema.elements import Array as _Arr, Element as _El
    from statham.schema.property import Property as _P
    for which, defn in (("first", a), ("second", b)):
        for wrap_name, wrap in (("array items", lambda e: _Arr(e, minItems=1)), ("property", lambda e: _El(properties={"thing": _P(e)}))):
            try:
                wa = serialize_json(wrap(a), definitions={"shared_def": defn})
                wb = serialize_json(wrap(b), definitions={"shared_def": defn})
            except TypeError:
                stats["with-definitions-unserializable"] = stats.get("with-definitions-unserializable", 0) + 1
                continue
            stats["equal-pairs-serialized-next-to-an-equal-definition"] = stats.get("equal-pairs-serialized-next-to-an-equal-definition", 0) + 1
            if _plain(ja) != _plain(jb) or repr(a) != repr(b):
                stats["...of-which-spelled-differently"] = stats.get("...of-which-spelled-differently", 0) + 1
            if repr(normalize_titles(_plain(wa), merge)) != repr(normalize_titles(_plain(wb), merge)):
                out.failures.append({"case": case, "finding": None,
                                     "what": f"equal elements, put in the same place ({wrap_name}) and serialized with the same definitions (holding the {which} "
                                             f"of the two), give different JSON Schemas: {json.dumps(_plain(wa), sort_keys=True, default=str)[:300]} vs "
                                             f"{json.dumps(_plain(wb), sort_keys=True, default=str)[:300]}"})
                stats["oracle-fail-serialize-with-definitions"] = stats.get("oracle-fail-serialize-with-definitions", 0) + 1
                return


ALIAS_SHAPES = ["props", "props", "class-props", "tuple", "composition", "patProps", "items+contains", "nested", "deps+addProps"]


def aliased_pair(rng, dg):
    """(da, db, kind, alias): a container in which ONE element object occupies 2-3 positions (what `shared = String(...)` used
    twice gives, and what the parser's de-duplication gives for equal sub-schemas), against a container of the same shape whose
    positions hold elements of their own - all equal to the shared one, or one of them (the first, or a later one) mutated at a
    single point.  Either side may be the aliased one; in the all-equal case both may be."""
    sub = unique_class_names(dg.dump(rng.choice([0, 1, 1, 2])))
    n = rng.choice([2, 2, 3])
    shape = rng.choice(ALIAS_SHAPES)
    if shape in ("items+contains", "deps+addProps"):
        n = 2
    names = ["a", "b", "c"]

    def container(subs):
        if shape == "props":
            return {"cls": "Element", "kw": {"hasProps": True}, "props": [[{"name": names[i], "source": names[i]}, x] for i, x in enumerate(subs)]}
        if shape == "class-props":
            return {"cls": "Object", "name": "Holder", "kw": {"hasProps": True},
                    "props": [[{"name": names[i], "source": names[i]}, x] for i, x in enumerate(subs)]}
        if shape == "tuple":
            return {"cls": tuple_cls, "kw": {"itemsKind": "tuple"}, "items": list(subs)}
        if shape == "composition":
            return {"cls": comp_cls, "kw": {}, "elements": list(subs)}
        if shape == "patProps":
            return {"cls": "Element", "kw": {"hasPatProps": True}, "patProps": [[{"name": "^" + names[i]}, x] for i, x in enumerate(subs)]}
        if shape == "items+contains":
            return {"cls": "Array", "kw": {"itemsKind": "single"}, "items": [subs[0]], "contains": subs[1]}
        if shape == "deps+addProps":
            return {"cls": "Element", "kw": {"hasDeps": True}, "deps": [[{"name": "a"}, subs[0]]], "addProps": subs[1]}
        inner = {"cls": "Array", "kw": {"itemsKind": "single"}, "items": [subs[1]]}
        rest = [[{"name": names[i], "source": names[i]}, x] for i, x in enumerate(subs) if i >= 2]
        return {"cls": "Element", "kw": {"hasProps": True}, "props": [[{"name": "a", "source": "a"}, subs[0]], [{"name": "b", "source": "b"}, inner]] + rest}
    tuple_cls, comp_cls = rng.choice(["Array", "Element"]), rng.choice(["AnyOf", "OneOf", "AllOf"])
    if shape in ("props", "class-props"):
        paths = [["props", i, 1] for i in range(n)]
    elif shape == "tuple":
        paths = [["items", i] for i in range(n)]
    elif shape == "composition":
        paths = [["elements", i] for i in range(n)]
    elif shape == "patProps":
        paths = [["patProps", i, 1] for i in range(n)]
    elif shape == "items+contains":
        paths = [["items", 0], ["contains"]]
    elif shape == "deps+addProps":
        paths = [["deps", 0, 1], ["addProps"]]
    else:
        paths = [["props", 0, 1], ["props", 1, 1, "items", 0]] + [["props", i, 1] for i in range(2, n)]
    da = container([copy.deepcopy(sub) for _ in range(n)])
    where = rng.choice([None, 0] + list(range(1, n)) * 2)       # which occurrence differs on the other side (None: none)
    kind = "same"
    mutated = None
    if where is not None:
        mutated, kind = mutate(rng, sub, dg)
    b_shared = [i for i in range(n) if i != where] if rng.random() < 0.4 else []
    if len(b_shared) < 2:
        b_shared = []
    subs_b = []
    for i in range(n):
        x = copy.deepcopy(mutated if i == where else sub)
        if i not in b_shared:
            unique_class_names(x, [100 * (i + 1)])          # a class of its own under a name of its own
        subs_b.append(x)
    db = container(subs_b)
    alias = {"a": [paths], "b": [[paths[i] for i in b_shared]] if b_shared else []}
    label = "aliased-vs-" + ("all-equal" if where is None else "first-occurrence-mutated" if where == 0 else "later-occurrence-mutated")
    if rng.random() < 0.5:
        da, db, alias = db, da, {"a": alias["b"], "b": alias["a"]}
    return da, db, label, alias, shape, kind


def inherited_table():
    from statham.schema.elements import Integer as _Int, String as _Str
    return [("maxProperties", 2, 4), ("minProperties", 0, 2), ("required", ["a"], ["a", "b"]), ("const", {"a": 1}, {"a": 2}),
            ("enum", [{"a": 1}], [{"a": 1}, {"b": 2}]), ("default", {"a": 1}, {"a": 2}),
            ("patternProperties", {"^x": _Str()}, {"^x": _Int()}), ("propertyNames", _Str(maxLength=1), _Str(maxLength=3)),
            ("dependencies", {"a": ["b"]}, {"a": ["c"]}), ("description", "one", "two"), ("additionalProperties", False, True)]


def build_inherited(idx, variant):
    """two classes `Item` with one body; keyword `idx` arrives from an intermediate base (variant 0), from two levels up
    (variant 1), or only one of them has it (variant 2)"""
    from statham.schema.elements import Integer as _Int, Object as _Obj, String as _Str
    from statham.schema.elements.meta import ObjectClassDict as _OCD, ObjectMeta as _OM
    from statham.schema.property import Property as _P
    kwname, v1, v2 = inherited_table()[idx]
    base_a = _OM("Narrow", (_Obj,), _OCD(), **{kwname: v1})
    base_b = _OM("Wide", (_Obj,), _OCD(), **({kwname: v2} if variant != 2 else {}))
    if variant == 1:
        base_a = _OM("NarrowMid", (base_a,), _OCD())
        base_b = _OM("WideMid", (base_b,), _OCD())
    ca, cb = _OCD(), _OCD()
    for cd in (ca, cb):
        cd["a"] = _P(_Int())
        cd["b"] = _P(_Str())
    return _OM("Item", (base_a,), ca), _OM("Item", (base_b,), cb)


INHERITED_VALUES = [{}, {"a": 1}, {"a": 2}, {"a": 1, "b": "s"}, {"a": 1, "b": "s", "c": 3}, {"a": 1, "b": "s", "c": 3, "d": 4}, {"x1": "s"}, {"x1": 1},
                    {"b": 2}, {"abc": 1}, {"a": 1, "c": 1}]


def _plain(x):
    if isinstance(x, dict):
        return {k: _plain(v) for k, v in x.items()}
    if isinstance(x, (list, tuple)):
        return [_plain(v) for v in x]
    return x


def run(ctx, scale=1.0):
    rng = random.Random(ctx["seed"] + 17)
    out = Outcome()
    out.rule = ("pairs of DSL-built trees: (tree, independent rebuild) and (tree, single-point mutation: numeric keyword, flag, literal, "
                "bool/number lookalike inside a literal, property required/source, element class, property order, enum order, description, "
                "added sub-element, explicit required list); pairs sharing one element object; pairs of classes with one body whose keywords "
                "arrive by inheritance (11 keywords x same / deeper / absent); used-then-reconfigured vs fresh; 6+ values per equal pair; "
                "pairs differing in the structure of one const / default / enum literal (object member or array element added, dropped, changed, "
                "reordered; empty array vs empty object) and pairs where one keyword is absent on one side and empty or falsy on the other "
                "(const, default, enum, items, required, properties, patternProperties, dependencies); "
                "trees in which ONE element object occupies 2-3 positions (properties of an element / of a class, tuple items, composition "
                "members, patternProperties, items+contains, dependencies+additionalProperties, nested) against trees of the same shape built "
                "from independent elements, all equal or one occurrence (first / later) mutated at a single point, either side aliased; "
                "every equal pair also serialized inside one wrapper (array items, property) next to `definitions` holding an equal element; "
                "a case is one pair; non-trivial = mutated; distinct by SHA-256")
    stats = {}
    drv = core.Driver()
    try:
        vg, dg = ValueGen(rng), dsl.DumpGen(rng)
        for i in range(int(N_PAIRS[ctx["tier"]] * scale)):
            # class names unique within a tree: the serializers key definitions by name (their documented assumption;
            # two different classes under one name are C03's finding, not an equality matter)
            da = unique_class_names(dg.dump(3))
            values = vg.values(dump_to_schema(da), 5) + [1, True, 1.0, [True], [1], {"a": True}, {"a": 1}, 0, False]
            if i % 5 == 0:
                check_pair(drv, da, copy.deepcopy(da), "identical", values, out, stats, served_first=(i % 2 == 0))
            else:
                db, kind = mutate(rng, da, dg)
                check_pair(drv, da, db, kind, values, out, stats, served_first=(i % 4 == 1))
        # compositions and tuples whose members are the same elements in another order, or repeated differently
        for i in range(int(80 * scale)):
            members = []
            while len(members) < rng.choice([2, 3]):
                m = dg.leaf()
                if all(json.dumps(m, sort_keys=True) != json.dumps(x, sort_keys=True) for x in members):
                    members.append(m)
            how = i % 4
            if how == 0:
                ea, eb, kind = members, list(reversed(members)), "members-reordered"
            elif how == 1:
                ea, eb, kind = [members[0], members[0]] + members[1:], [members[0]] + members[1:] + [members[-1]], "members-repeated"
            elif how == 2:
                ea, eb, kind = members, members + [members[0]], "member-repeated-once"
            else:
                ea, eb, kind = members, list(reversed(members)), "tuple-items-reordered"
            if how == 3:
                da = {"cls": rng.choice(["Array", "Element"]), "kw": {"itemsKind": "tuple"}, "items": ea}
                db = {**copy.deepcopy(da), "items": eb}
                vals = [[1, "a"], ["a", 1], [None, True], [1], [], [2.5, "x", None]]
            else:
                cls = rng.choice(["AnyOf", "OneOf", "AllOf"])
                da, db = {"cls": cls, "kw": {}, "elements": ea}, {"cls": cls, "kw": {}, "elements": eb}
                vals = [1, "a", None, True, 2.5, [], {}, "abc", 0, -1, 100]
            if rng.random() < 0.4:
                # the same pair one level down, inside a property
                wrap = lambda x: {"cls": "Element", "kw": {"hasProps": True}, "props": [[{"name": "p", "source": "p"}, x]]}
                da, db, vals = wrap(da), wrap(db), [{"p": v} for v in vals]
            check_pair(drv, da, copy.deepcopy(db), kind, vals + vg.values(dump_to_schema(da), 3), out, stats)
        # pairs whose properties hold the *same* element object and differ in a property attribute only
        from statham.schema.elements import Element as _El, Object as _Obj
        from statham.schema.elements.meta import ObjectClassDict as _OCD, ObjectMeta as _OM
        from statham.schema.property import Property as _P
        for i in range(int(40 * scale)):
            shared = dsl.build(dg.dump(1))
            pa = dict(required=rng.random() < 0.5, source=rng.choice([None, "src"]))
            pb = dict(required=not pa["required"], source=pa["source"]) if i % 2 == 0 else dict(required=pa["required"], source="other")
            if i % 3 == 0:
                a = _El(properties={"p": _P(shared, **pa)})
                b = _El(properties={"p": _P(shared, **pb)})
            else:
                ca, cb = _OCD(), _OCD()
                ca["p"] = _P(shared, **pa)
                cb["p"] = _P(shared, **pb)
                a, b = _OM("Holder", (_Obj,), ca), _OM("Holder", (_Obj,), cb)
            check_pair(drv, core.dump_elem(a), core.dump_elem(b), "shared-element-propflag", [{}, {"p": 1}, {"src": 1}, {"other": "x"}, {"p": None}],
                       out, stats, built=(a, b))
        # classes whose keywords arrive by inheritance from an intermediate base: same body, different inherited keyword
        n_inh = len(inherited_table())
        for i in range(int(n_inh * 3 * scale)):
            idx, variant = i % n_inh, (i // n_inh) % 3
            a, b = build_inherited(idx, variant)
            try:
                da_, db_ = core.dump_elem(a), core.dump_elem(b)
            except (TypeError, ValueError, RecursionError):
                continue
            check_pair(drv, da_, db_, "inherited-keyword", INHERITED_VALUES + [core.NP], out, stats, built=(a, b), extra={"inherited": [idx, variant]})
        # an element that has been used and is then reconfigured vs a fresh element with the final configuration
        from harness.props.c13 import reconfig_ops
        for i in range(int(60 * scale)):
            d0 = dg.element(2) if i % 2 == 0 else dg.obj(2)
            a = dsl.build(d0)
            vals = vg.values(dump_to_schema(d0), 4) + [{"a": 1}, 1, "x"]
            for v in vals:
                core.real_call(a, v)
            try:
                for _ in range(rng.choice([1, 2, 3])):
                    reconfig_ops(rng, a, dg)
            except Exception:  # noqa: BLE001
                continue
            # properties put into the container through raw dict methods (`update`, `setdefault`, `|=`) are bound - given their
            # JSON name - by the library at the next validation; C17 speaks of elements as built, so the comparison is made
            # once that has happened (before it, `_Property.source` is still None and `==` tells the element from a fresh copy:
            # recorded in DESIGN §15.8 as an observation, it is C13's and C08's territory, not equality's)
            core.real_call(a, {})
            stats["bound-before-comparison"] = stats.get("bound-before-comparison", 0) + 1
            dfinal = core.dump_elem(a)
            try:
                b = dsl.build(dfinal)
            except Exception:  # noqa: BLE001
                continue
            check_pair(drv, dfinal, core.dump_elem(b), "used-then-reconfigured", vg.values(dump_to_schema(dfinal), 6) + vals, out, stats, built=(a, b))
        # one numeric parameter spelled as an int on one side and as the equal float on the other (2 vs 2.0)
        for i in range(int(40 * scale)):
            name = ["multipleOf", "minimum", "maximum", "exclusiveMinimum", "exclusiveMaximum"][i % 5]
            m = rng.choice([1, 2, 3, 5, 10, 2 ** 53, 7])
            cls = rng.choice(["Element", "Integer", "Number"])
            da = {"cls": cls, "kw": {name: core.enc_val(m)}}
            db = {"cls": cls, "kw": {name: core.enc_val(float(m))}}
            vals = [m, float(m), m + 1, m - 1, 2 * m, 0, 1.5, "s", None] + BIG_ODD
            if i % 3 == 0:
                wrap = lambda x: {"cls": "Array", "kw": {"itemsKind": "single"}, "items": [x]}
                da, db, vals = wrap(da), wrap(db), [[v] for v in vals]
            check_pair(drv, da, db, "num-retype", vals, out, stats)
        # literals that differ in structure (one member / element more or less, another empty container), and keywords that are
        # present with an empty or falsy value on one side and absent on the other
        for i in range(int(260 * scale)):
            base = unique_class_names(dg.dump(rng.choice([0, 1, 2, 2])))
            da, db, kind, probes = literal_pair(rng, dg, base)
            stats["literal-structure-pairs"] = stats.get("literal-structure-pairs", 0) + 1
            check_pair(drv, da, db, kind, probes + vg.values(dump_to_schema(da), 4) + [1, "a", None, [], {}, [1], {"a": 1}], out, stats,
                       served_first=(i % 7 == 3))
        # trees in which one element object occupies several positions (aliasing inside a tree), against trees of the same shape
        # built from independent elements that are equal to it everywhere, or differ at one occurrence
        for i in range(int(220 * scale)):
            da, db, kind, alias, shape, mutation = aliased_pair(rng, dg)
            stats["aliased-tree-pairs"] = stats.get("aliased-tree-pairs", 0) + 1
            stats["aliased-shape-" + shape] = stats.get("aliased-shape-" + shape, 0) + 1
            stats["aliased-occurrence-mutation-" + mutation] = stats.get("aliased-occurrence-mutation-" + mutation, 0) + 1
            try:
                vals = vg.values(dump_to_schema(da), 4) + vg.values(dump_to_schema(db), 3)
            except Exception:  # noqa: BLE001
                vals = []
            check_pair(drv, da, db, kind, vals + [1, "a", None, [], {}, [1, "a"], ["a", 1], {"a": 1}, {"a": "x", "b": "much too long"}, {"b": 1}],
                       out, stats, alias=alias, served_first=(i % 9 == 4))
        # the shape of the recorded finding, and its consequence through de-duplication
        check_pair(drv, {"cls": "Element", "kw": {"const": True}}, {"cls": "Element", "kw": {"const": {"i": "1"}}}, "lookalike",
                   [True, 1, 1.0, 0], out, stats)
    finally:
        drv.close()
    # report the most telling input first: a broken law of `==` or a value the two sides disagree on, before a difference in
    # the serialized text only (stable: the order within each group is the order of discovery)
    out.failures.sort(key=lambda f: 1 if f.get("what", "").startswith("equal elements serialize") else 0)
    out.stats = stats
    return out


def search(ctx, reason):
    sub = dict(ctx)
    sub["seed"] = ctx["seed"] + 141650939
    found = run(sub, scale=3.0 if ctx["tier"] == "quick" else 1.0)
    fresh = [f for f in found.failures if f.get("finding") is None]
    return fresh[0] if fresh else None


def _replay_case(case):
    out, stats = Outcome(), {}
    drv = core.Driver()
    try:
        vals = [dsl.dec_val(case["value"])] if "value" in case else [True, 1, 1.0, 0, False, [True], [1]]
        built = None
        if "inherited" in case:
            built = build_inherited(*case["inherited"])
            vals = vals + INHERITED_VALUES
        check_pair(drv, case["a"], case["b"], case.get("mutation", "replay"), vals, out, stats, built=built,
                   served_first=bool(case.get("first_serialized_before_comparison")), alias=case.get("alias"))
    finally:
        drv.close()
    return out


def replay_finding(finding):
    return bool(_replay_case(finding["witness"]).failures)


def replay(payload):
    case = payload.get("failure", {}).get("case")
    return True if not case else not _replay_case(case).failures
