"""C14 — concurrent validation against shared models equals sequential validation.

Correspondence / exploration (the Lean theorem quantifies over all interleavings of the model's
atomic shared-state steps; this ties the library to that model):
  * controlled scheduler (harness/sched.py): 2-3 real threads validate different values against one
    freshly built shared tree; exactly one thread runs at a time and the harness chooses after
    which library line each switch happens (1, 2 or many preemptions; every preemption point of
    the first thread is reachable).  Each thread's results must equal the results of the same
    calls made alone on a fresh identical tree, and the tree's dump must be unchanged.
  * free-running stress: 6 threads, tiny switch interval, same comparison.
Trees: DSL-built dumps, parsed schemas, model classes; focused families for defaults (incl. first
use), additional / pattern properties with nested validation, tuple items, compositions; and one
family outside the theorem's hypothesis (one Property object placed under two names).
Further input families: numeric keywords over the whole magnitude ladder (arithmetic whose outcome could depend on per-thread
interpreter settings), `contains` scans with different answers in flight at once, model classes whose declared properties hold
arrays.
Histories: the concurrent calls need not be the first thing that happens to the library.  A scenario may carry a pre-history -
calls made one after the other before the threads start (warm caches), use of the documented extension points (a new Validator
subclass declared, a format checker registered) - applied identically before every run alone and before every concurrent run.
State-directed schedules: each thread's run alone is watched for steps that change state other threads can see (everything
reachable from the tree plus the library's module-level variables, snapshots taken around lines that can store into existing
objects).  When there are such steps, schedules suspend a thread right after its j-th write while another thread is in the
middle of a call of its own (three shapes, j and the resumption enumerated); the interleaving found is reported as a plain
(thread, lines) schedule and re-run under the plain scheduler before it counts."""
import ast
import gc
import os
import random
import sys
import threading
import types
import weakref

from statham.schema.elements import Array, Element, Object, String
from statham.schema.property import Property
from statham.schema.validation.base import Validator
from statham.schema.validation.format import format_checker

from harness import core, dsl, sched, statediff
from harness.framework import Outcome
from harness.gen import SchemaGen, ValueGen
from harness.props.c08 import dump_to_schema

ID = "C14"
# a library change that takes locks can leave the controlled scheduler waiting for a thread that will never move: the run is
# then cut off by the framework watchdog and reported (no-failing-input-found); C14 asks for a shorter limit than the default
RUN_LIMIT_S = {"quick": 600, "thorough": 7200}
TIE_MODULES = ["StathamModel.Tie"]
ASSUMPTIONS = ["PARTIAL: CPython's real preemption granularity (bytecode level, C-level atomicity, the GIL) is not modelled; the controlled scheduler "
               "switches at library line boundaries, the stress runs let the interpreter switch freely",
               "threads only validate (no reconfiguration while calls are in flight)"]
N_SCEN = {"quick": 72, "thorough": 480}
N_SCHED = {"quick": 10, "thorough": 25}
N_DIRECTED = {"quick": 32, "thorough": 120}
_OLD = ["dump", "class", "defaults", "additional", "items", "parsed", "defaults", "additional", "deep", "formats"]
_NEW = ["numeric", "contains", "model-arrays"]
FAMILIES = _OLD + _NEW + _OLD + _NEW + _OLD      # 36 scenarios: 3 (6 for the doubled ones) of each older family, 2 of each newer one


def enc(v):
    return core.enc_arg(v)


def fam_defaults(rng):
    """valid, non-trivial defaults at several levels; calls with and without values"""
    inner = {"cls": "Object", "name": "Item", "kw": {"hasProps": True},
             "props": [[{"name": "id", "required": True, "source": "id"}, {"cls": "String", "kw": {"minLength": {"i": "1"}}}],
                       [{"name": "kind", "source": "kind"}, {"cls": "String", "kw": {"default": "plain"}}]]}
    shape = rng.randrange(4)
    if shape == 0:
        dump = {"cls": "Array", "kw": {"itemsKind": "single", "default": core.enc_val([{"id": "a"}, {"id": "b", "kind": "x"}])}, "items": [inner]}
        vals = [core.NP, [{"id": "z"}], core.NP, []]
    elif shape == 1:
        dump = {"cls": "Element", "kw": {"hasProps": True, "default": core.enc_val({"item": {"id": "q"}})},
                "props": [[{"name": "item", "source": "item"}, inner], [{"name": "n", "source": "n"}, {"cls": "Integer", "kw": {"default": {"i": "3"}}}]]}
        vals = [core.NP, {"item": {"id": "w"}}, {}, core.NP]
    elif shape == 2:
        dump = dict(inner, kw={"hasProps": True, "default": core.enc_val({"id": "dflt"})})
        vals = [core.NP, {"id": "v"}, core.NP, {"id": "u", "kind": "k"}]
    else:
        dump = {"cls": "AnyOf", "kw": {"default": core.enc_val({"id": "any"})}, "elements": [inner, {"cls": "String", "kw": {}}]}
        vals = [core.NP, "s", {"id": "t"}, core.NP]
    return dump, vals


def fam_additional(rng):
    """keys that only additionalProperties / patternProperties cover, nested validation underneath"""
    nested = rng.choice([{"cls": "String", "kw": {"minLength": {"i": "1"}}},
                         {"cls": "Element", "kw": {"hasProps": True}, "props": [[{"name": "x", "source": "x"}, {"cls": "Integer", "kw": {}}]]},
                         {"cls": "Array", "kw": {"itemsKind": "single"}, "items": [{"cls": "String", "kw": {}}]}])
    cls = rng.random() < 0.5
    dump = {"cls": "Object" if cls else "Element", "kw": {"hasProps": True},
            "props": [[{"name": "name", "source": "name"}, {"cls": "String", "kw": {}}]], "addProps": nested}
    if cls:
        dump["name"] = "Conf"
    if rng.random() < 0.5:
        dump["kw"]["hasPatProps"] = True
        dump["patProps"] = [[{"name": "^p_"}, {"cls": "String", "kw": {"maxLength": {"i": "5"}}}]]
    ok = {"String": "val", "Element": {"x": 1}, "Array": ["a", "b"]}[nested["cls"]]
    keys = ["env", "tier", "zone", "p_a", "p_b", "k"]
    vals = [{"name": "n%d" % i, rng.choice(keys): ok, **({rng.choice(keys): ok} if rng.random() < 0.4 else {})} for i in range(4)]
    return dump, vals


def fam_items(rng):
    dump = {"cls": "Array", "kw": {"itemsKind": "tuple"},
            "items": [{"cls": "String", "kw": {}}, {"cls": "Element", "kw": {"hasProps": True}, "props": [[{"name": "a", "source": "a"}, {"cls": "Integer", "kw": {"default": {"i": "1"}}}]]}],
            "addItems": {"cls": "Integer", "kw": {}}}
    vals = [["s", {"a": 2}, 3], ["t", {}], ["u", {"a": 5}, 1, 2], [], ["v", {"b": 1}, "bad"]]
    return dump, vals


def fam_formats(rng):
    """formatted strings whose checkers go through library and interpreter state shared by all threads (registries, warning
    filters): every spelling a checker accepts, rejects, or only warns about"""
    fmt = rng.choice(["date-time", "date-time", "uuid", "unknown-fmt"])
    leaf = {"cls": rng.choice(["String", "Element"]), "kw": {"format": fmt}}
    dump = rng.choice([leaf, {"cls": "Array", "kw": {"itemsKind": "single"}, "items": [leaf]},
                       {"cls": "Element", "kw": {"hasProps": True}, "props": [[{"name": "when", "source": "when"}, leaf]]}])
    strings = ["2021-03-04T10:00:00Z", "2021-03-04 10:00 BRST", "2021-03-04T10:00:00 AEDT", "2021-03-04 10:00 NZDT", "2021-03-04T10:00:00+02:00",
               "not a date", "10:00 EST", "123e4567-e89b-12d3-a456-426614174000", "123E4567E89B12D3A456426614174000", ""]
    picks = [rng.choice(strings) for _ in range(5)]
    if dump is leaf:
        return dump, picks
    if dump["cls"] == "Array":
        return dump, [[x] for x in picks] + [picks[:3]]
    return dump, [{"when": x} for x in picks]


def fam_deep(rng):
    """deeply nested values: many calls are in flight at once while a thread is suspended"""
    def nest(depth, leaf):
        v = leaf
        for i in range(depth):
            v = [v] if i % 2 == 0 else {"k": v}
        return v
    dump = rng.choice([{"cls": "Element", "kw": {}},
                       {"cls": "AnyOf", "kw": {}, "elements": [{"cls": "String", "kw": {}}, {"cls": "Element", "kw": {}}]}])
    depths = [rng.choice([40, 55, 70]) for _ in range(4)]
    return dump, [nest(d, rng.choice([1, "x", None])) for d in depths]


def _digits(rng, n):
    return rng.choice([1, -1]) * int(str(rng.randint(1, 9)) + "".join(rng.choice("0123456789") for _ in range(n - 1)))


def fam_numeric(rng):
    """numeric keywords (float and integer multipleOf, bounds) met by numbers from the whole magnitude ladder: integers of 1 to
    320 digits, floats from denormal to 1e300, exact multiples and near misses.  Arithmetic on such numbers may go through
    interpreter facilities whose settings are per thread or per process (decimal contexts, int<->str limits, float overflow)."""
    mult = rng.choice([2.5, 0.1, 0.5, 1.5, 0.75, 1e-3, 2.5e-7, 1e10, 3, 7, 10 ** 20])
    kw = {"multipleOf": core.enc_num(mult)}
    if rng.random() < 0.4:
        kw[rng.choice(["minimum", "exclusiveMinimum"])] = core.enc_num(rng.choice([-(10 ** 40), -1e300, 0, -2.5]))
    if rng.random() < 0.3:
        kw[rng.choice(["maximum", "exclusiveMaximum"])] = core.enc_num(rng.choice([10 ** 45, 1e300, 10 ** 330]))
    leaf = {"cls": rng.choice(["Number", "Element", "Integer"] if isinstance(mult, int) else ["Number", "Element"]), "kw": kw}
    shape = rng.randrange(3)
    nums = []
    for _ in range(7):
        k = rng.random()
        if k < 0.5:
            nums.append(_digits(rng, rng.choice([1, 3, 9, 16, 17, 20, 28, 29, 30, 32, 40, 60, 320])))
        elif k < 0.7:
            nums.append(rng.choice([1, 3, 7, 9]) * rng.random() * 10.0 ** rng.choice([-320, -30, -9, 0, 9, 15, 17, 22, 30, 300]))
        elif k < 0.85:
            q = _digits(rng, rng.choice([1, 5, 18, 30, 45]))
            nums.append(q * mult if isinstance(mult, int) or abs(q) < 10 ** 300 else q)
        else:
            nums.append(rng.choice([0, 0.0, -0.0, 5, 7.5, 0.3, 10 ** 30, 1e30, 2 ** 1024, 5e-324]))
    nums = [x for x in nums if not (isinstance(x, float) and (x != x or x in (float("inf"), float("-inf"))))]
    if shape == 0:
        return leaf, nums
    if shape == 1:
        dump = {"cls": "Element", "kw": {"hasProps": True}, "props": [[{"name": "amount", "source": "amount"}, leaf],
                                                                        [{"name": "unit", "source": "unit"}, {"cls": "String", "kw": {}}]]}
        return dump, [{"amount": x, "unit": "u"} for x in nums]
    dump = {"cls": "Array", "kw": {"itemsKind": "single"}, "items": [leaf]}
    return dump, [[x] for x in nums[:4]] + [nums[4:]]


def fam_contains(rng):
    """`contains` (alone and beside items / minItems / uniqueItems) on arrays whose only matching item sits first, last, in the
    middle or nowhere: several scans of one element are in flight at once and have different answers"""
    sub, hit, miss = rng.choice([
        ({"cls": "Integer", "kw": {"minimum": {"i": "5"}}}, [5, 9, 100], [1, 2, "s", None, 4, 3.5]),
        ({"cls": "String", "kw": {"pattern": "^a"}}, ["a", "ab"], ["b", "", 1, "ba", None, []]),
        ({"cls": "Element", "kw": {"hasProps": True, "required": ["k"]}, "props": [[{"name": "k", "source": "k"}, {"cls": "Integer", "kw": {}}]]},
         [{"k": 1}, {"k": 2, "z": 0}], [{}, {"k": "no"}, 1, "k", {"z": 1}]),
        ({"cls": "String", "kw": {"format": "date-time"}}, ["2021-03-04T10:00:00Z"], ["not a date", 3, "", None]),
        ({"cls": "Element", "kw": {"const": core.enc_val([1])}}, [[1]], [[2], 1, [1, 1], [], [True]]),
    ])
    kw = {}
    arr = {"cls": rng.choice(["Array", "Element"]), "contains": sub}
    if rng.random() < 0.3:
        kw["itemsKind"] = "single"
        arr["items"] = [{"cls": "Element", "kw": {}}]
    if rng.random() < 0.3:
        kw["minItems"] = {"i": "1"}
    if rng.random() < 0.2:
        kw["uniqueItems"] = True
    arr["kw"] = kw
    vals = []
    for _ in range(5):
        n = rng.choice([1, 2, 3, 5, 8])
        row = [rng.choice(miss) for _ in range(n)]
        where = rng.choice(["none", "none", "first", "last", "middle", "two"])
        if where == "first":
            row[0] = rng.choice(hit)
        elif where == "last":
            row[-1] = rng.choice(hit)
        elif where == "middle":
            row[n // 2] = rng.choice(hit)
        elif where == "two":
            row[0] = rng.choice(hit)
            row[-1] = rng.choice(hit)
        vals.append(row)
    shape = rng.randrange(4)
    if shape == 0:
        return arr, vals
    if shape == 1:
        return {"cls": "Array", "kw": {"itemsKind": "single"}, "items": [arr]}, [[v] for v in vals[:3]] + [vals[3:]]
    key = [{"name": "rows", "source": "rows"}, arr]
    other = [{"name": "id", "source": "id"}, {"cls": "String", "kw": {}}]
    if shape == 2:
        return {"cls": "Element", "kw": {"hasProps": True}, "props": [other, key]}, [{"id": "i%d" % i, "rows": v} for i, v in enumerate(vals)]
    return {"cls": "Object", "name": "Sheet", "kw": {"hasProps": True}, "props": [key, other]}, [{"id": "i%d" % i, "rows": v} for i, v in enumerate(vals)]


def fam_model_arrays(rng):
    """model classes (and anonymous objects) whose declared properties hold arrays - of scalars, of arrays, of nested models -
    before and after scalar properties; documents with empty, short and long arrays, valid and with one bad item"""
    item = {"cls": "Object", "name": "Entry", "kw": {"hasProps": True},
            "props": [[{"name": "id", "required": True, "source": "id"}, {"cls": "String", "kw": {"minLength": {"i": "1"}}}],
                      [{"name": "marks", "source": "marks"}, {"cls": "Array", "kw": {"itemsKind": "single"}, "items": [{"cls": "Integer", "kw": {}}]}]]}
    cands = [
        ("tags", {"cls": "Array", "kw": {"itemsKind": "single"}, "items": [{"cls": "String", "kw": {"minLength": {"i": "1"}}}]},
         lambda: [rng.choice(["a", "bb", "ccc", "", 7]) if rng.random() < 0.15 else rng.choice(["a", "bb", "ccc"]) for _ in range(rng.choice([0, 1, 2, 3, 5]))]),
        ("grid", {"cls": "Array", "kw": {"itemsKind": "single"}, "items": [{"cls": "Array", "kw": {"itemsKind": "single"}, "items": [{"cls": "Integer", "kw": {}}]}]},
         lambda: [[rng.randint(0, 9) for _ in range(rng.randint(0, 3))] for _ in range(rng.choice([0, 1, 2, 3]))]),
        ("entries", {"cls": "Array", "kw": {"itemsKind": "single"}, "items": [item]},
         lambda: [{"id": "e%d" % i, **({"marks": [i, i + 1]} if rng.random() < 0.6 else {})} for i in range(rng.choice([0, 1, 2, 3]))]),
        ("pair", {"cls": "Array", "kw": {"itemsKind": "tuple"}, "items": [{"cls": "String", "kw": {}}, {"cls": "Integer", "kw": {}}]},
         lambda: rng.choice([["x", 1], ["y"], [], ["z", 2, None]])),
    ]
    scalars = [("id", {"cls": "String", "kw": {"minLength": {"i": "1"}}}, lambda: rng.choice(["d1", "d2", "doc"])),
               ("rank", {"cls": "Integer", "kw": {"default": {"i": "0"}}}, lambda: rng.randint(1, 5)),
               ("note", {"cls": "String", "kw": {}}, lambda: rng.choice(["", "n"]))]
    chosen = rng.sample(cands, rng.choice([1, 2, 2, 3])) + rng.sample(scalars, rng.choice([1, 2, 3]))
    rng.shuffle(chosen)
    props = [[{"name": n, "source": n}, d] for n, d, _ in chosen]
    cls = rng.random() < 0.65
    dump = {"cls": "Object" if cls else "Element", "kw": {"hasProps": True}, "props": props}
    if cls:
        dump["name"] = "Doc"
    vals = []
    for _ in range(4):
        doc = {}
        for n, _d, mk in chosen:
            if rng.random() < 0.85:
                doc[n] = mk()
        vals.append(doc)
    return dump, vals


# ----------------------------------------------------------------------------- pre-histories

HISTORY_OPS = ["warm-up", "declare-validator", "register-format"]
_HIST = {"n": 0, "classes": [], "formats": []}


def gen_history(rng, vals):
    """what happened to the library before the threads start: calls made one after the other (caches are warm), the documented
    extension points used (a Validator subclass for a keyword no element carries, a checker for a format no element names:
    neither changes any verdict)"""
    ops = []
    for kind in rng.sample(HISTORY_OPS, rng.choice([1, 1, 2, 3])):
        if kind == "warm-up":
            ops.append({"op": kind, "values": [enc(v) for v in rng.sample(vals, min(len(vals), rng.choice([1, 2])))]})
        else:
            ops.append({"op": kind})
    return ops


def dec_arg(v):
    return core.NP if isinstance(v, dict) and "np" in v else dsl.dec_val(v)


def apply_history(history, tree):
    for op in history or []:
        _HIST["n"] += 1
        n = _HIST["n"]
        if op["op"] == "declare-validator":
            _HIST["classes"].append(type("HarnessKeyword%d" % n, (Validator,), {"keywords": ("x-harness-keyword-%d" % n,), "message": "unused"}))
        elif op["op"] == "register-format":
            name = "x-harness-format-%d" % n
            format_checker.register(name)(lambda value: True)
            _HIST["formats"].append(name)
        elif op["op"] == "warm-up":
            for v in op["values"]:
                core.real_call(tree, dec_arg(v))


class _Retired:
    """what a type declared by a history becomes if the library still holds it after the scenario: not a Validator any more, and
    inert for whoever still iterates over it"""
    keywords = ()

    @classmethod
    def from_element(cls, _element):
        return None


def cleanup_history(final=False):
    """forget what the histories declared (the classes go away with the next collection).  At the end of a scenario (`final`)
    types that are still alive - the library kept a reference - are taken out of the Validator hierarchy, so that they do not
    pile up over the run."""
    if _HIST["classes"] or _HIST["formats"]:
        for name in _HIST["formats"]:
            format_checker._callable_register.pop(name, None)  # pylint: disable=protected-access
        _HIST["formats"].clear()
        _HIST["weak"] = [r for r in _HIST.get("weak", []) if r() is not None] + [weakref.ref(c) for c in _HIST["classes"]]
        _HIST["classes"].clear()
        gc.collect()
    if final and _HIST.get("weak"):
        for ref in _HIST["weak"]:
            cls = ref()
            if cls is not None:
                try:
                    cls.__bases__ = (_Retired,)
                except TypeError:
                    pass
        _HIST["weak"] = []


def verdict_view(res):
    """verdict and result only: which exception kind a failing call raises may depend on the (hash) order of validator types"""
    return [r if r.get("r") == "ok" else {"r": "not-ok", **({"input_altered": True} if r.get("input_altered") else {})} for r in res]


# ----------------------------------------------------------------------------- steps that change shared state

_MUTATORS = {"append", "extend", "insert", "pop", "popitem", "clear", "update", "setdefault", "remove", "discard", "add", "sort", "reverse",
             "appendleft", "popleft", "move_to_end", "__setitem__", "__setattr__", "__delitem__", "__delattr__"}
_STORE_LINES = None


def _may_store(node, shared_names, fresh=None):
    for sub in ast.walk(node):
        if isinstance(sub, (ast.Attribute, ast.Subscript)) and isinstance(sub.ctx, (ast.Store, ast.Del)):
            if fresh and isinstance(sub, ast.Attribute) and isinstance(sub.value, ast.Name) and sub.value.id == fresh:
                continue        # a constructor filling in the object it is constructing: nobody else can see it yet
            return True
        if isinstance(sub, ast.Name) and isinstance(sub.ctx, (ast.Store, ast.Del)) and sub.id in shared_names:
            return True
        if isinstance(sub, ast.Call):
            f = sub.func
            if isinstance(f, ast.Attribute) and f.attr in _MUTATORS:
                return True
            if isinstance(f, ast.Name) and f.id in ("setattr", "delattr"):
                return True
    return False


def _store_lines_of(tree):
    """line numbers of statements (or headers of compound statements) that can store into an object that existed before:
    attribute / item assignment and deletion (except `self.x = ...` in a constructor), assignment to a global or nonlocal name,
    a mutating container method, `with`"""
    lines = set()

    def visit(body, shared, fresh=None):
        for st in body:
            if isinstance(st, (ast.FunctionDef, ast.AsyncFunctionDef)):
                names = set()
                for sub in ast.walk(st):
                    if isinstance(sub, (ast.Global, ast.Nonlocal)):
                        names.update(sub.names)
                ctor = st.name in ("__init__", "__new__", "__post_init__") and st.args.args
                visit(st.body, names, st.args.args[0].arg if ctor else None)
                continue
            if isinstance(st, ast.ClassDef):
                visit(st.body, set())
                continue
            blocks = [getattr(st, f) for f in ("body", "orelse", "finalbody") if isinstance(getattr(st, f, None), list)]
            for h in getattr(st, "handlers", []):
                blocks.append(h.body)
            if blocks:
                first = min((b[0].lineno for b in blocks if b), default=st.lineno + 1)
                parts = [getattr(st, f) for f in ("test", "iter", "target") if getattr(st, f, None) is not None]
                parts += [x for item in getattr(st, "items", []) for x in (item.context_expr, item.optional_vars) if x is not None]
                if isinstance(st, (ast.With, ast.AsyncWith)) or any(_may_store(x, shared, fresh) for x in parts):
                    lines.update(range(st.lineno, max(st.lineno + 1, first)))
                for b in blocks:
                    visit(b, shared, fresh)
            elif _may_store(st, shared, fresh):
                lines.update(range(st.lineno, (st.end_lineno or st.lineno) + 1))
    visit(tree.body, set())
    return lines


def store_lines():
    global _STORE_LINES
    if _STORE_LINES is None:
        table = {}
        for root, _dirs, files in os.walk(sched.LIB_DIR):
            for name in files:
                if name.endswith(".py"):
                    path = os.path.join(root, name)
                    try:
                        table[path] = _store_lines_of(ast.parse(open(path, encoding="utf8").read()))
                    except (SyntaxError, OSError, UnicodeDecodeError):
                        table[path] = set()
        _STORE_LINES = table
    return _STORE_LINES


_MOD_NAMES = {}
_MOD_LIST = [-1, []]


def module_globals():
    """the library's module-level variables that hold data (scalars, containers, instances of the library's own classes)"""
    vals = []
    if _MOD_LIST[0] != len(sys.modules):
        _MOD_LIST[:] = [len(sys.modules), sorted(n for n in list(sys.modules) if n == "statham" or n.startswith("statham."))]
    for modname in _MOD_LIST[1]:
        mod = sys.modules.get(modname)
        if mod is None:
            continue
        ns = vars(mod)
        cached = _MOD_NAMES.get(modname)
        if cached is None or cached[0] != len(ns):
            names = []
            for k, v in ns.items():
                if k.startswith("__") or isinstance(v, (types.ModuleType, types.FunctionType, types.BuiltinFunctionType, type)):
                    continue
                if v is None or isinstance(v, (bool, int, float, str, bytes, list, dict, set, tuple, bytearray)) \
                        or (getattr(type(v), "__module__", "") or "").startswith("statham"):
                    names.append(k)
            cached = (len(ns), sorted(names))
            _MOD_NAMES[modname] = cached
        for k in cached[1]:
            vals.append((modname, k))
            vals.append(ns.get(k))
    return statediff.snapshot(*vals, include_parent=True)


class StateWatch:
    """Tells, line event by line event, whether the step a thread has just completed changed state that other threads can see.
    Snapshots are only taken when a line that can store into an existing object (store_lines) has been completed."""

    def __init__(self, roots):
        self.roots = roots
        self.stores = store_lines()
        self.pending = {}
        self.last = None
        self.checks = 0

    def snap(self):
        return (statediff.snapshot(*self.roots), module_globals())

    def refresh(self):
        self.last = self.snap()

    def on_line(self, tid, frame):
        changed = False
        pending = self.pending.setdefault(tid, [])
        if pending:
            chain = set()
            f = frame.f_back
            while f is not None:
                chain.add(id(f))
                f = f.f_back
            keep = [p for p in pending if p is not frame and id(p) in chain]
            if len(keep) != len(pending):
                pending[:] = keep
                self.checks += 1
                now = self.snap()
                if now != self.last:
                    changed = True
                    self.last = now
        lines = self.stores.get(frame.f_code.co_filename)
        if lines and frame.f_lineno in lines:
            pending.append(frame)
        return changed


def lib_tracer(on_line):
    """like sched.make_tracer, but the callback gets the frame"""
    def local(frame, event, arg):
        if event == "line":
            on_line(frame)
        return local

    def tracer(frame, event, arg):
        if event == "call" and frame.f_code.co_filename.startswith(sched.LIB_DIR):
            return local
        return None
    return tracer


_BRACKET_LINES = None


def bracket_lines():
    """(file, line) pairs after which sched.bracket_points places a point: the text tests of that function, done once per file"""
    global _BRACKET_LINES
    if _BRACKET_LINES is None:
        table = {}
        for path in store_lines():
            hits = set()
            try:
                for no, text in enumerate(open(path, encoding="utf8").read().splitlines(), 1):
                    text = text.strip()
                    if text.startswith("with ") or "catch_warnings" in text or "simplefilter" in text or "global " in text:
                        hits.add(no)
            except (OSError, UnicodeDecodeError):
                pass
            table[path] = hits
        _BRACKET_LINES = table
    return _BRACKET_LINES


def watched_alone(fn, roots, watching=True, counter=None):
    """run `fn()` alone: number of library line events, its return value, the indexes of the line events before which a step
    that changed shared state had just been completed, the number of snapshots taken, and the points sched.bracket_points gives
    (one traced run instead of two)"""
    watch = StateWatch(roots) if watching else None
    if watch:
        watch.refresh()
    brackets = bracket_lines()
    n, writes, points, prev = (counter if counter is not None else [0]), [], [], [False]

    def on_line(frame):
        if watch and watch.on_line(0, frame):
            writes.append(n[0])
        if prev[0]:
            points.append(n[0])
        hits = brackets.get(frame.f_code.co_filename)
        prev[0] = bool(hits) and frame.f_lineno in hits
        n[0] += 1
    old = sys.gettrace()
    sys.settrace(lib_tracer(on_line))
    try:
        res = fn()
    finally:
        sys.settrace(old)
    return n[0], res, writes, (watch.checks if watch else 0), points


class WriteScheduler(sched.Scheduler):
    """sched.Scheduler whose segments may also be (thread, ("w", m)): the thread runs until it has completed m steps that changed
    shared state (it is suspended before the next line), or finishes.  `concrete()` gives the interleaving that actually
    happened as plain (thread, lines) segments."""

    def __init__(self, n_threads, segments, watch, wait_s=3.0):
        self.watch = watch
        self.wmode, self.wleft = False, 0
        self.log = []
        super().__init__(n_threads, segments, wait_s)

    def _advance(self):
        prev = self.turn
        self.wmode, self.wleft = False, 0
        while self.segments:
            tid, k = self.segments.pop(0)
            if tid in self.done:
                continue
            if isinstance(k, (list, tuple)):
                self.turn, self.left, self.wmode, self.wleft = tid, float("inf"), True, max(1, int(k[1]))
                self.watch.refresh()
                break
            if k > 0:
                self.turn, self.left = tid, k
                break
        else:
            rest = [t for t in range(self.n) if t not in self.done]
            self.turn, self.left = (rest[0], float("inf")) if rest else (None, 0)
        if prev is not None and self.turn != prev:
            self.switches += 1
        self.log.append([self.turn, 0])

    def tick_frame(self, tid, frame):
        with self.cv:
            self._wait_turn(tid)
            while not self.free:
                if self.wmode:
                    if self.watch.on_line(tid, frame):
                        self.wleft -= 1
                        if self.wleft <= 0:
                            self._advance()
                            self.cv.notify_all()
                            self._wait_turn(tid)
                            continue
                    break
                if self.left <= 0:
                    self._advance()
                    self.cv.notify_all()
                    self._wait_turn(tid)
                    continue
                self.left -= 1
                break
            if self.free:
                return
            self.log[-1][1] += 1
            self.events[tid] += 1

    def concrete(self):
        out = []
        for tid, cnt in self.log:
            if tid is None or cnt <= 0:
                continue
            if out and out[-1][0] == tid:
                out[-1][1] += cnt
            else:
                out.append([tid, cnt])
        return [tuple(x) for x in out]


def run_write_scheduled(workers, segments, roots):
    """sched.run_scheduled for schedules with ("w", m) segments"""
    sc = WriteScheduler(len(workers), segments, StateWatch(roots))
    results = [None] * len(workers)

    def body(tid):
        sys.settrace(lib_tracer(lambda frame: sc.tick_frame(tid, frame)))
        try:
            results[tid] = workers[tid]()
        except BaseException as exc:  # noqa: BLE001
            results[tid] = exc
        finally:
            sys.settrace(None)
            sc.finish(tid)
    threads = [threading.Thread(target=body, args=(i,), daemon=True) for i in range(len(workers))]
    for t in threads:
        t.start()
    for t in threads:
        t.join(timeout=30)
    if any(t.is_alive() for t in threads):
        sc.free = True
        with sc.cv:
            sc.cv.notify_all()
        for t in threads:
            t.join(timeout=5)
        raise sched.Stuck("worker threads did not finish")
    return results, sc


def build_shared_wrapper():
    """one Property object placed under two different names (outside the theorem's hypothesis)"""
    p = Property(String(minLength=1))
    x = Element(properties={"a": p})
    y = Element(properties={"b": p})
    return Array([x, y], additionalItems=False)


def calls_worker(tree, values, on_call=None):
    def work():
        if on_call is None:
            return [core.real_call(tree, v) for v in values]
        out = []
        for i, v in enumerate(values):
            on_call(i)
            out.append(core.real_call(tree, v))
        return out
    return work


def safe_dump(tree):
    try:
        return core.dump_elem(tree)
    except (TypeError, ValueError, RecursionError):
        return None


def fresh(builder, history):
    """a freshly built tree on which the scenario's pre-history has happened (what the previous run's history declared is dropped
    first, so that at most one generation of declared types is alive)"""
    cleanup_history()
    tree = builder()
    apply_history(history, tree)
    return tree


def relaxed_for(history):
    # a Validator subclass declared by the history changes the hash order in which the library visits validator types, and the
    # order differs from one declaration to the next: for a value failing two keywords the exception kind may then differ
    # between two runs alone already.  Such scenarios are judged on verdict and result, as the statement says.
    return any(op["op"] == "declare-validator" for op in history or [])


def judge(results, alone, relaxed, stats=None):
    """None if every thread got what it gets alone, else (what, where)"""
    for tid, (got, want) in enumerate(zip(results, alone)):
        if isinstance(got, BaseException):
            return f"thread {tid} raised {type(got).__name__}: {got}", {}
        if got == want:
            continue
        if relaxed:
            if verdict_view(got) == verdict_view(want):
                if stats is not None:
                    stats["kind-only-difference"] = stats.get("kind-only-difference", 0) + 1
                continue
            i = next(i for i, (x, y) in enumerate(zip(verdict_view(got), verdict_view(want))) if x != y)
        else:
            i = next(i for i, (x, y) in enumerate(zip(got, want)) if x != y)
        return (f"thread {tid}, call {i}: concurrent result {str(got[i])[:160]} differs from the result alone {str(want[i])[:160]}",
                {"thread": tid, "call": i})
    return None


def explore(builder, per_thread, out, stats, case, rng, n_sched, finding=None, directed=True, n_directed=40):
    """per_thread: list of value lists.  Returns nothing; appends failures."""
    history = case.get("history")
    relaxed = relaxed_for(history)
    alone, lines, writes, pts, starts = [], [], [], [], []
    for values in per_thread:
        tree = fresh(builder, history)
        counter, begun = [0], []
        n, res, w, checks, points = watched_alone(calls_worker(tree, values, on_call=lambda _i, c=counter, b=begun: b.append(c[0])), [tree],
                                                  watching=directed, counter=counter)
        if checks:
            stats["store-line-checks"] = stats.get("store-line-checks", 0) + checks
        alone.append(res)
        lines.append(n)
        writes.append(w)
        pts.append(points)
        starts.append(begun)
    if any(r["r"].startswith("exc:") for res in alone for r in res):
        stats["alone-raised"] = stats.get("alone-raised", 0) + 1
    n_a = lines[0]
    picks = sorted(set([0, 1, n_a // 2, max(0, n_a - 1)] + [rng.randrange(0, n_a + 1) for _ in range(n_sched)]))[: n_sched + 4]
    schedules = [[(0, k)] + [(t, 10 ** 9) for t in range(1, len(per_thread))] for k in picks if k > 0]
    for _ in range(max(2, n_sched // 3)):      # several preemptions, random slices
        segs, t = [], 0
        for _ in range(rng.randint(2, 8)):
            segs.append((t, rng.randint(1, max(1, max(lines) // 3))))
            t = (t + rng.randint(1, len(per_thread) - 1)) % len(per_thread) if len(per_thread) > 1 else 0
        schedules.append(segs)
    # preemptions placed inside brackets (`with` blocks, swapped settings): thread 0 is stopped inside one, then another thread
    # is run until it is inside one of its own (or to completion), then thread 0 goes on
    if len(per_thread) > 1:
        if pts[0]:
            stats["bracket-schedules"] = stats.get("bracket-schedules", 0) + 1
            for _ in range(min(8, 2 + len(pts[0]))):
                k0 = rng.choice(pts[0])
                other = rng.randrange(1, len(per_thread))
                k1 = rng.choice(pts[other]) if pts[other] and rng.random() < 0.7 else 10 ** 9
                extra = rng.choice([1, 2, 3, 5, 10 ** 9])
                schedules.append([(0, k0), (other, k1), (0, extra), (other, 10 ** 9)])
    for segs in schedules:
        tree = fresh(builder, history)
        before = safe_dump(tree)
        try:
            results, s = sched.run_scheduled([calls_worker(tree, v) for v in per_thread], segs)
        except sched.Stuck:
            stats["stuck"] = stats.get("stuck", 0) + 1
            continue
        if s.free:
            stats["schedule-timed-out"] = stats.get("schedule-timed-out", 0) + 1
            continue
        out.note_case({**case, "schedule": segs}, s.switches >= 1)
        stats["switches-%d" % min(s.switches, 5)] = stats.get("switches-%d" % min(s.switches, 5), 0) + 1
        out.traces_validated += 1
        bad = judge(results, alone, relaxed, stats)
        if bad:
            out.failures.append({"case": {**case, "schedule": segs, **bad[1]}, "what": bad[0], "finding": finding})
        elif before != safe_dump(tree):
            out.failures.append({"case": {**case, "schedule": segs}, "what": "the element tree differs after the concurrent calls", "finding": finding})
    # state-directed schedules: a thread is suspended right after a step that changed state the others can see
    if directed and len(per_thread) > 1 and any(writes):
        stats["scenarios-with-shared-writes"] = stats.get("scenarios-with-shared-writes", 0) + 1
        directed_schedules(builder, per_thread, out, stats, case, rng, n_directed, finding, alone, lines, writes, starts=starts)


def directed_plans(rng, n_threads, writes, lines=None, starts=None, alone=None):
    """Plans over ("w", j) = until the thread's j-th state-changing step and ("frac", f) = f of the lines the thread runs alone:
    A stops after its j-th write and B runs; B stops somewhere, A runs to its j-th write, B goes on; A stops after its j-th
    write, B runs to somewhere, A runs to its m-th next write, B goes on.  "Somewhere" is inside one of B's calls, more often
    than not one that is rejected alone (a check that gets lost shows there)."""
    big, plans = 10 ** 9, []

    def somewhere(b):
        if not (lines and starts and alone and starts[b]):
            return round(rng.random(), 6)
        calls = list(range(len(starts[b])))
        rejected = [c for c in calls if c < len(alone[b]) and alone[b][c].get("r") != "ok"]
        c = rng.choice(rejected) if rejected and rng.random() < 0.6 else rng.choice(calls)
        lo = starts[b][c]
        hi = starts[b][c + 1] if c + 1 < len(starts[b]) else lines[b]
        return round(rng.randint(lo + 1, max(lo + 1, hi)) / max(1, lines[b]), 6)
    for a in [t for t, w in enumerate(writes) if w]:
        others = [t for t in range(n_threads) if t != a]
        for j in range(1, min(len(writes[a]), 3) + 1):
            plans.append([(a, ("w", j)), (rng.choice(others), big), (a, big)])
            for _ in range(3):
                b = rng.choice(others)
                plans.append([(b, ("frac", somewhere(b))), (a, ("w", j)), (b, big)])
                for m in (1, 2, 3):
                    plans.append([(a, ("w", j)), (b, ("frac", somewhere(b))), (a, ("w", m)), (b, big)])
    rng.shuffle(plans)
    return plans


def resolve_plan(plan, lines):
    return [(t, max(1, int(k[1] * lines[t]))) if isinstance(k, (list, tuple)) and k[0] == "frac" else (t, tuple(k) if isinstance(k, list) else k)
            for t, k in plan]


def run_plan(builder, history, per_thread, plan, lines):
    """one run of a plan on a fresh tree: (results, scheduler, tree changed?) or None when the run had to be abandoned"""
    tree = fresh(builder, history)
    before = safe_dump(tree)
    try:
        results, s = run_write_scheduled([calls_worker(tree, v) for v in per_thread], resolve_plan(plan, lines), [tree])
    except sched.Stuck:
        return None
    if s.free:
        return None
    return results, s, before != safe_dump(tree)


def directed_schedules(builder, per_thread, out, stats, case, rng, n_directed, finding, alone, lines, writes, plans=None, starts=None):
    history = case.get("history")
    relaxed = relaxed_for(history)
    spent = 0
    for plan in (plans if plans is not None else directed_plans(rng, len(per_thread), writes, lines, starts, alone))[:n_directed]:
        if spent > 400 * n_directed:        # snapshots are the cost of these runs: bounded per scenario
            stats["directed-budget-exhausted"] = stats.get("directed-budget-exhausted", 0) + 1
            break
        got = run_plan(builder, history, per_thread, plan, lines)
        if got is None:
            stats["schedule-timed-out"] = stats.get("schedule-timed-out", 0) + 1
            continue
        results, s, changed = got
        segs = s.concrete()
        spent += s.watch.checks
        out.note_case({**case, "schedule": segs}, s.switches >= 1)
        stats["write-directed-schedules"] = stats.get("write-directed-schedules", 0) + 1
        out.traces_validated += 1
        if judge(results, alone, relaxed, stats) is None and not changed:
            continue
        # it must happen again: first the interleaving as plain (thread, lines) segments under the plain scheduler; if the library
        # keeps state from run to run (line counts drift) the same plan once more
        tree = fresh(builder, history)
        before = safe_dump(tree)
        try:
            results, s2 = sched.run_scheduled([calls_worker(tree, v) for v in per_thread], segs)
            again = None if s2.free else (results, s2, before != safe_dump(tree))
        except sched.Stuck:
            again = None
        if again is None or (judge(again[0], alone, relaxed) is None and not again[2]):
            again = run_plan(builder, history, per_thread, plan, lines)
            if again is not None:
                segs = again[1].concrete()
        bad = None if again is None else judge(again[0], alone, relaxed)
        if bad or (again is not None and again[2]):
            what = bad[0] if bad else "the element tree differs after the concurrent calls"
            out.failures.append({"case": {**case, "schedule": segs, "plan": plan, **(bad[1] if bad else {})},
                                 "what": what + " (schedule aimed at a step that changes shared state)", "finding": finding})
            return
        stats["directed-not-reproduced"] = stats.get("directed-not-reproduced", 0) + 1


def stress(builder, per_thread, out, stats, case, finding=None):
    history = case.get("history")
    view = verdict_view if relaxed_for(history) else (lambda res: res)
    alone = []
    for values in per_thread:
        tree = fresh(builder, history)
        alone.append([core.real_call(tree, v) for v in values])
    tree = fresh(builder, history)
    before = safe_dump(tree)
    results = [None] * len(per_thread)
    barrier = threading.Barrier(len(per_thread))

    def body(i):
        barrier.wait()
        out_i = []
        for _ in range(20):
            out_i = [core.real_call(tree, v) for v in per_thread[i]]
            if view(out_i) != view(alone[i]):
                break
        results[i] = out_i
    old = sys.getswitchinterval()
    sys.setswitchinterval(1e-6)
    try:
        ts = [threading.Thread(target=body, args=(i,), daemon=True) for i in range(len(per_thread))]
        for t in ts:
            t.start()
        for t in ts:
            t.join(timeout=60)
    finally:
        sys.setswitchinterval(old)
    out.note_case({**case, "schedule": "free-running"}, True)
    stats["stress"] = stats.get("stress", 0) + 1
    for i, (got, want) in enumerate(zip(results, alone)):
        if got is None or view(got) != view(want):
            out.failures.append({"case": {**case, "schedule": "free-running", "thread": i}, "what": f"free-running thread {i}: result differs from the result alone", "finding": finding})
            return
    if safe_dump(tree) != before:
        out.failures.append({"case": {**case, "schedule": "free-running"}, "what": "the element tree differs after the concurrent calls", "finding": finding})


def split_values(rng, values, n_threads):
    per = [[] for _ in range(n_threads)]
    for i, v in enumerate(values):
        per[i % n_threads].append(v)
    return [p or [core.NP] for p in per]


def run(ctx, scale=1.0):
    rng = random.Random(ctx["seed"] + 14)
    out = Outcome()
    out.rule = ("scenarios: a tree (DSL dump depth <= 3 / model class / parsed schema / focused families: first-use defaults, additional+pattern properties "
                "with nested validation, tuple items) and 2-3 threads with 1-3 different values each; per scenario 10+ schedules: the first thread is "
                "preempted after k library lines (k = 1, n/2, n-1 and random), the others run, it resumes; plus multi-preemption schedules with random "
                "slices; plus a free-running 2-6 thread stress with a 1 µs switch interval; further families: numeric keywords over the magnitude "
                "ladder, `contains` scans with different answers, models with array-valued declared properties; about a third of the scenarios "
                "carry a pre-history (sequential warm-up calls, a Validator subclass declared, a format checker registered) applied before every "
                "run alone and every concurrent run; when a thread's run alone contains steps that change shared state (tree + library module "
                "variables, snapshots around storing lines) up to 40 schedules suspend a thread right after its j-th such step (j <= 3) while "
                "another thread is inside a call; a case is one scheduled execution; non-trivial = at least one "
                "context switch happened while a call was in flight; distinct by SHA-256")
    stats = {}
    n_scen = int(N_SCEN[ctx["tier"]] * scale)
    n_sched = N_SCHED[ctx["tier"]]
    vg, dg, sg = ValueGen(rng), dsl.DumpGen(rng), SchemaGen(rng, titled=True)
    for i in range(n_scen):
        fam = FAMILIES[i % len(FAMILIES)]
        stats["family-" + fam] = stats.get("family-" + fam, 0) + 1
        n_threads = rng.choice([2, 2, 3])
        if fam == "defaults":
            dump, vals = fam_defaults(rng)
        elif fam == "additional":
            dump, vals = fam_additional(rng)
        elif fam == "items":
            dump, vals = fam_items(rng)
        elif fam == "deep":
            dump, vals = fam_deep(rng)
        elif fam == "formats":
            dump, vals = fam_formats(rng)
        elif fam == "numeric":
            dump, vals = fam_numeric(rng)
        elif fam == "contains":
            dump, vals = fam_contains(rng)
        elif fam == "model-arrays":
            dump, vals = fam_model_arrays(rng)
        elif fam == "parsed":
            schema = sg.schema(3)
            kind, el = core.real_parse(schema)
            if kind != "ok":
                continue
            try:
                dump = core.dump_elem(el)
            except (TypeError, ValueError, RecursionError):
                continue
            vals = vg.values(schema if isinstance(schema, dict) else {}, 5) + [core.NP]
        else:
            dump = dg.obj(2) if fam == "class" else dg.dump(3)
            if dump["cls"] == "Nothing":
                continue
            try:
                vals = vg.values(dump_to_schema(dump), 5) + [core.NP]
            except Exception:  # noqa: BLE001
                vals = [core.NP, {}, [], "a", 1]
        rng.shuffle(vals)
        if fam == "deep":
            n_threads = 3
        per_thread = split_values(rng, vals, n_threads)
        try:
            dsl.build(dump)
            enc_threads = [[enc(v) for v in p] for p in per_thread]
        except Exception:  # noqa: BLE001
            stats["unbuildable"] = stats.get("unbuildable", 0) + 1
            continue
        case = {"family": fam, "tree": dump, "threads": enc_threads}
        if fam != "deep" and rng.random() < 0.35:
            try:
                case["history"] = gen_history(rng, [v for p in per_thread for v in p])
            except Exception:  # noqa: BLE001
                pass
        for op in case.get("history", []):
            stats["history-" + op["op"]] = stats.get("history-" + op["op"], 0) + 1
        builder = (lambda d=dump: dsl.build(d))
        try:
            explore(builder, per_thread, out, stats, case, rng, n_sched, directed=fam != "deep", n_directed=N_DIRECTED[ctx["tier"]])
            if i % 4 == 0:
                stress(builder, per_thread + per_thread, out, stats, case)
        finally:
            cleanup_history(final=True)
        if any(f.get("finding") is None for f in out.failures):
            stats["stopped-at-first-failing-scenario"] = i + 1      # a counterexample is in hand: the verdict of the run is settled
            break
    # outside the hypothesis: one Property object under two names
    for _ in range(2 if ctx["tier"] == "quick" else 20):
        per_thread = [[["x", {}]], [[{}, "y"]]] if False else [[[{"a": "x"}, {}]], [[{}, {"b": "y"}]]]
        explore(build_shared_wrapper, per_thread, out, stats, {"family": "shared-wrapper", "threads": [[enc(v) for v in p] for p in per_thread]}, rng, n_sched,
                finding="C14-shared-property-wrapper", directed=False)
        stats["family-shared-wrapper"] = stats.get("family-shared-wrapper", 0) + 1
    out.stats = stats
    return out


def search(ctx, reason):
    sub = dict(ctx)
    sub["seed"] = ctx["seed"] + 67867967
    found = run(sub, scale=2.0 if ctx["tier"] == "quick" else 1.0)
    new = [f for f in found.failures if f.get("finding") is None]
    return new[0] if new else None


def _replay_case(case):
    out, stats = Outcome(), {}
    per_thread = [[dec_arg(v) for v in p] for p in case["threads"]]
    builder = build_shared_wrapper if case.get("family") == "shared-wrapper" else (lambda: dsl.build(case["tree"]))
    history = case.get("history")
    try:
        if case.get("schedule") == "free-running":
            stress(builder, per_thread, out, stats, case)
            return bool(out.failures)
        # run exactly the recorded schedule (after the recorded pre-history, as every run alone)
        alone = [calls_worker(fresh(builder, history), v)() for v in per_thread]
        tree = fresh(builder, history)
        results, s = sched.run_scheduled([calls_worker(tree, v) for v in per_thread], [tuple(x) for x in case["schedule"]])
        if judge(results, alone, relaxed_for(history)) is not None:
            return True
        if not case.get("plan"):
            return False
        # the schedule was aimed at the steps that change shared state: where those are, in lines, depends on what the library
        # has kept from earlier runs; so the plan itself is run again, then the plans of its family on this very scenario
        lines, writes, starts = [], [], []
        for v in per_thread:
            tree = fresh(builder, history)
            counter, begun = [0], []
            n, _res, w, _checks, _points = watched_alone(calls_worker(tree, v, on_call=lambda _i, c=counter, b=begun: b.append(c[0])), [tree], counter=counter)
            lines.append(n)
            writes.append(w)
            starts.append(begun)
        plans = [case["plan"]] * 3 + directed_plans(random.Random(0), len(per_thread), [w or [0] for w in writes], lines, starts, alone)
        directed_schedules(builder, per_thread, out, stats, {k: v for k, v in case.items() if k not in ("schedule", "plan", "thread", "call")},
                           random.Random(0), 120, None, alone, lines, writes, plans=plans)
        return bool(out.failures)
    finally:
        cleanup_history(final=True)


def replay_finding(finding):
    # the witness names a schedule; scan the preemption points around it as line numbers may shift with harmless edits
    w = finding["witness"]
    if _replay_case(w):
        return True
    out, stats = Outcome(), {}
    per_thread = [[dsl.dec_val(v) for v in p] for p in w["threads"]]
    explore(build_shared_wrapper, per_thread, out, stats, {"family": "shared-wrapper", "threads": w["threads"]}, random.Random(1), 40, finding=finding["id"], directed=False)
    return bool(out.failures)


def replay(payload):
    case = payload.get("failure", {}).get("case")
    return True if not case else not _replay_case(case)
