"""C14 — concurrent validation against shared models equals sequential validation.

Correspondence / exploration (the Lean theorem quantifies over all interleavings of the model's
atomic shared-state steps; this ties the library to that model):
  * controlled scheduler (harness/sched.py): 2-3 real threads validate different values against one
    freshly built shared tree; exactly one thread runs at a time and the harness chooses after
    which library line each switch happens (1, 2 or many preemptions; every preemption point of
    the first thread is reachable).  Each thread's results must equal the results of the same
    calls made alone on a fresh identical tree, and the tree's dump must be unchanged.
  * free-running stress: 6 threads, tiny switch interval, same comparison.
Trees: DSL-built dumps, parsed schemas, model classes; focused families for defaults (incl. first
use), additional / pattern properties with nested validation, tuple items, compositions; and one
family outside the theorem's hypothesis (one Property object placed under two names)."""
import random
import sys
import threading

from statham.schema.elements import Array, Element, Object, String
from statham.schema.property import Property

from harness import core, dsl, sched
from harness.framework import Outcome
from harness.gen import SchemaGen, ValueGen
from harness.props.c08 import dump_to_schema

ID = "C14"
TIE_MODULES = ["StathamModel.Tie"]
ASSUMPTIONS = ["PARTIAL: CPython's real preemption granularity (bytecode level, C-level atomicity, the GIL) is not modelled; the controlled scheduler "
               "switches at library line boundaries, the stress runs let the interpreter switch freely",
               "threads only validate (no reconfiguration while calls are in flight)"]
N_SCEN = {"quick": 60, "thorough": 400}
N_SCHED = {"quick": 10, "thorough": 25}


def enc(v):
    return core.enc_arg(v)


def fam_defaults(rng):
    """valid, non-trivial defaults at several levels; calls with and without values"""
    inner = {"cls": "Object", "name": "Item", "kw": {"hasProps": True},
             "props": [[{"name": "id", "required": True, "source": "id"}, {"cls": "String", "kw": {"minLength": {"i": "1"}}}],
                       [{"name": "kind", "source": "kind"}, {"cls": "String", "kw": {"default": "plain"}}]]}
    shape = rng.randrange(4)
    if shape == 0:
        dump = {"cls": "Array", "kw": {"itemsKind": "single", "default": core.enc_val([{"id": "a"}, {"id": "b", "kind": "x"}])}, "items": [inner]}
        vals = [core.NP, [{"id": "z"}], core.NP, []]
    elif shape == 1:
        dump = {"cls": "Element", "kw": {"hasProps": True, "default": core.enc_val({"item": {"id": "q"}})},
                "props": [[{"name": "item", "source": "item"}, inner], [{"name": "n", "source": "n"}, {"cls": "Integer", "kw": {"default": {"i": "3"}}}]]}
        vals = [core.NP, {"item": {"id": "w"}}, {}, core.NP]
    elif shape == 2:
        dump = dict(inner, kw={"hasProps": True, "default": core.enc_val({"id": "dflt"})})
        vals = [core.NP, {"id": "v"}, core.NP, {"id": "u", "kind": "k"}]
    else:
        dump = {"cls": "AnyOf", "kw": {"default": core.enc_val({"id": "any"})}, "elements": [inner, {"cls": "String", "kw": {}}]}
        vals = [core.NP, "s", {"id": "t"}, core.NP]
    return dump, vals


def fam_additional(rng):
    """keys that only additionalProperties / patternProperties cover, nested validation underneath"""
    nested = rng.choice([{"cls": "String", "kw": {"minLength": {"i": "1"}}},
                         {"cls": "Element", "kw": {"hasProps": True}, "props": [[{"name": "x", "source": "x"}, {"cls": "Integer", "kw": {}}]]},
                         {"cls": "Array", "kw": {"itemsKind": "single"}, "items": [{"cls": "String", "kw": {}}]}])
    cls = rng.random() < 0.5
    dump = {"cls": "Object" if cls else "Element", "kw": {"hasProps": True},
            "props": [[{"name": "name", "source": "name"}, {"cls": "String", "kw": {}}]], "addProps": nested}
    if cls:
        dump["name"] = "Conf"
    if rng.random() < 0.5:
        dump["kw"]["hasPatProps"] = True
        dump["patProps"] = [[{"name": "^p_"}, {"cls": "String", "kw": {"maxLength": {"i": "5"}}}]]
    ok = {"String": "val", "Element": {"x": 1}, "Array": ["a", "b"]}[nested["cls"]]
    keys = ["env", "tier", "zone", "p_a", "p_b", "k"]
    vals = [{"name": "n%d" % i, rng.choice(keys): ok, **({rng.choice(keys): ok} if rng.random() < 0.4 else {})} for i in range(4)]
    return dump, vals


def fam_items(rng):
    dump = {"cls": "Array", "kw": {"itemsKind": "tuple"},
            "items": [{"cls": "String", "kw": {}}, {"cls": "Element", "kw": {"hasProps": True}, "props": [[{"name": "a", "source": "a"}, {"cls": "Integer", "kw": {"default": {"i": "1"}}}]]}],
            "addItems": {"cls": "Integer", "kw": {}}}
    vals = [["s", {"a": 2}, 3], ["t", {}], ["u", {"a": 5}, 1, 2], [], ["v", {"b": 1}, "bad"]]
    return dump, vals


def fam_formats(rng):
    """formatted strings whose checkers go through library and interpreter state shared by all threads (registries, warning
    filters): every spelling a checker accepts, rejects, or only warns about"""
    fmt = rng.choice(["date-time", "date-time", "uuid", "unknown-fmt"])
    leaf = {"cls": rng.choice(["String", "Element"]), "kw": {"format": fmt}}
    dump = rng.choice([leaf, {"cls": "Array", "kw": {"itemsKind": "single"}, "items": [leaf]},
                       {"cls": "Element", "kw": {"hasProps": True}, "props": [[{"name": "when", "source": "when"}, leaf]]}])
    strings = ["2021-03-04T10:00:00Z", "2021-03-04 10:00 BRST", "2021-03-04T10:00:00 AEDT", "2021-03-04 10:00 NZDT", "2021-03-04T10:00:00+02:00",
               "not a date", "10:00 EST", "123e4567-e89b-12d3-a456-426614174000", "123E4567E89B12D3A456426614174000", ""]
    picks = [rng.choice(strings) for _ in range(5)]
    if dump is leaf:
        return dump, picks
    if dump["cls"] == "Array":
        return dump, [[x] for x in picks] + [picks[:3]]
    return dump, [{"when": x} for x in picks]


def fam_deep(rng):
    """deeply nested values: many calls are in flight at once while a thread is suspended"""
    def nest(depth, leaf):
        v = leaf
        for i in range(depth):
            v = [v] if i % 2 == 0 else {"k": v}
        return v
    dump = rng.choice([{"cls": "Element", "kw": {}},
                       {"cls": "AnyOf", "kw": {}, "elements": [{"cls": "String", "kw": {}}, {"cls": "Element", "kw": {}}]}])
    depths = [rng.choice([40, 55, 70]) for _ in range(4)]
    return dump, [nest(d, rng.choice([1, "x", None])) for d in depths]


def build_shared_wrapper():
    """one Property object placed under two different names (outside the theorem's hypothesis)"""
    p = Property(String(minLength=1))
    x = Element(properties={"a": p})
    y = Element(properties={"b": p})
    return Array([x, y], additionalItems=False)


def calls_worker(tree, values):
    def work():
        return [core.real_call(tree, v) for v in values]
    return work


def safe_dump(tree):
    try:
        return core.dump_elem(tree)
    except (TypeError, ValueError, RecursionError):
        return None


def explore(builder, per_thread, out, stats, case, rng, n_sched, finding=None):
    """per_thread: list of value lists.  Returns nothing; appends failures."""
    alone, lines = [], []
    for values in per_thread:
        tree = builder()
        n, res = sched.count_lines(calls_worker(tree, values))
        alone.append(res)
        lines.append(n)
    if any(r["r"].startswith("exc:") for res in alone for r in res):
        stats["alone-raised"] = stats.get("alone-raised", 0) + 1
    n_a = lines[0]
    picks = sorted(set([0, 1, n_a // 2, max(0, n_a - 1)] + [rng.randrange(0, n_a + 1) for _ in range(n_sched)]))[: n_sched + 4]
    schedules = [[(0, k)] + [(t, 10 ** 9) for t in range(1, len(per_thread))] for k in picks if k > 0]
    for _ in range(max(2, n_sched // 3)):      # several preemptions, random slices
        segs, t = [], 0
        for _ in range(rng.randint(2, 8)):
            segs.append((t, rng.randint(1, max(1, max(lines) // 3))))
            t = (t + rng.randint(1, len(per_thread) - 1)) % len(per_thread) if len(per_thread) > 1 else 0
        schedules.append(segs)
    # preemptions placed inside brackets (`with` blocks, swapped settings): thread 0 is stopped inside one, then another thread
    # is run until it is inside one of its own (or to completion), then thread 0 goes on
    if len(per_thread) > 1:
        pts = [sched.bracket_points(calls_worker(builder(), v)) for v in per_thread]
        if pts[0]:
            stats["bracket-schedules"] = stats.get("bracket-schedules", 0) + 1
            for _ in range(min(8, 2 + len(pts[0]))):
                k0 = rng.choice(pts[0])
                other = rng.randrange(1, len(per_thread))
                k1 = rng.choice(pts[other]) if pts[other] and rng.random() < 0.7 else 10 ** 9
                extra = rng.choice([1, 2, 3, 5, 10 ** 9])
                schedules.append([(0, k0), (other, k1), (0, extra), (other, 10 ** 9)])
    for segs in schedules:
        tree = builder()
        before = safe_dump(tree)
        try:
            results, s = sched.run_scheduled([calls_worker(tree, v) for v in per_thread], segs)
        except sched.Stuck:
            stats["stuck"] = stats.get("stuck", 0) + 1
            continue
        if s.free:
            stats["schedule-timed-out"] = stats.get("schedule-timed-out", 0) + 1
            continue
        out.note_case({**case, "schedule": segs}, s.switches >= 1)
        stats["switches-%d" % min(s.switches, 5)] = stats.get("switches-%d" % min(s.switches, 5), 0) + 1
        out.traces_validated += 1
        for tid, (got, want) in enumerate(zip(results, alone)):
            if isinstance(got, BaseException):
                out.failures.append({"case": {**case, "schedule": segs}, "what": f"thread {tid} raised {type(got).__name__}: {got}", "finding": finding})
                break
            if got != want:
                i = next(i for i, (a, b) in enumerate(zip(got, want)) if a != b)
                out.failures.append({"case": {**case, "schedule": segs, "thread": tid, "call": i},
                                     "what": f"thread {tid}, call {i}: concurrent result {str(got[i])[:160]} differs from the result alone {str(want[i])[:160]}", "finding": finding})
                break
        else:
            after = safe_dump(tree)
            if before != after:
                out.failures.append({"case": {**case, "schedule": segs}, "what": "the element tree differs after the concurrent calls", "finding": finding})


def stress(builder, per_thread, out, stats, case, finding=None):
    alone = []
    for values in per_thread:
        tree = builder()
        alone.append([core.real_call(tree, v) for v in values])
    tree = builder()
    before = safe_dump(tree)
    results = [None] * len(per_thread)
    barrier = threading.Barrier(len(per_thread))

    def body(i):
        barrier.wait()
        out_i = []
        for _ in range(20):
            out_i = [core.real_call(tree, v) for v in per_thread[i]]
            if out_i != alone[i]:
                break
        results[i] = out_i
    old = sys.getswitchinterval()
    sys.setswitchinterval(1e-6)
    try:
        ts = [threading.Thread(target=body, args=(i,), daemon=True) for i in range(len(per_thread))]
        for t in ts:
            t.start()
        for t in ts:
            t.join(timeout=60)
    finally:
        sys.setswitchinterval(old)
    out.note_case({**case, "schedule": "free-running"}, True)
    stats["stress"] = stats.get("stress", 0) + 1
    for i, (got, want) in enumerate(zip(results, alone)):
        if got != want:
            out.failures.append({"case": {**case, "schedule": "free-running", "thread": i}, "what": f"free-running thread {i}: result differs from the result alone", "finding": finding})
            return
    if safe_dump(tree) != before:
        out.failures.append({"case": {**case, "schedule": "free-running"}, "what": "the element tree differs after the concurrent calls", "finding": finding})


def split_values(rng, values, n_threads):
    per = [[] for _ in range(n_threads)]
    for i, v in enumerate(values):
        per[i % n_threads].append(v)
    return [p or [core.NP] for p in per]


def run(ctx, scale=1.0):
    rng = random.Random(ctx["seed"] + 14)
    out = Outcome()
    out.rule = ("scenarios: a tree (DSL dump depth <= 3 / model class / parsed schema / focused families: first-use defaults, additional+pattern properties "
                "with nested validation, tuple items) and 2-3 threads with 1-3 different values each; per scenario 10+ schedules: the first thread is "
                "preempted after k library lines (k = 1, n/2, n-1 and random), the others run, it resumes; plus multi-preemption schedules with random "
                "slices; plus a free-running 2-6 thread stress with a 1 µs switch interval; a case is one scheduled execution; non-trivial = at least one "
                "context switch happened while a call was in flight; distinct by SHA-256")
    stats = {}
    n_scen = int(N_SCEN[ctx["tier"]] * scale)
    n_sched = N_SCHED[ctx["tier"]]
    vg, dg, sg = ValueGen(rng), dsl.DumpGen(rng), SchemaGen(rng, titled=True)
    for i in range(n_scen):
        fam = ["dump", "class", "defaults", "additional", "items", "parsed", "defaults", "additional", "deep", "formats"][i % 10]
        stats["family-" + fam] = stats.get("family-" + fam, 0) + 1
        n_threads = rng.choice([2, 2, 3])
        if fam == "defaults":
            dump, vals = fam_defaults(rng)
        elif fam == "additional":
            dump, vals = fam_additional(rng)
        elif fam == "items":
            dump, vals = fam_items(rng)
        elif fam == "deep":
            dump, vals = fam_deep(rng)
        elif fam == "formats":
            dump, vals = fam_formats(rng)
        elif fam == "parsed":
            schema = sg.schema(3)
            kind, el = core.real_parse(schema)
            if kind != "ok":
                continue
            try:
                dump = core.dump_elem(el)
            except (TypeError, ValueError, RecursionError):
                continue
            vals = vg.values(schema if isinstance(schema, dict) else {}, 5) + [core.NP]
        else:
            dump = dg.obj(2) if fam == "class" else dg.dump(3)
            if dump["cls"] == "Nothing":
                continue
            try:
                vals = vg.values(dump_to_schema(dump), 5) + [core.NP]
            except Exception:  # noqa: BLE001
                vals = [core.NP, {}, [], "a", 1]
        rng.shuffle(vals)
        if fam == "deep":
            n_threads = 3
        per_thread = split_values(rng, vals, n_threads)
        try:
            dsl.build(dump)
            enc_threads = [[enc(v) for v in p] for p in per_thread]
        except Exception:  # noqa: BLE001
            stats["unbuildable"] = stats.get("unbuildable", 0) + 1
            continue
        case = {"family": fam, "tree": dump, "threads": enc_threads}
        builder = (lambda d=dump: dsl.build(d))
        explore(builder, per_thread, out, stats, case, rng, n_sched)
        if i % 4 == 0:
            stress(builder, per_thread + per_thread, out, stats, case)
    # outside the hypothesis: one Property object under two names
    for _ in range(2 if ctx["tier"] == "quick" else 20):
        per_thread = [[["x", {}]], [[{}, "y"]]] if False else [[[{"a": "x"}, {}]], [[{}, {"b": "y"}]]]
        explore(build_shared_wrapper, per_thread, out, stats, {"family": "shared-wrapper", "threads": [[enc(v) for v in p] for p in per_thread]}, rng, n_sched,
                finding="C14-shared-property-wrapper")
        stats["family-shared-wrapper"] = stats.get("family-shared-wrapper", 0) + 1
    out.stats = stats
    return out


def search(ctx, reason):
    sub = dict(ctx)
    sub["seed"] = ctx["seed"] + 67867967
    found = run(sub, scale=2.0 if ctx["tier"] == "quick" else 1.0)
    new = [f for f in found.failures if f.get("finding") is None]
    return new[0] if new else None


def _replay_case(case):
    out, stats = Outcome(), {}
    per_thread = [[dsl.dec_val(v) if not (isinstance(v, dict) and "np" in v) else core.NP for v in p] for p in case["threads"]]
    builder = build_shared_wrapper if case.get("family") == "shared-wrapper" else (lambda: dsl.build(case["tree"]))
    rng = random.Random(0)
    if case.get("schedule") == "free-running":
        stress(builder, per_thread, out, stats, case)
        return bool(out.failures)
    # run exactly the recorded schedule
    alone = []
    for values in per_thread:
        alone.append([core.real_call(builder(), v) if False else None for v in values])
    alone = [calls_worker(builder(), v)() for v in per_thread]
    tree = builder()
    results, s = sched.run_scheduled([calls_worker(tree, v) for v in per_thread], [tuple(x) for x in case["schedule"]])
    return any(isinstance(g, BaseException) or g != w for g, w in zip(results, alone))


def replay_finding(finding):
    # the witness names a schedule; scan the preemption points around it as line numbers may shift with harmless edits
    w = finding["witness"]
    if _replay_case(w):
        return True
    out, stats = Outcome(), {}
    per_thread = [[dsl.dec_val(v) for v in p] for p in w["threads"]]
    explore(build_shared_wrapper, per_thread, out, stats, {"family": "shared-wrapper", "threads": w["threads"]}, random.Random(1), 40, finding=finding["id"])
    return bool(out.failures)


def replay(payload):
    case = payload.get("failure", {}).get("case")
    return True if not case else not _replay_case(case)
