"""C10 — only validation and schema-parse errors escape; every call terminates.

Correspondence: outcome *kinds* of real parse + calls vs. the model on the extreme-number,
deep-nesting and unusual-Unicode streams.  Oracle: the exception type observed on the real
code.  The model's `crash` outcome marks the arithmetic region of the known finding.

Depth family (direct oracle only, no model): the property bounds the nesting of *values* by the
interpreter's recursion budget, but quantifies over ALL metaschema-valid schemas.  Schemas nested
through every sub-schema keyword, and literals under const/enum/default, are built at depths on both
sides of (and far beyond) `sys.getrecursionlimit()` and given to both public entry points; the only
admissible outcomes are "returned" and "raised an error of the schema-parse family"."""
import random
import sys

from harness import core
from harness.framework import Outcome, jsonable
from harness.gen import SchemaGen, ValueGen, families

ID = "C10"
TIE_MODULES = ["StathamModel.Tie"]
ASSUMPTIONS = [
    "patterns are valid in Python's regex dialect (generated from a fixed pool)",
    "nesting depth of values, and of schemas that are compared with the model, stays below 150 levels (inside the interpreter's default recursion budget)",
    "schemas and literals nested deeper than that (up to 12x the recursion limit) are judged by the exception type of parse_element()/parse() only; the model has no recursion budget, so they are not part of the correspondence; elements parsed from them are not called",
    "lone surrogates are excluded (not representable as Lean Char)",
]
N_SCHEMAS = {"quick": 1200, "thorough": 30000}
UNICODE = ["", "é", "😀", "\u0000", "á", "‮", "ß", "İ", "﻿", "\U0010ffff", "a b", "\t", "𝒳", "²", "½", "\u0007"]

# --- titles: the metaschema allows ANY string as "title"; the parser turns the title of every class-building (object) schema into
# a class name, so the title is parser input like any other string.  Titles are built from character classes, not from a word list.
TITLE_ALPHABETS = {
    "ascii-letter": "abcxyzABCXYZ",
    "ascii-digit": "0123456789",
    "ascii-punct": "-_!.$/\\'\"{}()[]%#@:;,*+=<>?|~^&`",
    "space": " \t\n\r\u00a0\u2003\u3000",
    "latin-1": "éèÜïßñçøÅ",
    "cjk": "日本語中文한글かな",
    "other-script": "ЖдяαβγΩעבאعربदेवไทย",
    "non-ascii-digit": "٣５²①௧𝟙Ⅷ¼",
    "astral": "😀𝒳🂡\U0010ffff",
    "control-format": "\u0000\u0007\u001b\u007f\u200b\u202e\ufeff\u00ad",
    "combining": "\u0301\u0308\u20dd",
}
# titles with a meaning of their own for Python / for the library (keywords, dunders, the library's own class names), and boundary shapes
FIXED_TITLES = ["", "class", "None", "def", "import", "True", "__class__", "__init__", "__dict__", "_", "__", "Object", "Element", "Array", "type",
                "3d model", "123", "0", "3", "1st place", "a1", "1a", "x" * 5000, "9" * 400, "-", "---", "!", " ", "  ", "\n", ".", "/", "{}", "{0}", "%s",
                "日本語", "éè", "Ünï", "ß", "İ", "😀", "\u0000", "\u200b", "٣", "²", "a\u0301", "\u0301", "_1", "-1", "1-", " a ", "a-b-c", "A", "a", "aB", "ABC"]


def random_title(rng):
    names = sorted(TITLE_ALPHABETS)
    classes = [rng.choice(names if rng.random() < 0.6 else [n for n in names if n.startswith("ascii-")]) for _ in range(rng.choice([1, 1, 1, 2, 2, 3]))]
    n = rng.choice([1, 1, 2, 3, 5, 8])
    return "".join(rng.choice(TITLE_ALPHABETS[rng.choice(classes)]) for _ in range(n))


def title_shape(t):
    """coverage class of a title, by what it is made of (recorded in the stats)"""
    ascii_alnum = [c for c in t if c.isascii() and c.isalnum()]
    if not t:
        return "empty"
    if not ascii_alnum:
        return "no-ascii-alnum"          # nothing an identifier could be made of in ASCII
    if all(c.isdigit() for c in ascii_alnum):
        return "ascii-digits-only"
    if ascii_alnum[0].isdigit():
        return "digit-first"
    if len(ascii_alnum) == len(t):
        return "plain-ascii-alnum"
    return "mixed"


def titled_documents(t, rng):
    """(position, schema, values): the object schema titled `t` at each place of a document where the parser builds a class"""
    def obj(title=t):
        return {"type": "object", "title": title, "properties": {"id": {"type": "integer"}}, "required": ["id"]}
    good, bad = {"id": 1}, {"id": "s"}
    yield "top", obj(), [good, bad, {}, 1]
    yield "top-bare", {"type": "object", "title": t}, [{}, {"a": 1}, []]
    yield "type-list", {"type": ["object", "null"], "title": t, "required": ["id"]}, [good, None, {}, 1]
    yield "property", {"type": "object", "title": "Outer", "properties": {"p": obj()}}, [{"p": good}, {"p": bad}, {}, {"p": 1}]
    yield "items", {"type": "array", "items": obj()}, [[good], [bad], [], [1]]
    yield "items-tuple", {"items": [{"type": "string"}, obj()]}, [["a", good], ["a", bad], ["a"]]
    yield "additionalProperties", {"type": "object", "title": "Outer", "additionalProperties": obj()}, [{"k": good}, {"k": bad}, {}]
    yield "patternProperties", {"patternProperties": {"^a": obj()}}, [{"a": good}, {"a": bad}, {"b": bad}]
    yield "dependencies", {"dependencies": {"a": obj()}}, [{"a": 1, "id": 1}, {"a": 1}, {}]
    yield "propertyNames-sibling", {"type": "object", "title": t, "propertyNames": {"maxLength": 2}}, [{"ab": 1}, {"abc": 1}]
    key = rng.choice(["anyOf", "oneOf", "allOf"])
    yield key, {key: [obj(), {"type": ["object", "string"], "title": "Plain"}]}, [good, bad, "s", 1]
    yield "not", {"not": obj()}, [good, bad, 1]
    yield "siblings-same-title", {"type": "object", "title": "Outer", "properties": {"p": obj(), "q": {"type": "object", "title": t}}}, [{"p": good, "q": {}}, {"q": 1}]
    yield "autotitle", {"type": "object", "_x_autotitle": t, "properties": {"id": {"type": "integer"}}}, [good, bad]
    yield "title-over-autotitle", {"type": "object", "title": t, "_x_autotitle": "Fallback"}, [{}, 1]
    yield "autotitle-under-title", {"type": "object", "title": "Named", "_x_autotitle": t}, [{}, 1]
    yield "non-object", {"type": rng.choice(["string", "integer", "array", "null"]), "title": t}, ["a", 1, [], None]
    yield "untyped", {"title": t, "properties": {"id": {"type": "integer"}}}, [good, bad]


def retitle(schema, rng, seen):
    """copy of a generated schema with the title of every titled typed subschema replaced by a random title"""
    if isinstance(schema, list):
        return [retitle(x, rng, seen) for x in schema]
    if not isinstance(schema, dict):
        return schema
    new = {k: retitle(v, rng, seen) for k, v in schema.items()}
    if isinstance(schema.get("title"), str) and "type" in schema and not isinstance(schema["type"], dict):
        t = random_title(rng)
        if not core.has_surrogate(t):
            new["title"] = t
            seen.append(t)
    return new


# --- key scope: every key of an instance object is input too.  The library derives the scope under which the value beneath a key is
# validated (and reported) from the key itself, by a different piece of code for each keyword that routes a value to a sub-schema;
# so keys from the whole string space are put through every such route, with the value beneath them accepted AND refused by the
# sub-schema (a refusal is what makes the library build an error that names the scope), at the top and inside every construct that
# catches refusals (there the error is built and swallowed, and the right outcome may even be acceptance).
KEY_NAMES = UNICODE + ["__dict__", "class", "_dict", "1", "a.b", "\u0001", "", "\uffff", "__module__", "__slots__", "__typename__", "__version__", "--verbose--",
                       "  padded  ", "__", "____", "__x", "_x_", "{0}", "{", "}", "/pets/{petId}", "%s", "%(a)s", "{a!r}", "{0.__class__}", "<unbound>", "None",
                       "blank", "default", "self", "0", "-1", "[0]", "$ref", "properties", "\n", "x" * 3000]
# (sub-schema, values it accepts, values it refuses - directly, and one level further down where that exists)
KEY_SUBSCHEMAS = [
    ({"type": "integer"}, [1], ["x", None]),
    ({"maxLength": 1}, ["a", 7], ["too long"]),
    ({"minimum": 10}, [11, "s"], [3]),
    ({"enum": [1, "a"]}, ["a"], [2, []]),
    ({"const": None}, [None], [0]),
    (False, [], [None, 1]),
    (True, [1, {"": 1}], []),
    ({"type": ["string", "null"]}, [None, ""], [1]),
    ({"type": "string", "pattern": "^a"}, ["ab"], ["b", 1]),
    ({"multipleOf": 3}, [9], [10]),
    ({"uniqueItems": True}, [[1, 2]], [[1, 1]]),
    ({"required": ["r"]}, [{"r": 1}], [{}, {"": 1}]),
    ({"items": {"type": "integer"}}, [[1], "s"], [["x"], [1, [2]]]),
    ({"type": "array", "items": [{"type": "string"}], "additionalItems": False}, [["a"]], [[1], ["a", 1], {}]),
    ({"not": {"type": "string"}}, [1], ["s"]),
    ({"anyOf": [{"type": "integer"}, {"type": "null"}]}, [1, None], ["s"]),
    ({"oneOf": [{"minimum": 0}, {"maximum": 10}]}, [-1, 11], [5]),
    ({"type": "object", "title": "Sub", "properties": {"id": {"type": "integer"}}, "required": ["id"]}, [{"id": 1}], [{"id": "s"}, {}, 1]),
    ({"additionalProperties": {"type": "integer"}}, [{"": 1}, {}], [{"": "x"}, {"k": None}]),
    ({"propertyNames": {"minLength": 1}}, [{"k": 1}], [{"": 1}]),
]
KEY_PATTERNS = ["", "^", "(?s)^.*$", "$"]      # each is found in every string


def key_routes(k, sub, rng):
    """(route, schema, wrap-a-value-into-an-instance): every keyword through which the value beneath key `k` reaches `sub`"""
    def s():
        return sub if isinstance(sub, bool) else json_copy(sub)
    yield "additionalProperties", {"additionalProperties": s()}, lambda v: {k: v}
    yield "additionalProperties-object", {"type": "object", "title": "Thing", "properties": {"declared": {"type": "string"}}, "additionalProperties": s()}, lambda v: {"declared": "ok", k: v}
    yield "additionalProperties-after-miss", {"patternProperties": {"^never-matches$": {}}, "properties": {"declared": {}}, "additionalProperties": s()}, lambda v: {k: v, "declared": 1}
    yield "patternProperties", {"patternProperties": {rng.choice(KEY_PATTERNS): s()}}, lambda v: {k: v}
    yield "patternProperties-closed", {"type": "object", "title": "Pat", "patternProperties": {rng.choice(KEY_PATTERNS): s()}, "additionalProperties": False}, lambda v: {k: v}
    yield "properties", {"properties": {k: s()}}, lambda v: {k: v}
    yield "properties-object", {"type": "object", "title": "Thing", "properties": {k: s()}, "required": [k]}, lambda v: {k: v}
    yield "properties+additional", {"properties": {k: {}}, "additionalProperties": s()}, lambda v: {k: v}
    yield "dependencies", {"dependencies": {k: {"additionalProperties": s()}}}, lambda v: {k: v}


KEY_WRAPPERS = {
    "top": (lambda x: x, lambda k, i: i),
    "anyOf": (lambda x: {"anyOf": [{"type": "null"}, x]}, lambda k, i: i),
    "oneOf": (lambda x: {"oneOf": [x, {"type": "null"}]}, lambda k, i: i),
    "allOf": (lambda x: {"allOf": [{}, x]}, lambda k, i: i),
    "not": (lambda x: {"not": x}, lambda k, i: i),
    "items": (lambda x: {"items": x}, lambda k, i: [i]),
    "items-tuple": (lambda x: {"items": [{}, x]}, lambda k, i: [0, i]),
    "contains": (lambda x: {"contains": x}, lambda k, i: [1, i]),
    "property": (lambda x: {"type": "object", "title": "Outer", "properties": {"p": x}}, lambda k, i: {"p": i}),
    "same-key-again": (lambda x: {"additionalProperties": x}, lambda k, i: {k: i}),
    "dependencies": (lambda x: {"dependencies": {"trigger": x}}, lambda k, i: dict(i, trigger=1)),
}


def key_class(k):
    if k == "":
        return "empty"
    if len(k) > 100:
        return "very-long"
    if any(ord(c) < 32 or c in "\u007f\u200b\u202e\ufeff\u00ad" for c in k):
        return "control-format"
    if not k.isascii():
        return "non-ascii"
    if k.isidentifier():
        return "ascii-identifier"
    if k.strip() != k or not k.strip():
        return "whitespace"
    return "ascii-other"


def key_scope_cases(rng, n_random):
    """(key, route, wrapper, schema, values): every fixed key through every route at the top (sub-schemas take turns), and again inside a
    random refusal-catching construct; then random keys (from the character classes the titles are drawn from) likewise"""
    keys = [k for k in KEY_NAMES if not core.has_surrogate(k)] + [random_title(rng) for _ in range(n_random)]
    wraps = sorted(KEY_WRAPPERS)
    turn = rng.randrange(len(KEY_SUBSCHEMAS))
    for k in keys:
        if core.has_surrogate(k):
            continue
        n_routes = len(list(key_routes(k, True, random.Random(0))))
        for r in range(n_routes):
            for wname in ("top", rng.choice([w for w in wraps if w != "top"])):
                turn += 1
                sub, goods, bads = KEY_SUBSCHEMAS[turn % len(KEY_SUBSCHEMAS)]
                route, schema, inst = list(key_routes(k, sub, rng))[r]
                wrap_schema, wrap_inst = KEY_WRAPPERS[wname]
                values = [wrap_inst(k, inst(json_copy(v))) for v in bads + goods] + [wrap_inst(k, {}), wrap_inst(k, {"other": 1})]
                yield k, route, wname, wrap_schema(schema), values, len(bads), len(goods)


def deep(n, leaf=1):
    v = leaf
    for i in range(n):
        v = [v] if i % 2 == 0 else {"k": v}
    return v


# --- depth: the nesting of a *schema* is not bounded by the property (only that of values is).  A schema is described by a small recipe
# (run-length encoded chain of wrappers around a leaf, optionally a deep literal in the leaf), so that a case stays printable and
# replayable however deep the document it stands for; the document itself is built iteratively and never copied, printed or compared.
# Class-building levels get a title of their own (`i` = level, counted from the leaf): hundreds of nested classes that share one title
# make the parser's de-duplication compare them pairwise, deeply - seconds per document, and not what this family is about.
DEEP_WRAPPERS = {
    "items": lambda s, i: {"items": s},
    "items-typed": lambda s, i: {"type": "array", "items": s},
    "items-type-list": lambda s, i: {"type": ["array", "null"], "items": s},
    "items-tuple": lambda s, i: {"items": [{"type": "string"}, s]},
    "additionalItems": lambda s, i: {"items": [{}], "additionalItems": s},
    "contains": lambda s, i: {"contains": s},
    "properties": lambda s, i: {"properties": {"p": s}},
    "properties-object": lambda s, i: {"type": "object", "title": f"Deep{i}", "properties": {"p": s}, "required": ["p"]},
    "properties-second": lambda s, i: {"type": "object", "title": f"Wide{i}", "properties": {"a": {"type": "integer"}, "p": s}},
    "patternProperties": lambda s, i: {"patternProperties": {"^a": s}},
    "additionalProperties": lambda s, i: {"additionalProperties": s},
    "additionalProperties-object": lambda s, i: {"type": "object", "title": f"Open{i}", "additionalProperties": s},
    "propertyNames": lambda s, i: {"propertyNames": s},
    "dependencies": lambda s, i: {"dependencies": {"a": s}},
    "not": lambda s, i: {"not": s},
    "anyOf": lambda s, i: {"anyOf": [s]},
    "oneOf": lambda s, i: {"oneOf": [{"type": "string"}, s]},
    "allOf": lambda s, i: {"allOf": [s, {"minimum": 0}]},
    "allOf-typed": lambda s, i: {"type": "array", "allOf": [{"items": s}]},
}
DEEP_LEAVES = [True, False, {}, {"type": "string"}, {"type": "integer", "minimum": 0}, {"type": "object", "title": "Leaf"}, {"type": ["string", "null"]}, {"enum": [1, "a"]}]
DEEP_LITERAL_KEYS = ("const", "enum", "default")
DEEP_VALUE_SHAPES = ("list", "dict", "alternating", "wide-list")


def deep_value(shape, depth, atom):
    v = atom
    for i in range(depth):
        if shape == "list":
            v = [v]
        elif shape == "dict":
            v = {"k": v}
        elif shape == "wide-list":
            v = [0, "s", v, None]
        else:
            v = [v] if i % 2 == 0 else {"k": v}
    return v


def build_deep(recipe):
    """the schema document a recipe stands for; built bottom-up in a loop (fresh on every call: the parser rewrites its input in place)"""
    leaf = recipe["leaf"]
    s = leaf if isinstance(leaf, bool) else json_copy(leaf)
    lit = recipe.get("literal")
    if lit:
        if isinstance(s, bool):
            s = {}
        v = deep_value(lit["shape"], lit["depth"], lit["atom"])
        s[lit["key"]] = [v, 1] if lit["key"] == "enum" else v
    level = 0
    for pattern, count in reversed(recipe["wrappers"]):
        wraps = [DEEP_WRAPPERS[n] for n in reversed(wrapper_names(pattern))]
        for _ in range(count):
            for wrap in wraps:
                level += 1
                s = wrap(s, level)
    if recipe.get("in_definitions"):
        s = {"title": "Doc", "definitions": {"d": s}}
    return s


def json_copy(x):
    if isinstance(x, dict):
        return {k: json_copy(v) for k, v in x.items()}
    if isinstance(x, list):
        return [json_copy(v) for v in x]
    return x


def wrapper_names(pattern):
    """an entry of recipe["wrappers"] is [name, count] or [[name, ...], count]: the pattern, outermost first, repeated `count` times"""
    return [pattern] if isinstance(pattern, str) else list(pattern)


def recipe_depth(recipe):
    return sum(len(wrapper_names(p)) * c for p, c in recipe["wrappers"]), (recipe.get("literal") or {}).get("depth", 0)


def parse_outcome(recipe, entry):
    """('returned' | 'family:<name>' | 'escaped:<name>', message) of one public parse entry point on the recipe's document"""
    from statham.schema import parser
    from statham.schema.exceptions import SchemaParseError
    doc = build_deep(recipe)
    fn = parser.parse if entry == "parse" else parser.parse_element
    try:
        with core.warnings.catch_warnings():
            core.warnings.simplefilter("ignore")
            fn(doc)
        return "returned", ""
    except SchemaParseError as exc:
        return "family:" + type(exc).__name__, ""
    except (KeyboardInterrupt, SystemExit):
        raise
    except BaseException as exc:  # noqa: BLE001  (RecursionError, MemoryError, ... : exactly what must not escape)
        return "escaped:" + type(exc).__name__, str(exc)[:120]


def depth_band(d, limit):
    if d == 0:
        return "0"
    for frac, label in ((0.15, "<0.15L"), (0.5, "<0.5L"), (1, "<1L"), (2, "<2L"), (5, "<5L")):
        if d < frac * limit:
            return label
    return ">=5L"


def random_depth(rng, limit):
    """depths on both sides of every threshold k*limit/frames-per-level may sit at: from the depth the stream stops at, to far beyond the budget"""
    lo, hi = rng.choice([(limit // 8, limit // 3), (limit // 3, limit), (limit, 2 * limit), (2 * limit, 5 * limit), (5 * limit, 12 * limit)])
    return rng.randint(lo, hi)


def depth_recipes(rng, n_random, limit):
    names = sorted(DEEP_WRAPPERS)
    ladder = [limit // 6, limit // 3, limit // 2, limit - 1, limit + limit // 2, 3 * limit, 8 * limit]
    # 1. one keyword all the way down, at every rung
    for name in names:
        for d in ladder:
            yield {"wrappers": [[name, d]], "leaf": rng.choice(DEEP_LEAVES)}
    # 2. literals: a shallow schema whose const / enum / default holds a deep JSON value (at the top, and under a few keywords)
    for key in DEEP_LITERAL_KEYS:
        for shape in DEEP_VALUE_SHAPES:
            for d in ladder:
                yield {"wrappers": [], "leaf": {}, "literal": {"key": key, "shape": shape, "depth": d, "atom": rng.choice([1, "x", None])}}
    # 3. random: mixed chains (a different keyword at every level, or long runs), any leaf, sometimes with a deep literal, sometimes in definitions
    for _ in range(n_random):
        d = random_depth(rng, limit)
        style = rng.choice(["mixed", "runs", "shallow+literal", "deep+literal"])
        if style == "mixed":
            pattern = [rng.choice(names) for _ in range(rng.randint(2, 8))]
            wrappers = [[pattern, max(1, d // len(pattern))]]
        elif style == "runs":
            wrappers, left = [], d
            while left > 0:
                c = min(left, rng.randint(1, max(1, d // 3)))
                wrappers.append([rng.choice(names), c])
                left -= c
        elif style == "shallow+literal":
            wrappers = [[rng.choice(names), 1] for _ in range(rng.randint(1, 4))]
        else:
            wrappers = [[rng.choice(names), rng.randint(1, d)]]
        recipe = {"wrappers": wrappers, "leaf": rng.choice(DEEP_LEAVES)}
        if style.endswith("literal"):
            recipe["literal"] = {"key": rng.choice(DEEP_LITERAL_KEYS), "shape": rng.choice(DEEP_VALUE_SHAPES), "depth": random_depth(rng, limit), "atom": rng.choice([1, "x", None, 1.5])}
        if rng.random() < 0.2:
            recipe["in_definitions"] = True
        yield recipe


def check_depth(recipe, entries, out, stats, limit):
    sd, ld = recipe_depth(recipe)
    for entry in entries:
        case = {"deep_schema": recipe, "entry": entry}
        out.note_case(case, True)
        outcome, msg = parse_outcome(recipe, entry)
        bump(stats, "depth-" + entry + "-" + outcome.split(":")[0])
        bump(stats, "depth-outcome-" + outcome)
        bump(stats, "depth-schema-band-" + depth_band(sd, limit))
        if ld:
            bump(stats, "depth-literal-band-" + depth_band(ld, limit))
            bump(stats, "depth-literal-" + recipe["literal"]["key"] + "-" + recipe["literal"]["shape"])
        for name in sorted({n for p, _ in recipe["wrappers"] for n in wrapper_names(p)}):
            bump(stats, "depth-via-" + name)
        if outcome.startswith("escaped:"):
            what = (f"{entry}() on an acyclic, metaschema-valid schema nested {sd} sub-schema levels" + (f" with a {recipe['literal']['key']} literal nested {ld} levels" if ld else "")
                    + f" (recursion limit {limit}): {outcome[8:]} escaped: {msg} (neither an element nor an error of the schema-parse family)")
            out.failures.append({"case": case, "what": what, "finding": None})


def bump(stats, key):
    stats[key] = stats.get(key, 0) + 1


def classify_exc(real, model_r):
    exc = real.get("exc", "")
    msg = real.get("msg", "")
    if real["r"] == "crash" and model_r == "crash":
        return "C10-float-overflow"
    if exc == "ValueError" and "Exceeds the limit" in msg:
        return "C10-int-max-str-digits"
    return None


def probe_format(fmt, strings, out, stats):
    """registered format `fmt`: a string is accepted or refused with the validation error, whatever it is made of"""
    from statham.schema.elements import Element, String
    from statham.schema.exceptions import ValidationError
    for build in (lambda: String(format=fmt), lambda: Element(format=fmt)):
        el = build()
        for s in strings:
            if core.has_surrogate(s):
                continue
            case = {"schema": {"format": fmt, **({"type": "string"} if isinstance(el, String) else {})}, "value": s}
            out.note_case(case, True)
            try:
                with core.warnings.catch_warnings():
                    core.warnings.simplefilter("ignore")
                    el(s)
                stats["format-probe-ok"] = stats.get("format-probe-ok", 0) + 1
            except ValidationError:
                stats["format-probe-reject"] = stats.get("format-probe-reject", 0) + 1
            except Exception as exc:  # noqa: BLE001
                out.failures.append({"case": case, "what": f"format {fmt!r} on {s!r}: {type(exc).__name__}: {exc} escaped instead of the validation error", "finding": None})
                return


def check_case(drv, schema, values, out, stats):
    try:
        tables = core.schema_tables(schema, values)
        req = {"op": "parse_call", "schema": core.enc_val(schema), "args": [core.enc_arg(v) for v in values], "tables": tables}
    except (TypeError, ValueError):
        stats["unencodable"] = stats.get("unencodable", 0) + 1
        return
    status, el = core.real_parse(schema)
    rep = drv.ask(req)
    if "error" in rep:
        stats["driver-decode-error"] = stats.get("driver-decode-error", 0) + 1
        return
    stats["parse-" + status] = stats.get("parse-" + status, 0) + 1
    if status != "ok":
        case = {"schema": schema}
        out.note_case(case, True)
        if status.startswith("other:") or status == "recursion":
            out.failures.append({"case": case, "what": f"parse raised {status} (not of the schema-parse family)", "finding": None})
        elif rep["parse"] != "err":
            out.disagreements.append({"what": "parse outcome", "impl": status, "model": rep["parse"], **case})
        return
    if rep["parse"] != "ok":
        out.disagreements.append({"what": "parse outcome", "impl": "ok", "model": rep.get("kind"), "schema": schema})
        return
    out.traces_validated += 1
    for i, v in enumerate(values):
        real = core.real_call(el, v)
        model = rep["results"][i]
        case = {"schema": schema, "value": v if not isinstance(v, core.NotPassed) else {"np": 1}}
        extreme = model["r"] == "crash" or real["r"] not in ("ok", "reject")
        out.note_case(case, True)
        stats["impl-" + real["r"]] = stats.get("impl-" + real["r"], 0) + 1
        if real["r"] in ("ok", "reject"):
            if model["r"] != "crash" and model["r"] != real["r"]:
                out.disagreements.append({"what": "outcome kind", "impl": real["r"], "model": model["r"], **case})
            continue
        if real["r"] == "typeError":
            # tolerated by the property; the model never produces it on these inputs
            stats["impl-typeError-tolerated"] = stats.get("impl-typeError-tolerated", 0) + 1
            continue
        fid = classify_exc(real, model["r"])
        out.failures.append({"case": case, "what": f"{real.get('exc', real['r'])} escaped: {real.get('msg', '')[:120]}", "finding": fid})
        stats["escaped-" + str(fid)] = stats.get("escaped-" + str(fid), 0) + 1


def run(ctx, scale=1.0):
    rng = random.Random(ctx["seed"] + 10)
    out = Outcome()
    out.rule = ("extreme stream: schemas and values from the generator in extreme mode (2^53±1, 10^30, 10^400, 1e308, 5e-324, "
                "huge/tiny multipleOf), deep nesting (<=150), unusual Unicode strings and keys, plus the focused families; "
                "key-scope family: instance keys from the whole string space through every keyword that routes the value beneath a key to a sub-schema, value accepted and refused, at the top and inside every refusal-catching construct; "
                "a case is a (schema, value) pair, all are counted non-trivial; distinct by SHA-256; depth family: acyclic schemas nested L/8..12L levels "
                "(L = recursion limit) through every sub-schema keyword and const/enum/default literals nested as deep, given to parse_element() and parse(): "
                "a case is (recipe, entry point), outcome must be 'returned' or an error of the schema-parse family")
    stats = {}
    drv = core.Driver()
    try:
        sg, vg = SchemaGen(rng, extreme=True), ValueGen(rng, extreme=True)
        vg.free.extreme = True
        n = int(N_SCHEMAS[ctx["tier"]] * scale)
        for i in range(n):
            schema = sg.schema()
            values = vg.values(schema, 6) + [core.NP]
            if i % 7 == 0:
                values.append(deep(rng.choice([20, 60, 120, 150]), rng.choice([1, "x", None, 10 ** 400])))
            if i % 5 == 0:
                values.append(rng.choice(UNICODE))
                values.append({rng.choice(UNICODE): rng.choice(UNICODE)})
            check_case(drv, schema, values, out, stats)
            if i % 4 == 0:
                # the same document under arbitrary titles (titles are annotations: any string is metaschema-valid)
                seen = []
                again = retitle(schema, rng, seen)
                if seen:
                    for t in seen:
                        bump(stats, "title-retitled-stream-" + title_shape(t))
                    check_case(drv, again, values[:4] + [core.NP], out, stats)
        # titles from the whole string space, at every place of a document where the parser builds a class from them
        n_random = int((260 if ctx["tier"] == "quick" else 6000) * scale)
        titles = [(t, None) for t in FIXED_TITLES] + [(random_title(rng), 3) for _ in range(n_random)]
        for t, k in titles:
            if core.has_surrogate(t):
                continue
            docs = list(titled_documents(t, rng))
            if k is not None:
                docs = rng.sample(docs, k)
            for position, schema, values in docs:
                bump(stats, "title-" + title_shape(t))
                bump(stats, "title-at-" + position)
                check_case(drv, schema, values, out, stats)
        for schema, values in families(rng):
            check_case(drv, schema, list(values) + [10 ** 400, 2 ** 1024, 1e308, -1e308, 5e-324, 2 ** 53 + 1, core.NP], out, stats)
        # unusual property names / titles (parse side)
        for name in UNICODE + ["__dict__", "class", "_dict", "1", "a.b", "\u0001", "", "￿", "__module__", "__slots__", "__typename__", "__version__",
                              "--verbose--", "  padded  ", "__", "____", "__x", "_x_", "{0}", "{", "}", "/pets/{petId}", "%s", "%(a)s", "{a!r}", "{0.__class__}"]:
            if core.has_surrogate(name):
                continue
            schema = {"type": "object", "title": "T" + name, "properties": {name: {"type": "string"}}, "required": [name]}
            check_case(drv, schema, [{name: "x"}, {}, {name: 1}], out, stats)
            # the same name where it ends up in an error message: as an unexpected key, a missing required name, a missing dependency
            check_case(drv, {"properties": {"ok": {}}, "additionalProperties": False}, [{name: 1}, {"ok": 1, name: None}], out, stats)
            check_case(drv, {"type": "object", "title": "Closed", "properties": {"ok": {}}, "additionalProperties": False}, [{name: 1}], out, stats)
            check_case(drv, {"required": [name]}, [{}, {"other": 1}], out, stats)
            check_case(drv, {"dependencies": {"a": [name]}}, [{"a": 1}], out, stats)
            check_case(drv, {"propertyNames": {"maxLength": 0}}, [{name: 1}], out, stats)
        # instance keys from the whole string space through every keyword that routes the value beneath a key to a sub-schema
        for k, route, wname, schema, values, n_bad, n_good in key_scope_cases(rng, int((40 if ctx["tier"] == "quick" else 1500) * scale)):
            bump(stats, "keyscope-key-" + key_class(k))
            bump(stats, "keyscope-route-" + route)
            bump(stats, "keyscope-in-" + wname)
            stats["keyscope-values-refused-by-subschema"] = stats.get("keyscope-values-refused-by-subschema", 0) + n_bad
            stats["keyscope-values-accepted-by-subschema"] = stats.get("keyscope-values-accepted-by-subschema", 0) + n_good
            before = (stats.get("impl-ok", 0), stats.get("impl-reject", 0))
            check_case(drv, schema, values, out, stats)
            stats["keyscope-impl-ok"] = stats.get("keyscope-impl-ok", 0) + stats.get("impl-ok", 0) - before[0]
            stats["keyscope-impl-reject"] = stats.get("keyscope-impl-reject", 0) + stats.get("impl-reject", 0) - before[1]
        for m in (0.5, 1e-300, 5e-324, 1e300, 3, 10 ** 400, 2 ** 60 + 1):
            for x in (1e308, 10 ** 400, 10 ** 30, 7, 0.1, 2 ** 1024, -1e308):
                check_case(drv, {"multipleOf": m}, [x], out, stats)
                check_case(drv, {"type": "number", "multipleOf": m}, [x], out, stats)
        for schema in ({"type": "string"}, {"maximum": 1}, {"type": "integer", "multipleOf": 7}, {"enum": [1]}, {}):
            check_case(drv, schema, [10 ** 5000, -(10 ** 4400), [10 ** 5000]], out, stats)
        # patterns that are valid on their own but do not survive being glued together, wrapped or re-flagged
        tricky = ["(?P<id>a+)", "(?P<id>b+)", "(?i)abc", "(?s)a.b", "(a)\\1", "(?=a)a", "(?x) a b ", "^(?:a|b)$", "a{2,3}", "[\\]\\[]", "\\Z", "(?m)^b"]
        for _ in range(int((30 if ctx["tier"] == "quick" else 600) * scale)):
            pats = rng.sample(tricky, rng.choice([1, 2, 2, 3]))
            schema = {"patternProperties": {p: rng.choice([{}, {"type": "integer"}, True]) for p in pats}}
            if rng.random() < 0.5:
                schema.update({"type": "object", "title": "Pat"})
            if rng.random() < 0.3:
                schema["additionalProperties"] = False
            vals = [{"aa": 1, "bb": 2}, {"ABC": 1, "abc": "x"}, {"a\nb": 1}, {"ab": 1, "b": 2, "]": 3}, {}, {"zzz": 1}]
            check_case(drv, schema, vals, out, stats)
            check_case(drv, {"type": "string", "pattern": rng.choice(tricky)}, ["aa", "ABC", "a\nb", "ab", "", "]"], out, stats)
        for s in ("9" * 20, "1" * 400, "0000-00-00", "\u0000", "２０２０-01-01"):
            check_case(drv, {"format": "date-time"}, [s], out, stats)
            check_case(drv, {"format": "uuid"}, [s], out, stats)
        # every format the library registers (read from the live registry, so newly added built-ins are covered), fed strings
        # made of characters that the usual `str` predicates and the usual converters disagree about
        from statham.schema.validation.format import format_checker
        odd = ["²", "①", "٣", "５", "¼", "Ⅷ", "௧", "𝟙", "߁", "\u0000", "é", " ", "-", "+", "e", "_", "１２"]
        templates = ["{d}", "10.0.0.{d}", "{d}.{d}.{d}.{d}", "1{d}.2.3.4", "::{d}", "fe80::{d}:1", "a@{d}.com", "{d}@b.c", "{d}{d}{d}{d}-{d}{d}-{d}{d}",
                     "2020-{d}1-01T00:00:00Z", "2020-01-01T0{d}:00:00Z", "http://{d}/", "{d}" * 32, "123e4567-e89b-12d3-a456-42661417400{d}", "P{d}D", "#/{d}", "{d}:{d}"]
        for fmt in sorted(getattr(format_checker, "_callable_register", {})):
            strings = [t.replace("{d}", d) for t in templates for d in odd] + UNICODE + ["", "0", "1.2.3", "1.2.3.4", "256.1.1.1", "01.1.1.1"]
            for chunk in range(0, len(strings), 40):
                probe_format(fmt, strings[chunk:chunk + 40], out, stats)
        # schemas (and literals) nested up to and far beyond the interpreter's recursion budget, through both public entry points
        limit = sys.getrecursionlimit()
        for k, recipe in enumerate(depth_recipes(rng, int((150 if ctx["tier"] == "quick" else 3000) * scale), limit)):
            # both public entry points; in the quick tier they take turns (a document below the budget costs a full parse)
            both = ["parse_element", "parse"] if ctx["tier"] == "thorough" else [["parse_element", "parse"][k % 2]]
            check_depth(recipe, ["parse"] if recipe.get("in_definitions") else both, out, stats, limit)
    finally:
        drv.close()
    # report the smallest failing input first (stable: equal sizes keep the order they were found in)
    out.failures.sort(key=lambda f: (len(repr(jsonable(f.get("case")))), sum(recipe_depth(f["case"]["deep_schema"])) if "deep_schema" in (f.get("case") or {}) else 0))
    out.stats = stats
    return out


def search(ctx, reason):
    sub = dict(ctx)
    sub["seed"] = ctx["seed"] + 104729
    found = run(sub, scale=3.0 if ctx["tier"] == "quick" else 1.0)
    fresh = [f for f in found.failures if f.get("finding") is None]
    return fresh[0] if fresh else None


def _observe(schema, value):
    if isinstance(value, dict) and set(value) == {"bigint_pow10"}:
        value = 10 ** value["bigint_pow10"]
    status, el = core.real_parse(schema)
    if status != "ok":
        return {"r": "parse:" + status}
    return core.real_call(el, core.NP if value == {"np": 1} else value)


def replay_finding(finding):
    w = finding["witness"]
    real = _observe(w["schema"], w["value"])
    return real["r"] not in ("ok", "reject", "typeError", "parse:notImplemented", "parse:missingTitle", "parse:invalidType", "parse:schemaParseError")


def replay(payload):
    case = payload.get("failure", {}).get("case")
    if not case:
        return True
    if "deep_schema" in case:
        return not parse_outcome(case["deep_schema"], case["entry"])[0].startswith("escaped:")
    real = _observe(case["schema"], case.get("value", {"np": 1}))
    return real["r"] in ("ok", "reject", "typeError") or real["r"].startswith("parse:") and not real["r"].startswith("parse:other") and real["r"] != "parse:recursion"
