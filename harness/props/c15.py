"""C15 — a subclass model means its parent's schema plus its own additions.

Correspondence: histories of class statements (any parent defined so far, any subset of the 11
class keywords, properties added / overridden, docstrings, multi-level chains; attribute names and JSON
names paired freely, so that an added property's JSON name can be the attribute name or the JSON name
of a property declared earlier in the chain under another attribute) interleaved with
uses and reconfigurations (keyword assignment, property add / replace / delete, required flag and
element swap on a property) run on real classes and on the Lean model (`Inherit.step`); after every
step the dump of *every* class is compared with the model's view of it.
Oracles (independent of the model):
  flat      — right after a class statement, the class behaves (verdicts, results, serialize_json)
              like one flat class built by the harness from the parent's current dump overlaid with
              the statement's own keywords and properties;
  isolation — a step aimed at one class (or a new class statement) leaves every other class's
              dump, verdict vector and serialize_json unchanged;
  instances — accepted values give instances of the class and of all its ancestors."""
import copy
import json
import random

from statham.schema.constants import NotPassed
from statham.schema.elements import Object
from statham.schema.elements.meta import ObjectClassDict, ObjectMeta
from statham.schema.property import Property
from statham.serializers.json import serialize_json

from harness import core, dsl
from harness.framework import Outcome
from harness.gen import ValueGen

ID = "C15"
TIE_MODULES = ["StathamModel.Tie"]
ASSUMPTIONS = ["reconfiguration goes through attribute assignment on the class and through its properties mapping and the Property objects in it; "
               "mutating an element or container object that parent and child both refer to (e.g. Child.required.append) is element sharing, not subclass reconfiguration",
               "single inheritance from Object (the DSL's documented form)"]
N_HIST = {"quick": 150, "thorough": 2500}
KEYWORDS = ["default", "const", "enum", "required", "description", "minProperties", "maxProperties", "patternProperties",
            "additionalProperties", "propertyNames", "dependencies"]
PROBE_VALUES = [{}, {"a": 1}, {"a": "x"}, {"a": "x", "b": 2}, {"b": None}, {"c": [1]}, {"a b": 1}, {"class": "k"}, {"zz": 1}, {"a": 1, "b": 2, "c": 3, "zz": 4},
                {"1x": True}, {"_p": 0}, [], "s", 3, None]


def norm(d):
    """dump with property sources made effective (`bind` turns a missing source into the name)"""
    d = copy.deepcopy(d)

    def walk(x):
        if isinstance(x, dict):
            if "cls" in x:
                for key, _sub in x.get("props", []):
                    if not key.get("source") or key.get("source") == key["name"]:
                        key.pop("source", None)
            for v in x.values():
                walk(v)
        elif isinstance(x, list):
            for v in x:
                walk(v)
    walk(d)
    return d


def gen_decl(rng, dg, idx, existing_names, crossed=None):
    """A class statement as (dump carrying the values, passed keyword names, docstring)."""
    kw, out = {}, {"cls": "Object", "name": f"K{idx}"}
    dg.object_kws(kw, out, 2, True)
    if rng.random() < 0.25:
        dg.lits(kw)
    if rng.random() < 0.2:
        kw["default"] = core.enc_val(rng.choice([{}, {"a": 1}, {"a": "x", "b": 2}]))
    if rng.random() < 0.2:
        kw["description"] = rng.choice(["desc", "another", ""])
    # bias towards overriding what earlier classes declared
    props = out.get("props", [])
    if existing_names and rng.random() < 0.5:
        n = rng.choice(existing_names)
        if all(k["name"] != n for k, _ in props):
            # the overriding declaration chooses its own JSON name: the inherited alias, none at all, or another one
            key = {"name": n, "source": rng.choice([dsl.SOURCES.get(n) or n, n, n, "alt " + n])}
            if rng.random() < 0.5:
                key["required"] = True
            props.append([key, dg.leaf()])
            out["props"] = props
    # crossed names: attribute names and JSON names are two namespaces and a class statement may pair them freely. A property under another
    # attribute (not yet used in this statement) whose JSON name is the attribute name (or the JSON name) of a property declared earlier,
    # possibly by an ancestor: override goes by attribute name only, so every inherited property under a different attribute must survive
    # next to it, exactly as in the flat class declared with the merged properties.
    if existing_names and rng.random() < 0.35:
        other = rng.choice(existing_names)
        src = rng.choice([other, other, dsl.SOURCES.get(other) or other])
        taken = {k["name"] for k, _ in props}
        fresh = [a for a in dsl.ATTRS + dsl.KW_ATTRS if a not in taken and a != other and a != src]
        if fresh:
            key = {"name": rng.choice(fresh), "source": src}
            if rng.random() < 0.4:
                key["required"] = True
            props.append([key, dg.leaf()])
            out["props"] = props
            if crossed is not None:
                crossed.append((key["name"], src))
    kw["hasProps"] = True
    passed = [k for k in ("default", "const", "enum", "required", "description", "minProperties", "maxProperties") if k in kw]
    if kw.get("hasPatProps"):
        passed.append("patternProperties")
    if kw.get("addPropsB") is False or "addProps" in out or rng.random() < 0.15:
        passed.append("additionalProperties")
    if "propNames" in out:
        passed.append("propertyNames")
    if kw.get("hasDeps"):
        passed.append("dependencies")
    out["kw"] = kw
    doc = rng.choice([None, None, "Doc string.", ""])
    return out, passed, doc


def prop_label(key):
    """attribute name, with the JSON name when it is a different string"""
    src = key.get("source")
    return key["name"] if not src or src == key["name"] else f"{key['name']} (JSON {src!r})"


def props_diff(got, want):
    """where two normalised class dumps differ in their properties, in words ('' when the property lists are equal)"""
    g = {k["name"]: (k, s) for k, s in got.get("props", [])}
    w = {k["name"]: (k, s) for k, s in want.get("props", [])}
    parts = []
    if [n for n in w if n not in g]:
        parts.append("properties missing: " + ", ".join(prop_label(w[n][0]) for n in w if n not in g))
    if [n for n in g if n not in w]:
        parts.append("properties not in the merged declaration: " + ", ".join(prop_label(g[n][0]) for n in g if n not in w))
    changed = [n for n in g if n in w and g[n] != w[n]]
    if changed:
        parts.append("properties that differ: " + ", ".join(changed))
    if not parts and list(g) != list(w):
        parts.append(f"property order {list(g)} instead of {list(w)}")
    return "; ".join(parts)


def real_kwargs(dump, passed):
    """keyword arguments for the real class statement / attribute assignments"""
    tmp = dsl.build({**dump, "name": "Tmp", "props": [], "kw": {**dump["kw"], "hasProps": True}})
    out = {}
    for k in passed:
        v = getattr(tmp, k)
        out[k] = copy.copy(v) if isinstance(v, (list, dict)) else v
    return out


def real_props(dump):
    out = {}
    for key, sub in dump.get("props", []):
        src = key.get("source")
        out[key["name"]] = Property(dsl.build(sub), required=bool(key.get("required")), source=src if src != key["name"] else None)
    return out


def define_real(parent, dump, passed, doc):
    classdict = ObjectClassDict()
    if doc is not None:
        classdict["__doc__"] = doc
    for name, prop in real_props(dump).items():
        classdict[name] = prop
    return ObjectMeta(dump["name"], (parent,), classdict, **real_kwargs(dump, passed))


def cell_json(key, sub):
    out = {"elem": sub}
    if key.get("required"):
        out["required"] = True
    if key.get("source") and key["source"] != key["name"]:
        out["source"] = key["source"]
    return out


def args_json(dump, passed):
    return {"elem": {**dump, "props": []}, "passed": passed}


def flat_of(parent_dump, dump, passed, doc):
    """The single flat class the child must be equivalent to: computed on dumps by the harness."""
    flat = copy.deepcopy(parent_dump)
    flat["name"] = dump["name"]
    kw, ckw = flat["kw"], dump["kw"]
    for k in ("default", "const", "enum", "required", "description", "minProperties", "maxProperties"):
        if k in passed:
            kw[k] = ckw[k]
    if "patternProperties" in passed:
        kw["hasPatProps"] = True
        flat.pop("patProps", None)
        if dump.get("patProps"):
            flat["patProps"] = dump["patProps"]
    if "additionalProperties" in passed:
        kw.pop("addPropsB", None)
        flat.pop("addProps", None)
        if "addProps" in dump:
            flat["addProps"] = dump["addProps"]
        elif ckw.get("addPropsB") is False:
            kw["addPropsB"] = False
    if "propertyNames" in passed:
        flat["propNames"] = dump["propNames"]
    if "dependencies" in passed:
        kw["hasDeps"] = True
        flat.pop("deps", None)
        if dump.get("deps"):
            flat["deps"] = dump["deps"]
    if "description" not in kw and doc:
        kw["description"] = doc
    props = {k["name"]: [copy.deepcopy(k), s] for k, s in flat.get("props", [])}
    for k, s in dump.get("props", []):
        props[k["name"]] = [copy.deepcopy(k), s]      # dict update: an overridden name keeps its position
    kw["hasProps"] = True
    flat["props"] = list(props.values())
    if not flat["props"]:
        flat.pop("props")
    return flat


def behaviour(cls, values):
    """verdict/result vector + serialization: what 'validates and serializes' means here"""
    out = []
    for v in values:
        r = core.real_call(cls, v)
        out.append(json.dumps(r, sort_keys=True, default=str))
    try:
        ser = json.dumps(serialize_json(cls), sort_keys=True, default=str)
    except Exception as exc:  # noqa: BLE001
        ser = "exc:" + type(exc).__name__
    return out, ser


def strip_title(ser, name):
    return ser.replace(json.dumps(name), '"<name>"')


class Hist:
    def __init__(self, drv, out, stats, label):
        self.drv, self.out, self.stats, self.label = drv, out, stats, label
        self.classes = [Object]
        self.ops = []          # model ops
        self.log = []          # human-readable history
        self.descr = []        # replayable description

    def case(self):
        return {"label": self.label, "history": list(self.log)}

    def snapshot(self, skip=None):
        snap = {}
        for i, c in enumerate(self.classes):
            if i == 0 or i == skip:
                continue
            try:
                snap[i] = (norm(core.dump_elem(c)), behaviour(c, PROBE_VALUES))
            except (TypeError, ValueError, RecursionError):
                self.stats["undumpable"] = self.stats.get("undumpable", 0) + 1
        return snap

    def check_isolation(self, before, target, what):
        after = self.snapshot(skip=target)
        for i, (dump, beh) in before.items():
            if i == target or i not in after:
                continue
            if after[i][0] != dump:
                self.out.failures.append({"case": self.case(), "what": f"{what} changed the configuration of {self.classes[i].__name__} "
                                          f"({'an ancestor' if target is not None and issubclass(self.classes[target], self.classes[i]) else 'another class'})", "finding": None})
                return
            if after[i][1] != beh:
                self.out.failures.append({"case": self.case(), "what": f"{what} changed how {self.classes[i].__name__} validates or serializes", "finding": None})
                return


def run_history(drv, rng, out, stats, label, n_steps, thorough=False):
    h = Hist(drv, out, stats, label)
    dg, vg = dsl.DumpGen(rng), ValueGen(rng)
    names_seen = []
    n_defined = 0
    for step_no in range(n_steps):
        k = rng.random()
        have = len(h.classes) - 1
        if have == 0 or (k < 0.35 and have < 6):
            # ---- class statement
            parent_idx = rng.randrange(len(h.classes)) if rng.random() < 0.85 else 0
            crossed = []
            dump, passed, doc = gen_decl(rng, dg, len(h.classes), names_seen, crossed)
            before = h.snapshot()
            try:
                parent_dump = norm(core.dump_elem(h.classes[parent_idx])) if parent_idx else {"cls": "Object", "name": "Object", "kw": {"hasProps": True}}
            except (TypeError, ValueError, RecursionError):
                continue
            try:
                cls = define_real(h.classes[parent_idx], dump, passed, doc)
            except Exception as exc:  # noqa: BLE001
                stats["define-raised-" + type(exc).__name__] = stats.get("define-raised-" + type(exc).__name__, 0) + 1
                continue
            h.classes.append(cls)
            n_defined += 1
            h.log.append(f"class {dump['name']}({h.classes[parent_idx].__name__}, passed={passed}, props={[prop_label(k) for k, _ in dump.get('props', [])]}, doc={doc!r})")
            h.ops.append({"op": "define", "parent": parent_idx, "name": dump["name"], "args": args_json(dump, passed), "doc": doc,
                          "props": [[key["name"], cell_json(key, sub)] for key, sub in dump.get("props", [])]})
            names_seen.extend(k["name"] for k, _ in dump.get("props", []) if k["name"] not in names_seen)
            stats["define"] = stats.get("define", 0) + 1
            stats["depth-%d" % (len(cls.__mro__) - 2)] = stats.get("depth-%d" % (len(cls.__mro__) - 2), 0) + 1
            for p in passed:
                stats["kw-" + p] = stats.get("kw-" + p, 0) + 1
            overridden = [k["name"] for k, _ in dump.get("props", []) if any(k["name"] == pk["name"] for pk, _ in parent_dump.get("props", []))]
            if overridden:
                stats["property-overridden"] = stats.get("property-overridden", 0) + 1
            for attr, src in crossed:
                # what the fresh attribute's JSON name coincides with among the properties the class inherits
                inherited = [(pk["name"], pk.get("source") or pk["name"]) for pk, _ in parent_dump.get("props", [])]
                if any(a == src and s != a for a, s in inherited):
                    kind = "attr-of-inherited-aliased-property"
                elif any(s == src for a, s in inherited):
                    kind = "json-name-of-inherited-property"
                elif any(a == src for a, s in inherited):
                    kind = "attr-of-inherited-property"
                else:
                    kind = "name-declared-outside-the-chain"
                stats["crossed-source-" + kind] = stats.get("crossed-source-" + kind, 0) + 1
            h.check_isolation(before, None, f"defining {dump['name']}")
            # flat equivalence
            flat_dump = flat_of(parent_dump, dump, passed, doc)
            try:
                flat = dsl.build(flat_dump)
            except Exception as exc:  # noqa: BLE001
                stats["flat-unbuildable"] = stats.get("flat-unbuildable", 0) + 1
                flat = None
            if flat is not None:
                try:
                    schema = __import__("harness.props.c08", fromlist=["dump_to_schema"]).dump_to_schema(flat_dump)
                    values = vg.values(schema, 6)
                except Exception:  # noqa: BLE001
                    values = []
                values = values + PROBE_VALUES
                b_child, s_child = behaviour(cls, values)
                b_flat, s_flat = behaviour(flat, values)
                out.note_case({"history": list(h.log), "check": "flat"}, parent_idx != 0)
                cd = norm(core.dump_elem(cls))
                if cd != norm(flat_dump):
                    pd = props_diff(cd, norm(flat_dump))
                    out.failures.append({"case": h.case(), "what": f"{dump['name']} is configured differently from the flat class with the merged keywords and properties: "
                                         + (pd + "; " if pd else "") +
                                         f"{json.dumps(cd, sort_keys=True)[:300]} vs {json.dumps(norm(flat_dump), sort_keys=True)[:300]}", "finding": None})
                elif b_child != b_flat:
                    i = next(i for i, (a, b) in enumerate(zip(b_child, b_flat)) if a != b)
                    out.failures.append({"case": {**h.case(), "value": core.enc_arg(values[i])}, "what": f"{dump['name']} answers {b_child[i][:120]} but the flat merged class answers {b_flat[i][:120]}", "finding": None})
                elif s_child != s_flat:
                    out.failures.append({"case": h.case(), "what": f"{dump['name']} serializes differently from the flat merged class", "finding": None})
                # instances
                for v in values:
                    try:
                        inst = cls(v)
                    except Exception:  # noqa: BLE001
                        continue
                    if isinstance(v, dict) and not all(isinstance(inst, anc) for anc in cls.__mro__[:-1] if anc is not object):
                        out.failures.append({"case": h.case(), "what": f"instance of {dump['name']} is not an instance of all its ancestors", "finding": None})
                        break
        else:
            target = rng.randrange(1, len(h.classes))
            cls = h.classes[target]
            before = h.snapshot(skip=target)
            kind = rng.random()
            names = list(cls.properties)
            what = None
            try:
                if kind < 0.2:
                    values = PROBE_VALUES + [{n: 1 for n in names}]
                    for v in values:
                        core.real_call(cls, v)
                    _ = cls.validators
                    try:
                        serialize_json(cls)
                    except Exception:  # noqa: BLE001
                        pass
                    h.ops.append({"op": "use", "cls": target})
                    what = f"using {cls.__name__}"
                elif kind < 0.45:
                    dump, passed, _ = gen_decl(rng, dg, 99, [])
                    passed = [p for p in passed if p != "description"] or ["minProperties"]
                    if "minProperties" in passed and "minProperties" not in dump["kw"]:
                        dump["kw"]["minProperties"] = core.enc_val(rng.choice([0, 1]))
                    passed = rng.sample(passed, min(len(passed), rng.choice([1, 1, 2])))
                    for kname, v in real_kwargs(dump, passed).items():
                        setattr(cls, kname, v)
                    h.ops.append({"op": "set_kw", "cls": target, "args": args_json(dump, passed)})
                    what = f"{cls.__name__}.{'/'.join(passed)} = ..."
                elif kind < 0.65 or not names:
                    n = rng.choice(dsl.ATTRS)
                    key = {"name": n, "source": dsl.SOURCES.get(n) or n}
                    if rng.random() < 0.5:
                        key["required"] = True
                    sub = dg.leaf()
                    cls.properties[n] = Property(dsl.build(sub), required=bool(key.get("required")), source=key["source"] if key["source"] != n else None)
                    h.ops.append({"op": "set_prop", "cls": target, "name": n, "prop": cell_json(key, sub)})
                    what = f"{cls.__name__}.properties[{n!r}] = Property(...)"
                elif kind < 0.75:
                    n = rng.choice(names)
                    del cls.properties[n]
                    h.ops.append({"op": "del_prop", "cls": target, "name": n})
                    what = f"del {cls.__name__}.properties[{n!r}]"
                elif kind < 0.9:
                    n = rng.choice(names)
                    b = not cls.properties[n].required
                    cls.properties[n].required = b
                    h.ops.append({"op": "set_required", "cls": target, "name": n, "value": b})
                    what = f"{cls.__name__}.properties[{n!r}].required = {b}"
                else:
                    n = rng.choice(names)
                    sub = dg.leaf()
                    cls.properties[n].element = dsl.build(sub)
                    h.ops.append({"op": "set_element", "cls": target, "name": n, "elem": sub})
                    what = f"{cls.__name__}.properties[{n!r}].element = ..."
            except Exception as exc:  # noqa: BLE001
                stats["reconfig-raised-" + type(exc).__name__] = stats.get("reconfig-raised-" + type(exc).__name__, 0) + 1
                break
            h.log.append(what)
            stats[what.split(" ")[0].split(".")[-1].split("[")[0] if not what.startswith("using") else "use"] = stats.get(what.split(" ")[0].split(".")[-1].split("[")[0] if not what.startswith("using") else "use", 0) + 1
            out.note_case({"history": list(h.log), "check": "isolation"}, len(h.classes) > 2)
            h.check_isolation(before, target, what)
    # ---- the model: views of every class after every step
    rep = drv.ask({"op": "inherit_history", "ops": h.ops})
    if "error" in rep:
        stats["driver-error"] = stats.get("driver-error", 0) + 1
        return
    out.traces_validated += 1
    # compare the final views (and, cheaply, every intermediate one by re-running is not possible on real classes:
    # the real classes only have their final state; intermediate agreement is covered by histories of every length)
    final = rep["views"][-1] if rep["views"] else []
    real = []
    for c in h.classes:
        try:
            real.append(norm(core.dump_elem(c)))
        except (TypeError, ValueError, RecursionError):
            real.append(None)
    model = [norm(v) for v in final]
    for i, (r, m) in enumerate(zip(real, model)):
        if i == 0 or r is None:
            continue
        if r != m:
            out.disagreements.append({"what": f"configuration of {h.classes[i].__name__} after the history", "impl": r, "model": m, **h.case()})
            break
    if len(real) != len(model):
        out.disagreements.append({"what": "number of classes", "impl": len(real), "model": len(model), **h.case()})


def instance_and_alias_case(rng, out, stats):
    """(1) instances of a subclass are instances of the parent: the parent, and a property slot of the parent's type, take them as
    they are; (2) a subclass that reuses one of the parent's own Property objects under another attribute name leaves the parent's
    behaviour as it was (compared with an independently built twin of the parent)."""
    from statham.schema.elements import Integer, Object, String
    from statham.schema.elements.meta import ObjectClassDict, ObjectMeta
    closed = rng.random() < 0.5
    renamed = rng.random() < 0.5
    spec = {"closed": closed, "renamed": renamed, "alias": rng.random() < 0.5, "child_first": rng.random() < 0.5}

    def make_parent(name):
        cd = ObjectClassDict()
        cd["color"] = Property(String(), required=True, source="colour-name" if renamed else None)
        cd["n"] = Property(Integer())
        return ObjectMeta(name, (Object,), cd, **({"additionalProperties": False} if closed else {}))
    parent, twin = make_parent("Product"), make_parent("Product")
    key = "colour-name" if renamed else "color"
    cd = ObjectClassDict()
    cd["size"] = Property(Integer(), required=True)
    if spec["alias"]:
        cd["colour"] = parent.properties["color"]          # the very same Property object, under another name
    child = ObjectMeta("ProductV2", (parent,), cd, **({"additionalProperties": True} if closed and rng.random() < 0.5 else {}))
    case = {"instance_alias": spec}
    out.note_case(case, True)
    values = [{key: "red"}, {key: "red", "n": 1}, {}, {key: 1}, {key: "red", "zz": 1}, {"color": "red"}, {"colour": "red"}]
    child_data = {key: "red", "size": 3, "n": 2} if not spec["alias"] else {key: "red", "size": 3}
    if spec["child_first"]:
        core.real_call(child, child_data)
    # (1)
    try:
        inst = child(child_data)
    except Exception:  # noqa: BLE001
        inst = None
    if inst is not None:
        if not isinstance(inst, parent):
            out.failures.append({"case": case, "what": "an instance of the subclass is not an instance of the parent", "finding": None})
            return
        cd2 = ObjectClassDict()
        cd2["item"] = Property(parent, required=True)
        holder = ObjectMeta("Holder", (Object,), cd2)
        for what, call in (("the parent called on a subclass instance", lambda: parent(inst)), ("a property of the parent's type given a subclass instance", lambda: holder({"item": inst}).item)):
            try:
                got = call()
            except Exception as exc:  # noqa: BLE001
                out.failures.append({"case": case, "what": f"{what}: {type(exc).__name__}: {str(exc)[:120]}", "finding": None})
                return
            if got is not inst and got != inst:
                out.failures.append({"case": case, "what": f"{what}: came back as a different object {got!r}", "finding": None})
                return
        stats["subclass-instance-ok"] = stats.get("subclass-instance-ok", 0) + 1
    # (2) the parent behaves like its untouched twin (results, not text: re-binding a shared wrapper is allowed to show in reprs)
    bp, bt = behaviour(parent, values), behaviour(twin, values)
    if bp != bt:
        i = next((i for i, (x, y) in enumerate(zip(bp[0], bt[0])) if x != y), None)
        out.failures.append({"case": case, "what": "defining / using the subclass changed the parent: " +
                             (f"on {values[i]!r} it answers {bp[0][i][:100]}, its twin {bt[0][i][:100]}" if i is not None else "its serialization differs from its twin's"), "finding": None})
        return
    try:
        pinst = parent({key: "red"})
        if getattr(pinst, "color", None) != "red":
            out.failures.append({"case": case, "what": f"the parent's own attribute is gone: Product({{{key!r}: 'red'}}).color is {getattr(pinst, 'color', '<missing>')!r}", "finding": None})
            return
    except Exception as exc:  # noqa: BLE001
        out.failures.append({"case": case, "what": f"the parent no longer accepts its own data: {type(exc).__name__}", "finding": None})
        return
    stats["parent-twin-ok"] = stats.get("parent-twin-ok", 0) + 1


def run(ctx, scale=1.0):
    rng = random.Random(ctx["seed"] + 15)
    out = Outcome()
    out.rule = ("histories of 1-25 steps: class statements (parent = any class so far incl. Object, any subset of 11 keywords, 0-4 properties biased to "
                "override inherited names, plus (35%) one added under a fresh attribute whose JSON name is the attribute or JSON name of an earlier property, "
                "docstrings, chains up to depth 6) interleaved with uses and 5 kinds of reconfiguration on a random class; "
                "after every class statement: flat-equivalence (dump, 22+ values, serialize_json, instance-of); after every step: isolation of all other "
                "classes (dump, 16 probe values, serialize_json); model views compared at the end of each history (lengths 1-25 all occur); "
                "a case is one check after one step; non-trivial = involves a class below a user class; distinct by SHA-256")
    stats = {}
    drv = core.Driver()
    try:
        n = int(N_HIST[ctx["tier"]] * scale)
        for i in range(n):
            run_history(drv, rng, out, stats, f"h{i}", rng.randint(1, 25))
        for i in range(int(60 * scale)):
            instance_and_alias_case(rng, out, stats)
    finally:
        drv.close()
    out.stats = stats
    return out


def search(ctx, reason):
    sub = dict(ctx)
    sub["seed"] = ctx["seed"] + 86028121
    found = run(sub, scale=3.0 if ctx["tier"] == "quick" else 1.0)
    return found.failures[0] if found.failures else None


def replay_finding(finding):
    return False


def replay(payload):
    ctx = {"seed": payload.get("seed", 0), "tier": payload.get("tier", "quick")}
    found = run(ctx)
    return not found.failures
