"""C13 — elements validate according to their current configuration.

Correspondence: histories interleaving reconfiguration steps (keyword attributes reassigned,
properties added / replaced / removed, property flags and elements changed, on elements and on
model classes) with validation calls; after every step the real element is dumped (its current
configuration, as the model sees it) and the model's answers for that configuration are
compared with the real element's answers.  Oracle: a fresh element built from the same dump."""
import random

from statham.schema.elements import Element
from statham.schema.property import Property

from harness import core, dsl
from harness.framework import Outcome
from harness.gen import ValueGen, INTS, PATTERNS
from harness.props.c08 import dump_to_schema

ID = "C13"
TIE_MODULES = ["StathamModel.Tie"]
ASSUMPTIONS = ["reconfiguration goes through attribute assignment and the properties mapping (the public surface)"]
N_HIST = {"quick": 250, "thorough": 3000}


def _not_nothing(dg):
    """a leaf dump that is not `Nothing()`: as `additionalProperties`, a `Nothing()` element means what `False` means
    (the generator writes `False` for it; the model's `AdditionalProperties` validator treats element values as truthy)"""
    while True:
        d = dg.leaf()
        if d["cls"] != "Nothing":
            return d


def _json_equal(a, b):
    if isinstance(a, bool) or isinstance(b, bool):
        return isinstance(a, bool) and isinstance(b, bool) and a == b
    if isinstance(a, (int, float)) and isinstance(b, (int, float)):
        return a == b
    if type(a) is not type(b):
        return False
    if isinstance(a, list):
        return len(a) == len(b) and all(_json_equal(x, y) for x, y in zip(a, b))
    if isinstance(a, dict):
        return set(a) == set(b) and all(_json_equal(a[k], b[k]) for k in a)
    return a == b


def current_config(el):
    """The element's current configuration as a dump.  A property that carries no explicit `source` is looked up by
    the name it is stored under (the library fills `source` in lazily, when the property is bound); the dump states
    that key explicitly, so that the configuration reads the same before and after the binding."""
    dump = core.dump_elem(el)

    def walk(d):
        if isinstance(d, dict):
            for key, sub in d.get("props", []):
                if "source" not in key:
                    key["source"] = key["name"]
            for k, v in d.items():
                if k != "kw":  # literals (const / enum / default) are data, not configuration structure
                    walk(v)
        elif isinstance(d, list):
            for v in d:
                walk(v)
    walk(dump)
    return dump


PROBE_LEAVES = [1, "s", None, True, 1.5, [], {}, "aa", 0, [1]]


def property_probes(rng, config, n, stats):
    """Objects that use the lookup keys of currently declared properties (one or two of them, sometimes next to an
    undeclared key): whether a key is a declared property, and what its element accepts, is the part of the verdict
    that adding / replacing / removing properties changes."""
    keys = [key.get("source") or key["name"] for key, _ in config.get("props", [])]
    out = []
    for _ in range(n if keys else 0):
        obj = {k: rng.choice(PROBE_LEAVES) for k in rng.sample(keys, min(len(keys), rng.choice([1, 1, 2])))}
        if rng.random() < 0.25:
            obj["zz"] = rng.choice(PROBE_LEAVES)
        out.append(obj)
        stats["property-probe-values"] = stats.get("property-probe-values", 0) + 1
    return out


def reconfig_ops(rng, el, dg):
    """One random reconfiguration step applied to the real element; returns a description."""
    ops = []
    is_class = isinstance(el, type)
    num = lambda: rng.choice(INTS + [1.5, 2.5])
    simple = [
        ("minimum", num), ("maximum", num), ("exclusiveMinimum", num), ("exclusiveMaximum", num),
        ("multipleOf", lambda: rng.choice([1, 2, 3])), ("minLength", lambda: rng.choice([0, 1, 2, 3])),
        ("maxLength", lambda: rng.choice([0, 1, 2, 3])), ("pattern", lambda: rng.choice(PATTERNS)),
        ("minItems", lambda: rng.choice([0, 1, 2])), ("maxItems", lambda: rng.choice([0, 1, 2, 3])),
        ("uniqueItems", lambda: rng.choice([True, False])),
        ("minProperties", lambda: rng.choice([0, 1, 2])), ("maxProperties", lambda: rng.choice([0, 1, 2, 3])),
        ("required", lambda: rng.sample(["a", "b", "c", "zz"], rng.choice([0, 1, 2]))),
        ("const", lambda: rng.choice([1, "a", None, [1], {"a": 1}, True, 1.0, 0, False, 0.0])),
        ("enum", lambda: rng.sample([1, 2, "a", None, True, [1]], rng.choice([1, 2, 3]))),
        ("default", lambda: rng.choice([1, "a", None, [], {"a": 1}, False])),
        ("additionalProperties", lambda: rng.choice([True, False, dsl.build(_not_nothing(dg))])),
        ("additionalItems", lambda: rng.choice([True, False, dsl.build(dg.leaf())])),
        ("items", lambda: rng.choice([dsl.build(dg.leaf()), [dsl.build(dg.leaf())], [dsl.build(dg.leaf()), dsl.build(dg.leaf())]])),
        ("contains", lambda: dsl.build(dg.leaf())),
        ("propertyNames", lambda: dsl.build({"cls": "String", "kw": {"maxLength": {"i": str(rng.choice([1, 2]))}}})),
        ("patternProperties", lambda: {rng.choice(PATTERNS): dsl.build(dg.leaf())}),
        ("dependencies", lambda: {rng.choice(["a", "b"]): rng.choice([["c"], dsl.build(dg.leaf())])}),
    ]
    members = getattr(el, "elements", None)
    if isinstance(members, list) and not is_class and rng.random() < 0.35:
        new = list(members)
        how = rng.random()
        if how < 0.4 and len(new) > 1:
            del new[rng.randrange(len(new))]
        elif how < 0.7:
            new[rng.randrange(len(new))] = dsl.build(dg.leaf())
        else:
            new.insert(rng.randrange(len(new) + 1), dsl.build(dg.leaf()))
        el.elements = new
        return "set elements"
    kind = rng.random()
    props = getattr(el, "properties", None)
    has_props = props is not None and not isinstance(props, core.NotPassed)
    if kind < 0.5 or not has_props:
        name, mk = rng.choice(simple)
        if is_class and name in ("items", "additionalItems", "contains", "minItems", "maxItems", "uniqueItems",
                                 "minimum", "maximum", "exclusiveMinimum", "exclusiveMaximum", "multipleOf",
                                 "minLength", "maxLength", "pattern"):
            name, mk = rng.choice([s for s in simple if s[0] in ("minProperties", "maxProperties", "required", "const", "enum",
                                                                  "default", "additionalProperties", "propertyNames",
                                                                  "patternProperties", "dependencies")])
        value = mk()
        setattr(el, name, value)
        return f"set {name}"
    k2 = rng.random()
    names = list(props)
    if k2 < 0.22 or not names:
        n = rng.choice(NEW_NAMES)
        props[n] = Property(dsl.build(dg.leaf()), required=rng.random() < 0.4)
        return f"properties[{n}] = ..."
    if k2 < 0.40:
        return mapping_method_op(rng, el, props, dg)
    if k2 < 0.5:
        n = rng.choice(names)
        del props[n]
        return f"del properties[{n}]"
    if k2 < 0.65:
        n = rng.choice(names)
        props[n].required = not props[n].required
        return f"properties[{n}].required flip"
    if k2 < 0.85:
        n = rng.choice(names)
        props[n].element = dsl.build(dg.leaf())
        return f"properties[{n}].element = ..."
    el.properties = {rng.choice(["a", "b"]): Property(dsl.build(dg.leaf()), required=rng.random() < 0.5)}
    return "properties = {...}"


NEW_NAMES = ["a", "b", "c", "a_b", "n1"]


def mapping_method_op(rng, el, props, dg):
    """`properties` is a mutable mapping: properties are also added / replaced / removed through the mapping methods other
    than item assignment and `del` (`update` in its three call shapes, `setdefault`, `|=` on the container and on the
    attribute, `|` + reassignment, `pop`, `popitem`, `clear`).  New `Property` objects are fresh (never bound before);
    some carry an explicit `source=`, most do not (then the key they are stored under is the key they are looked up by)."""
    def fresh_prop(n):
        source = None
        if rng.random() < 0.2:
            source = rng.choice([n, n + "_src"])
        return Property(dsl.build(dg.leaf()), required=rng.random() < 0.3, source=source)

    names = list(props)
    how = rng.choice(["update-dict", "update-kwargs", "update-pairs", "setdefault", "ior-container", "ior-attribute",
                      "or-reassign", "pop", "popitem", "clear"])
    if how in ("pop", "popitem", "clear") and not names:
        how = "update-dict"
    if how == "pop":
        n = rng.choice(names + ["zz"])
        props.pop(n, None)
        return f"properties.pop {n}"
    if how == "popitem":
        n, _ = props.popitem()
        return f"properties.popitem {n}"
    if how == "clear":
        props.clear()
        return "properties.clear"
    # additions: one or two entries; a name may be new (add) or present already (replace; for setdefault: no change)
    pool = NEW_NAMES + names
    new = {}
    for _ in range(rng.choice([1, 1, 2])):
        n = rng.choice(pool)
        new[n] = fresh_prop(n)
    keys = ",".join(new)
    if how == "update-dict":
        props.update(new)
    elif how == "update-kwargs" and all(n.isidentifier() for n in new):
        props.update(**new)
    elif how == "update-pairs" or how == "update-kwargs":
        how = "update-pairs"
        props.update(list(new.items()))
    elif how == "setdefault":
        for n, p in new.items():
            props.setdefault(n, p)
    elif how == "ior-container":
        props |= new
    elif how == "ior-attribute":
        el.properties |= new
    else:
        el.properties = el.properties | new
    return f"properties.{how} {keys}"


def compare(drv, el, values, out, stats, history, origin):
    """Model's answers for the current configuration vs the real element vs a fresh element."""
    try:
        dump = current_config(el)
        enc_vals = [core.enc_arg(v) for v in values]
    except (TypeError, ValueError, RecursionError):
        stats["undumpable"] = stats.get("undumpable", 0) + 1
        return
    pats, fmts = core.elem_patterns_formats(el)
    texts = set()
    for v in values:
        if not isinstance(v, core.NotPassed):
            core.all_strings(v, texts)
    core.all_strings(dump, texts)
    rep = drv.ask({"op": "elem_call", "elem": dump, "args": enc_vals, "tables": core.make_tables(pats, fmts, sorted(texts))})
    if "error" in rep:
        stats["driver-error"] = stats.get("driver-error", 0) + 1
        return
    try:
        fresh = dsl.build(dump)
    except Exception:  # noqa: BLE001
        fresh = None
    out.traces_validated += 1
    for v, enc, model in zip(values, enc_vals, rep["results"]):
        real = core.real_call(el, v)
        case = {"origin": origin, "history": list(history), "config": dump, "value": enc}
        out.note_case({"config": dump, "value": enc, "steps": len(history)}, len(history) > 0)
        stats["verdict-" + real["r"]] = stats.get("verdict-" + real["r"], 0) + 1
        if real["r"] not in ("ok", "reject") or model["r"] == "crash":
            continue
        if real != model:
            out.disagreements.append({"what": "answer after reconfiguration", "impl": real, "model": model, **case})
        if fresh is not None:
            fr = core.real_call(fresh, v)
            if fr["r"] in ("ok", "reject") and fr["r"] != real["r"]:
                out.failures.append({"case": case, "what": f"reconfigured element answers {real['r']}, a fresh element with the same configuration {fr['r']}", "finding": None})
            elif fr["r"] == "ok" and fr != real:
                out.failures.append({"case": case, "what": f"reconfigured / used element returns {str(real.get('v'))[:120]}, a fresh element with the same configuration "
                                     f"{str(fr.get('v'))[:120]}", "finding": None})
        # a reference that no state inside the process can reach: an accepted value equals the current `const`
        # as JSON values (true is not 1; 1 is 1.0)
        ckw = dump.get("kw", {})
        if "const" in ckw and real["r"] == "ok" and not isinstance(v, core.NotPassed):
            if not _json_equal(dsl.dec_val(ckw["const"]), v):
                out.failures.append({"case": case, "what": f"accepted {v!r} although the current const is {dsl.dec_val(ckw['const'])!r}", "finding": None})
    # the configuration is what the reconfiguration steps made it: calls must not have moved it
    try:
        after = current_config(el)
    except Exception:  # noqa: BLE001
        after = dump
    if after != dump:
        out.failures.append({"case": {"origin": origin, "history": list(history), "config": dump, "config_after_calls": after},
                             "what": "validation calls changed the element's configuration (state from earlier calls leaks into later ones)",
                             "finding": None})


def run(ctx, scale=1.0):
    rng = random.Random(ctx["seed"] + 13)
    out = Outcome()
    out.rule = ("histories of 8-12 steps on DSL-built elements and model classes: each step is a reconfiguration (one of 24 keyword "
                "assignments, property add/replace/delete/flag flip/element swap, whole-mapping replacement, the mapping methods of the "
                "properties container: update (dict / keywords / pairs), setdefault, |= on the container and on the attribute, | and "
                "reassignment, pop, popitem, clear) followed by calls on generated values, objects probing the declared property keys and fixed values; "
                "a case is one call with its history; non-trivial = made after at least one reconfiguration; distinct by SHA-256")
    stats = {}
    drv = core.Driver()
    try:
        vg, dg = ValueGen(rng), dsl.DumpGen(rng)
        n = int(N_HIST[ctx["tier"]] * scale)
        for i in range(n):
            k = i % 3
            if k == 0:
                dump = dg.element(2)
            elif k == 1:
                dump = dg.obj(2)
            else:
                dump = dg.dump(2)
            if dump["cls"] in ("Nothing",):
                continue
            el = dsl.build(dump)
            origin = dump["cls"]
            stats["start-" + origin] = stats.get("start-" + origin, 0) + 1
            history = []
            schema = dump_to_schema(dump)
            compare(drv, el, vg.values(schema, 5) + [core.NP], out, stats, history, origin)
            for _ in range(rng.randint(8, 12) if ctx["tier"] == "quick" else rng.randint(10, 40)):
                try:
                    desc = reconfig_ops(rng, el, dg)
                except Exception as exc:  # noqa: BLE001 - e.g. SchemaDefinitionError on a bad property: part of the API
                    stats["reconfig-raised-" + type(exc).__name__] = stats.get("reconfig-raised-" + type(exc).__name__, 0) + 1
                    continue
                history.append(desc)
                stats[desc.split(" ")[0].split("[")[0]] = stats.get(desc.split(" ")[0].split("[")[0], 0) + 1
                try:
                    config = current_config(el)
                    schema = dump_to_schema(config)
                except Exception:  # noqa: BLE001
                    config, schema = {}, {}
                compare(drv, el, vg.values(schema, 4) + property_probes(rng, config, 2, stats) + [{"a": 1}, core.NP, True, 1, 1.0, 0, False], out, stats, history, origin)
        # compositions over overlapping branches: which branch answers must depend on the value and the configuration only
        strict = {"cls": "Object", "name": "Strict", "kw": {"hasProps": True, "addPropsB": False}, "props": [[{"name": "value", "source": "value"}, {"cls": "Integer", "kw": {}}]]}
        loose = {"cls": "Object", "name": "Loose", "kw": {"hasProps": True}, "props": [[{"name": "value", "source": "value"}, {"cls": "Integer", "kw": {}}],
                                                                                      [{"name": "unit", "source": "unit"}, {"cls": "String", "kw": {"default": "none"}}]]}
        for i in range(int((12 if ctx["tier"] == "quick" else 300) * scale)):
            mode = rng.choice(["AnyOf", "AnyOf", "OneOf", "AllOf"])
            members = [strict, loose] if rng.random() < 0.7 else [loose, strict]
            if rng.random() < 0.4:
                members = members + [{"cls": "String", "kw": {}}]
            dump = {"cls": mode, "kw": {}, "elements": members}
            if rng.random() < 0.5:
                dump = {"cls": "Array", "kw": {"itemsKind": "single"}, "items": [dump]}
            el = dsl.build(dump)
            history = []
            both, second_only = {"value": 1}, {"value": 2, "unit": "m"}
            seq = [both, second_only, both, "s", {"value": 3, "extra": 1}, both]
            rng.shuffle(seq)
            for v in seq:
                vv = [v] if dump["cls"] == "Array" else v
                compare(drv, el, [vv, [both, second_only, both] if dump["cls"] == "Array" else both], out, stats, history, "composition-family")
                history.append(f"call {v!r}")
    finally:
        drv.close()
    out.stats = stats
    return out


def search(ctx, reason):
    sub = dict(ctx)
    sub["seed"] = ctx["seed"] + 32452843
    found = run(sub, scale=3.0 if ctx["tier"] == "quick" else 1.0)
    return found.failures[0] if found.failures else None


def replay_finding(finding):
    return False


def replay(payload):
    # histories are replayed by re-running the seeded search (steps are PRNG-derived)
    ctx = {"seed": payload.get("seed", 0), "tier": payload.get("tier", "quick")}
    found = run(ctx)
    return not found.failures
