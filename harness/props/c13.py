"""C13 — elements validate according to their current configuration.

Correspondence: histories interleaving reconfiguration steps (keyword attributes reassigned,
properties added / replaced / removed, property flags and elements changed, on elements and on
model classes) with validation calls; after every step the real element is dumped (its current
configuration, as the model sees it) and the model's answers for that configuration are
compared with the real element's answers.  Oracle: a fresh element built from the same dump."""
import copy
import keyword
import random
import time

from statham.schema.elements import Element
from statham.schema.property import Property

from harness import core, dsl
from harness.framework import Outcome
from harness.gen import ValueGen, INTS, PATTERNS
from harness.props.c08 import dump_to_schema

ID = "C13"
TIE_MODULES = ["StathamModel.Tie"]
ASSUMPTIONS = ["reconfiguration goes through attribute assignment and the properties mapping (the public surface)"]
N_HIST = {"quick": 250, "thorough": 3000}
N_CARRIED = {"quick": 220, "thorough": 1500}
N_DECLARED = {"quick": 260, "thorough": 2500}


def _not_nothing(dg):
    """a leaf dump that is not `Nothing()`: as `additionalProperties`, a `Nothing()` element means what `False` means
    (the generator writes `False` for it; the model's `AdditionalProperties` validator treats element values as truthy)"""
    while True:
        d = dg.leaf()
        if d["cls"] != "Nothing":
            return d


def _json_equal(a, b):
    if isinstance(a, bool) or isinstance(b, bool):
        return isinstance(a, bool) and isinstance(b, bool) and a == b
    if isinstance(a, (int, float)) and isinstance(b, (int, float)):
        return a == b
    if type(a) is not type(b):
        return False
    if isinstance(a, list):
        return len(a) == len(b) and all(_json_equal(x, y) for x, y in zip(a, b))
    if isinstance(a, dict):
        return set(a) == set(b) and all(_json_equal(a[k], b[k]) for k in a)
    return a == b


def current_config(el):
    """The element's current configuration as a dump.  A property that carries no explicit `source` is looked up by
    the name it is stored under (the library fills `source` in lazily, when the property is bound); the dump states
    that key explicitly, so that the configuration reads the same before and after the binding."""
    dump = core.dump_elem(el)

    def walk(d):
        if isinstance(d, dict):
            for key, sub in d.get("props", []):
                if "source" not in key:
                    key["source"] = key["name"]
            for k, v in d.items():
                if k != "kw":  # literals (const / enum / default) are data, not configuration structure
                    walk(v)
        elif isinstance(d, list):
            for v in d:
                walk(v)
    walk(dump)
    return dump


PROBE_LEAVES = [1, "s", None, True, 1.5, [], {}, "aa", 0, [1]]


def property_probes(rng, config, n, stats):
    """Objects that use the lookup keys of currently declared properties (one or two of them, sometimes next to an
    undeclared key): whether a key is a declared property, and what its element accepts, is the part of the verdict
    that adding / replacing / removing properties changes."""
    keys = [key.get("source") or key["name"] for key, _ in config.get("props", [])]
    out = []
    for _ in range(n if keys else 0):
        obj = {k: rng.choice(PROBE_LEAVES) for k in rng.sample(keys, min(len(keys), rng.choice([1, 1, 2])))}
        if rng.random() < 0.25:
            obj["zz"] = rng.choice(PROBE_LEAVES)
        out.append(obj)
        stats["property-probe-values"] = stats.get("property-probe-values", 0) + 1
    return out


def reconfig_ops(rng, el, dg):
    """One random reconfiguration step applied to the real element; returns a description."""
    ops = []
    is_class = isinstance(el, type)
    num = lambda: rng.choice(INTS + [1.5, 2.5])
    simple = [
        ("minimum", num), ("maximum", num), ("exclusiveMinimum", num), ("exclusiveMaximum", num),
        ("multipleOf", lambda: rng.choice([1, 2, 3])), ("minLength", lambda: rng.choice([0, 1, 2, 3])),
        ("maxLength", lambda: rng.choice([0, 1, 2, 3])), ("pattern", lambda: rng.choice(PATTERNS)),
        ("minItems", lambda: rng.choice([0, 1, 2])), ("maxItems", lambda: rng.choice([0, 1, 2, 3])),
        ("uniqueItems", lambda: rng.choice([True, False])),
        ("minProperties", lambda: rng.choice([0, 1, 2])), ("maxProperties", lambda: rng.choice([0, 1, 2, 3])),
        ("required", lambda: rng.sample(["a", "b", "c", "zz"], rng.choice([0, 1, 2]))),
        ("const", lambda: rng.choice([1, "a", None, [1], {"a": 1}, True, 1.0, 0, False, 0.0])),
        ("enum", lambda: rng.sample([1, 2, "a", None, True, [1]], rng.choice([1, 2, 3]))),
        ("default", lambda: rng.choice([1, "a", None, [], {"a": 1}, False])),
        ("additionalProperties", lambda: rng.choice([True, False, dsl.build(_not_nothing(dg))])),
        ("additionalItems", lambda: rng.choice([True, False, dsl.build(dg.leaf())])),
        ("items", lambda: rng.choice([dsl.build(dg.leaf()), [dsl.build(dg.leaf())], [dsl.build(dg.leaf()), dsl.build(dg.leaf())]])),
        ("contains", lambda: dsl.build(dg.leaf())),
        ("propertyNames", lambda: dsl.build({"cls": "String", "kw": {"maxLength": {"i": str(rng.choice([1, 2]))}}})),
        ("patternProperties", lambda: {rng.choice(PATTERNS): dsl.build(dg.leaf())}),
        ("dependencies", lambda: {rng.choice(["a", "b"]): rng.choice([["c"], dsl.build(dg.leaf())])}),
    ]
    members = getattr(el, "elements", None)
    if isinstance(members, list) and not is_class and rng.random() < 0.35:
        new = list(members)
        how = rng.random()
        if how < 0.4 and len(new) > 1:
            del new[rng.randrange(len(new))]
        elif how < 0.7:
            new[rng.randrange(len(new))] = dsl.build(dg.leaf())
        else:
            new.insert(rng.randrange(len(new) + 1), dsl.build(dg.leaf()))
        el.elements = new
        return "set elements"
    kind = rng.random()
    props = getattr(el, "properties", None)
    has_props = props is not None and not isinstance(props, core.NotPassed)
    if kind < 0.5 or not has_props:
        name, mk = rng.choice(simple)
        if is_class and name in ("items", "additionalItems", "contains", "minItems", "maxItems", "uniqueItems",
                                 "minimum", "maximum", "exclusiveMinimum", "exclusiveMaximum", "multipleOf",
                                 "minLength", "maxLength", "pattern"):
            name, mk = rng.choice([s for s in simple if s[0] in ("minProperties", "maxProperties", "required", "const", "enum",
                                                                  "default", "additionalProperties", "propertyNames",
                                                                  "patternProperties", "dependencies")])
        value = mk()
        setattr(el, name, value)
        return f"set {name}"
    k2 = rng.random()
    names = list(props)
    if k2 < 0.22 or not names:
        n = rng.choice(NEW_NAMES)
        props[n] = Property(dsl.build(dg.leaf()), required=rng.random() < 0.4)
        return f"properties[{n}] = ..."
    if k2 < 0.40:
        return mapping_method_op(rng, el, props, dg)
    if k2 < 0.5:
        n = rng.choice(names)
        del props[n]
        return f"del properties[{n}]"
    if k2 < 0.65:
        n = rng.choice(names)
        props[n].required = not props[n].required
        return f"properties[{n}].required flip"
    if k2 < 0.85:
        n = rng.choice(names)
        props[n].element = dsl.build(dg.leaf())
        return f"properties[{n}].element = ..."
    el.properties = {rng.choice(["a", "b"]): Property(dsl.build(dg.leaf()), required=rng.random() < 0.5)}
    return "properties = {...}"


NEW_NAMES = ["a", "b", "c", "a_b", "n1"]


def mapping_method_op(rng, el, props, dg):
    """`properties` is a mutable mapping: properties are also added / replaced / removed through the mapping methods other
    than item assignment and `del` (`update` in its three call shapes, `setdefault`, `|=` on the container and on the
    attribute, `|` + reassignment, `pop`, `popitem`, `clear`).  New `Property` objects are fresh (never bound before);
    some carry an explicit `source=`, most do not (then the key they are stored under is the key they are looked up by)."""
    def fresh_prop(n):
        source = None
        if rng.random() < 0.2:
            source = rng.choice([n, n + "_src"])
        return Property(dsl.build(dg.leaf()), required=rng.random() < 0.3, source=source)

    names = list(props)
    how = rng.choice(["update-dict", "update-kwargs", "update-pairs", "setdefault", "ior-container", "ior-attribute",
                      "or-reassign", "pop", "popitem", "clear"])
    if how in ("pop", "popitem", "clear") and not names:
        how = "update-dict"
    if how == "pop":
        n = rng.choice(names + ["zz"])
        props.pop(n, None)
        return f"properties.pop {n}"
    if how == "popitem":
        n, _ = props.popitem()
        return f"properties.popitem {n}"
    if how == "clear":
        props.clear()
        return "properties.clear"
    # additions: one or two entries; a name may be new (add) or present already (replace; for setdefault: no change)
    pool = NEW_NAMES + names
    new = {}
    for _ in range(rng.choice([1, 1, 2])):
        n = rng.choice(pool)
        new[n] = fresh_prop(n)
    keys = ",".join(new)
    if how == "update-dict":
        props.update(new)
    elif how == "update-kwargs" and all(n.isidentifier() for n in new):
        props.update(**new)
    elif how == "update-pairs" or how == "update-kwargs":
        how = "update-pairs"
        props.update(list(new.items()))
    elif how == "setdefault":
        for n, p in new.items():
            props.setdefault(n, p)
    elif how == "ior-container":
        props |= new
    elif how == "ior-attribute":
        el.properties |= new
    else:
        el.properties = el.properties | new
    return f"properties.{how} {keys}"


def compare(drv, el, values, out, stats, history, origin):
    """Model's answers for the current configuration vs the real element vs a fresh element."""
    try:
        dump = current_config(el)
        enc_vals = [core.enc_arg(v) for v in values]
    except (TypeError, ValueError, RecursionError):
        stats["undumpable"] = stats.get("undumpable", 0) + 1
        return
    # the fresh-element oracle below still applies there; only the model's answer is not consulted
    outside = core.outside_additional_properties_model(dump)
    if outside:
        stats["outside-additional-properties-model"] = stats.get("outside-additional-properties-model", 0) + 1
    pats, fmts = core.elem_patterns_formats(el)
    texts = set()
    for v in values:
        if not isinstance(v, core.NotPassed):
            core.all_strings(v, texts)
    core.all_strings(dump, texts)
    rep = drv.ask({"op": "elem_call", "elem": dump, "args": enc_vals, "tables": core.make_tables(pats, fmts, sorted(texts))})
    if "error" in rep:
        stats["driver-error"] = stats.get("driver-error", 0) + 1
        return
    try:
        fresh = dsl.build(dump)
    except Exception:  # noqa: BLE001
        fresh = None
    out.traces_validated += 1
    for v, enc, model in zip(values, enc_vals, rep["results"]):
        real = core.real_call(el, v)
        case = {"origin": origin, "history": list(history), "config": dump, "value": enc}
        out.note_case({"config": dump, "value": enc, "steps": len(history)}, len(history) > 0)
        stats["verdict-" + real["r"]] = stats.get("verdict-" + real["r"], 0) + 1
        if real["r"] not in ("ok", "reject") or model["r"] == "crash":
            continue
        if real != model and not outside:
            out.disagreements.append({"what": "answer after reconfiguration", "impl": real, "model": model, **case})
        if fresh is not None:
            fr = core.real_call(fresh, v)
            if fr["r"] in ("ok", "reject") and fr["r"] != real["r"]:
                out.failures.append({"case": case, "what": f"reconfigured element answers {real['r']}, a fresh element with the same configuration {fr['r']}", "finding": None})
            elif fr["r"] == "ok" and fr != real:
                out.failures.append({"case": case, "what": f"reconfigured / used element returns {str(real.get('v'))[:120]}, a fresh element with the same configuration "
                                     f"{str(fr.get('v'))[:120]}", "finding": None})
        # a reference that no state inside the process can reach: an accepted value equals the current `const`
        # as JSON values (true is not 1; 1 is 1.0)
        ckw = dump.get("kw", {})
        if "const" in ckw and real["r"] == "ok" and not isinstance(v, core.NotPassed):
            if not _json_equal(dsl.dec_val(ckw["const"]), v):
                out.failures.append({"case": case, "what": f"accepted {v!r} although the current const is {dsl.dec_val(ckw['const'])!r}", "finding": None})
    # the configuration is what the reconfiguration steps made it: calls must not have moved it
    try:
        after = current_config(el)
    except Exception as exc:  # noqa: BLE001 - it could be read before the calls
        after = {"unreadable": f"{type(exc).__name__}: {exc}"[:200]}
    if after != dump:
        out.failures.append({"case": {"origin": origin, "history": list(history), "config": dump, "config_after_calls": after},
                             "what": "validation calls changed the element's configuration (state from earlier calls leaks into later ones)",
                             "finding": None})


# ----------------------------------------------------------------------------- carried histories
# The statement quantifies over every element ("an element or model class may be reconfigured after creation") and over
# every interleaving of reconfigurations and calls.  Two classes of histories are explored here that the families above
# never build:
#   * the element that is reconfigured is one that another element *holds* (a property's element, `items`, `contains`,
#     `additionalProperties`, `propertyNames`, a `patternProperties` / `dependencies` member, a composition member, the
#     operand of `Not`), reconfigured IN PLACE after the holder has been used - the holder is not told;
#   * the values of later calls are values of earlier calls: equal values built anew (anything remembered per value, per
#     key, per item is consulted again) and the very same Python objects (anything an earlier call left in or on the
#     value comes back).
# Oracle (the statement's own): the verdict and result of the live element for the value as the caller wrote it equal
# those of a freshly constructed element with the same configuration called on a freshly built, equal value.
# Every history is explicit data (start dump, value pool, steps), is replayed from that data alone and is shrunk.

NUM_KWS = {
    "minimum": INTS + [1.5, 2.5], "maximum": INTS + [1.5, 2.5], "exclusiveMinimum": INTS + [1.5, 2.5], "exclusiveMaximum": INTS + [1.5, 2.5],
    "multipleOf": [1, 2, 3], "minLength": [0, 1, 2, 3, 5], "maxLength": [0, 1, 2, 3, 5], "minItems": [0, 1, 2], "maxItems": [0, 1, 2, 3],
    "minProperties": [0, 1, 2, 3], "maxProperties": [0, 1, 2, 3],
}
KW_GROUPS = {
    "string": ["minLength", "maxLength", "pattern", "const", "enum"],
    "number": ["minimum", "maximum", "exclusiveMinimum", "exclusiveMaximum", "multipleOf", "const", "enum"],
    "array": ["minItems", "maxItems", "uniqueItems", "items", "additionalItems", "contains", "const", "enum"],
    "object": ["minProperties", "maxProperties", "required", "additionalProperties", "propertyNames", "patternProperties",
               "dependencies", "const", "enum", "default"],
    "any": ["const", "enum", "default"],
}
ALL_KWS = sorted({k for g in KW_GROUPS.values() for k in g})
# keywords whose "not given" state is NotPassed(): they can be taken away again by assigning NotPassed()
UNSETTABLE = set(ALL_KWS) - {"additionalProperties", "additionalItems", "uniqueItems"}
NAME_POOL = ["a", "b", "c", "ab", "a b", "zz", "class", "a_b", "", "x", "abc"]
LIT_POOL = [1, "a", None, [1], {"a": 1}, True, 1.0, 0, False, 0.0, {}, [], "b", 2]


def sub_elements(el):
    """[(step, element)] for every element that the configuration of `el` holds directly"""
    out = []
    items = getattr(el, "items", core.NP)
    if isinstance(items, list):
        out += [(["items", i], x) for i, x in enumerate(items) if isinstance(x, Element)]
    elif isinstance(items, Element):
        out.append((["items"], items))
    for attr in ("additionalItems", "contains", "additionalProperties", "propertyNames"):
        x = getattr(el, attr, core.NP)
        if isinstance(x, Element):
            out.append(([attr], x))
    props = getattr(el, "properties", core.NP)
    if isinstance(props, dict):
        out += [(["properties", n], p.element) for n, p in props.items() if isinstance(p.element, Element)]
    for attr in ("patternProperties", "dependencies"):
        m = getattr(el, attr, core.NP)
        if isinstance(m, dict):
            out += [([attr, k], x) for k, x in m.items() if isinstance(x, Element)]
    if isinstance(el, core.CompositionElement):
        out += [(["elements", i], x) for i, x in enumerate(el.elements) if isinstance(x, Element)]
    elif isinstance(el, core.Not):
        out.append((["element"], el.element))
    return out


def walk(root, limit=40, depth=4):
    """[(path, element)] breadth first, the root first"""
    nodes = [([], root)]
    i = 0
    while i < len(nodes) and len(nodes) < limit:
        path, el = nodes[i]
        i += 1
        if len(path) < depth:
            nodes += [(path + [step], sub) for step, sub in sub_elements(el)]
    return nodes[:limit]


def resolve(root, path):
    el = root
    for step in path:
        if step[0] == "properties":
            el = el.properties[step[1]].element
        elif len(step) == 2:
            el = getattr(el, step[0])[step[1]]
        else:
            el = getattr(el, step[0])
    return el


def dec_arg(enc):
    if isinstance(enc, dict) and "np" in enc:
        return core.NotPassed()
    return dsl.dec_val(enc)


def materialize(spec):
    """the Python value a step assigns (elements are built anew: never used before)"""
    if spec.get("unset"):
        return core.NotPassed()
    if "lit" in spec:
        return dsl.dec_val(spec["lit"])
    if "elem" in spec:
        return dsl.build(spec["elem"])
    if "elems" in spec:
        return [dsl.build(d) for d in spec["elems"]]
    return {k: (list(v["names"]) if "names" in v else dsl.build(v["elem"])) for k, v in spec["map"]}


def apply_step(root, step):
    """Apply one reconfiguration step (explicit data) to the live tree."""
    el = resolve(root, step["path"])
    if step["op"] == "set":
        setattr(el, step["kw"], materialize(step))
    elif step["op"] == "members":
        new = list(el.elements)
        if step["how"] == "del":
            del new[step["index"]]
        elif step["how"] == "replace":
            new[step["index"]] = dsl.build(step["elem"])
        else:
            new.insert(step["index"], dsl.build(step["elem"]))
        el.elements = new
    elif step["op"] == "prop":
        props = el.properties
        name = step["name"]
        if step["how"] == "add":
            prop = Property(dsl.build(step["elem"]), required=step["required"], source=step.get("source"))
            if isinstance(props, core.NotPassed):
                el.properties = {name: prop}
            else:
                props[name] = prop
        elif step["how"] == "del":
            del props[name]
        elif step["how"] == "required":
            props[name].required = step["required"]
        else:
            props[name].element = dsl.build(step["elem"])
    else:
        raise ValueError(step["op"])


def describe(step):
    where = "/".join(".".join(str(x) for x in s) for s in step.get("path", [])) or "<root>"
    if step["op"] == "call":
        return f"call value#{step['value']} ({'the same object again' if step['same'] else 'an equal new object'})"
    if step["op"] == "set":
        shown = "NotPassed()" if step.get("unset") else (repr(dsl.dec_val(step["lit"])) if "lit" in step else "<new element(s)>")
        return f"{where}: {step['kw']} = {shown}"
    if step["op"] == "members":
        return f"{where}: elements {step['how']} [{step['index']}]"
    return f"{where}: properties[{step['name']}] {step['how']}" + (f" -> {step['required']}" if step["how"] == "required" else "")


def node_group(el):
    name = "Object" if isinstance(el, type) else type(el).__name__
    if name == "String":
        return "string"
    if name in ("Integer", "Number"):
        return "number"
    if name == "Array":
        return "array"
    if name == "Object":
        return "object"
    return None


def name_schema(rng):
    """a dump for a `propertyNames` element: a string schema that accepts some of the key names in use"""
    kw = {}
    k = rng.random()
    if k < 0.45:
        kw["maxLength"] = core.enc_val(rng.choice([1, 2, 3, 5, 8]))
    elif k < 0.7:
        kw["pattern"] = rng.choice(["^[a-z]", "^a", "^[a-c_ ]+$", ".*", "^.$"])
    elif k < 0.85:
        kw["enum"] = [core.enc_val(x) for x in rng.sample(NAME_POOL, 4)]
    if rng.random() < 0.2:
        kw["minLength"] = core.enc_val(rng.choice([0, 1]))
    return {"cls": rng.choice(["String", "String", "Element"]), "kw": kw}


def kw_spec(rng, kw, el, dg, group):
    """the new value of keyword `kw` as explicit data"""
    sub = lambda: dg.leaf() if rng.random() < 0.8 else dg.dump(1)
    lit = lambda: rng.choice(NAME_POOL if group == "string" else LIT_POOL)
    if kw in UNSETTABLE and rng.random() < 0.12:
        return {"unset": True}
    if kw in NUM_KWS:
        return {"lit": core.enc_val(rng.choice(NUM_KWS[kw]))}
    if kw == "pattern":
        return {"lit": rng.choice(PATTERNS)}
    if kw == "uniqueItems":
        return {"lit": rng.choice([True, False])}
    if kw == "required":
        props = getattr(el, "properties", core.NP)
        declared = [p.source or n for n, p in props.items()] if isinstance(props, dict) else []
        pool = list(dict.fromkeys(declared + ["a", "b", "c", "zz"]))
        return {"lit": rng.sample(pool, rng.choice([0, 1, 1, 2]))}
    if kw in ("const", "default"):
        return {"lit": core.enc_val(lit())}
    if kw == "enum":
        return {"lit": [core.enc_val(lit()) for _ in range(rng.choice([1, 2, 3]))]}
    if kw in ("additionalProperties", "additionalItems"):
        return rng.choice([{"lit": True}, {"lit": False}, {"elem": sub()}])
    if kw == "items":
        return {"elem": sub()} if rng.random() < 0.6 else {"elems": [sub() for _ in range(rng.choice([1, 2]))]}
    if kw == "contains":
        return {"elem": sub()}
    if kw == "propertyNames":
        return {"elem": name_schema(rng)}
    if kw == "patternProperties":
        return {"map": [[rng.choice(PATTERNS), {"elem": sub()}]]}
    if kw == "dependencies":
        return {"map": [[rng.choice(["a", "b", "c"]), rng.choice([{"names": rng.sample(["a", "b", "c", "zz"], rng.choice([1, 2]))}, {"elem": sub()}])]]}
    raise ValueError(kw)


def reconfig_step(rng, root, dg, stats):
    """One random reconfiguration step as explicit data: which element of the tree (the root, or - more often - an
    element that another one holds), and what is assigned."""
    nodes = walk(root)
    if len(nodes) == 1 or rng.random() < 0.35:
        path, el = nodes[0]
    else:  # a held element; those the root holds itself count double (what they accept shows in most verdicts)
        path, el = rng.choices(nodes[1:], weights=[2 if len(p) == 1 else 1 for p, _ in nodes[1:]])[0]
    role = path[-1][0] if path else "root"
    stats["carried-reconfigured-" + role] = stats.get("carried-reconfigured-" + role, 0) + 1
    is_class = isinstance(el, type)
    props = getattr(el, "properties", core.NP)
    members = getattr(el, "elements", None)
    if isinstance(members, list) and not is_class and rng.random() < 0.3:
        how = rng.choice(["del", "replace", "insert"]) if len(members) > 1 else rng.choice(["replace", "insert"])
        index = rng.randrange(len(members) + (1 if how == "insert" else 0)) if members else 0
        if not members:
            how = "insert"
        return {"op": "members", "path": path, "how": how, "index": index, "elem": dg.leaf()}
    if isinstance(el, core.Not) and rng.random() < 0.3:
        return {"op": "set", "path": path, "kw": "element", "elem": dg.leaf()}
    if isinstance(props, dict) and rng.random() < 0.35:
        names = list(props)
        k = rng.random()
        if k < 0.3 or not names:
            n = rng.choice(NEW_NAMES + names)
            return {"op": "prop", "path": path, "how": "add", "name": n, "elem": dg.leaf(), "required": rng.random() < 0.4,
                    "source": rng.choice([n, n + "_src"]) if rng.random() < 0.15 else None}
        n = rng.choice(names)
        if k < 0.5:
            return {"op": "prop", "path": path, "how": "del", "name": n}
        if k < 0.8:
            return {"op": "prop", "path": path, "how": "required", "name": n, "required": not props[n].required}
        return {"op": "prop", "path": path, "how": "element", "name": n, "elem": dg.leaf()}
    group = node_group(el)
    if is_class:
        pool = KW_GROUPS["object"]
    elif group is not None and rng.random() < 0.75:
        pool = KW_GROUPS[group]
    elif group is None and rng.random() < 0.6:
        pool = KW_GROUPS[rng.choice(["string", "number", "array", "object", "any"])]
    else:
        pool = ALL_KWS
    kw = rng.choice(pool)
    return {"op": "set", "path": path, "kw": kw, **kw_spec(rng, kw, el, dg, group)}


class Carried:
    """The live side of a carried history: the element, the value pool (as data, and as the Python objects that are
    passed again), and the configuration that the reconfiguration steps so far have produced (read once after every
    reconfiguration step: the calls in between must not move it)."""

    def __init__(self, case):
        self.el = dsl.build(case["start"])
        self.values = case["values"]
        self.objs = [dec_arg(v) for v in self.values]
        self.stale = True
        self.config = None

    def add(self, enc):
        self.values.append(enc)
        self.objs.append(dec_arg(enc))

    def reconfigure(self, step):
        self.stale = True
        apply_step(self.el, step)

    def current(self):
        if self.stale:
            self.stale = False
            try:
                self.config = current_config(self.el)
            except Exception:  # noqa: BLE001
                self.config = None
        return self.config

    def call(self, step):
        """(live outcome, outcome of a fresh element with the same configuration on a freshly built equal value, the
        configuration); the fresh outcome is None when the configuration cannot be read or rebuilt."""
        enc = self.values[step["value"]]
        config = self.current()
        try:
            fresh = None if config is None else dsl.build(config)
        except Exception:  # noqa: BLE001
            fresh = None
        arg = self.objs[step["value"]] if step["same"] else dec_arg(enc)
        live = core._real_call(self.el, arg)  # pylint: disable=protected-access
        if fresh is None:
            return live, None, None
        return live, core._real_call(fresh, dec_arg(enc)), config  # pylint: disable=protected-access


def carried_mismatch(live, fr):
    if fr is None or live["r"] not in ("ok", "reject") or fr["r"] not in ("ok", "reject"):
        return None
    if live["r"] != fr["r"]:
        return f"the element answers {live['r']}, a fresh element with the same configuration answers {fr['r']} for an equal fresh value"
    if live != fr:
        return (f"the element returns {str(live.get('v'))[:120]}, a fresh element with the same configuration returns "
                f"{str(fr.get('v'))[:120]} for an equal fresh value")
    return None


def carried_execute(case):
    """Run a carried history from its data alone.  Returns (index of the first failing call step, what, configuration)
    or None."""
    live_side = Carried(case)
    for i, step in enumerate(case["steps"]):
        if step["op"] != "call":
            try:
                live_side.reconfigure(step)
            except Exception:  # noqa: BLE001 - a refused or no longer applicable step is part of the history
                pass
            continue
        live, fr, config = live_side.call(step)
        what = carried_mismatch(live, fr)
        if what:
            return i, what, config
    return None


def carried_shrink(case, budget=150, execute=None):
    """Drop steps (then unused values) while the history still ends in a failing call."""
    execute = execute or carried_execute

    def cut(c):
        hit = execute(c)
        if hit is None:
            return None
        return {**c, "steps": c["steps"][:hit[0] + 1]}
    best = cut(case)
    if best is None:
        return case
    i = len(best["steps"]) - 2
    while i >= 0 and budget > 0:
        budget -= 1
        try:
            trial = cut({**best, "steps": best["steps"][:i] + best["steps"][i + 1:]})
        except Exception:  # noqa: BLE001
            trial = None
        if trial is not None:
            best = trial
            i = min(i, len(best["steps"]) - 1)
        i -= 1
    used = sorted({s["value"] for s in best["steps"] if s["op"] == "call"})
    remap = {old: new for new, old in enumerate(used)}
    best = {**best, "values": [best["values"][i] for i in used],
            "steps": [({**s, "value": remap[s["value"]]} if s["op"] == "call" else s) for s in best["steps"]]}
    return best if execute(best) is not None else case


def carried_failure(case):
    case = carried_shrink(case)
    hit = carried_execute(case)
    if hit is None:  # seen live, not reproduced from the data: still a failure, reported as it was seen
        # (it then depends on something outside the history, e.g. on what earlier histories left behind in the process:
        # replayed like the PRNG-derived histories, by running the whole seeded run again)
        return {"case": {**case, "family": "carried-as-seen", "history": [describe(s) for s in case["steps"]]},
                "what": "a carried history ended in a call whose answer differs from a fresh element's (seen in the run, not reproduced from the history's data alone)",
                "finding": None}
    idx, what, config = hit
    last = case["steps"][idx]
    return {"case": {**case, "steps": case["steps"][:idx + 1], "history": [describe(s) for s in case["steps"][:idx + 1]],
                     "config": config, "value": case["values"][last["value"]]},
            "what": ("after the history (value re-presented as " + ("the same object" if last["same"] else "an equal new object") + "): " + what),
            "finding": None}


def hold_one_more(rng, start, dg):
    """Give the start element one more held element, in a role it does not use yet (the generator's trees use most of
    these roles rarely, and each role is one place where a holder can keep something about the element it holds)."""
    kw = start.setdefault("kw", {})
    roles = ["propNames", "addProps", "patProps", "deps"] + (["contains", "addItems"] if start["cls"] == "Element" else [])
    free = [r for r in roles if r not in start and not (r == "addProps" and "addPropsB" in kw) and not (r == "addItems" and "addItemsB" in kw)]
    if not free:
        return
    role = rng.choice(free)
    if role == "propNames":
        start[role] = name_schema(rng)
    elif role == "patProps":
        kw["hasPatProps"] = True
        start[role] = [[{"name": rng.choice(PATTERNS)}, dg.leaf()]]
    elif role == "deps":
        kw["hasDeps"] = True
        start[role] = [[{"name": rng.choice(["a", "b", "c"])}, dg.leaf()]]
    else:
        start[role] = dg.leaf()


def run_carried(ctx, rng, out, stats, n):
    """Histories in which held elements are reconfigured in place and earlier values come back (see above)."""
    vg, dg = ValueGen(rng), dsl.DumpGen(rng)
    bump = lambda k: stats.__setitem__(k, stats.get(k, 0) + 1)
    found = 0
    for i in range(n):
        if found >= 3:  # each one is shrunk, which costs; three are enough to report
            break
        start = [dg.obj, dg.element, dg.dump, dg.obj][i % 4](2)
        if start["cls"] == "Nothing":
            continue
        if rng.random() < 0.5 and start["cls"] in ("Object", "Element"):
            hold_one_more(rng, start, dg)
        case = {"family": "carried", "start": start, "values": [], "steps": []}
        side = Carried(case)
        el = side.el
        accepted, reconfigs, failed = set(), 0, False
        bump("carried-histories")

        def add_values(vals):
            for v in vals:
                try:
                    side.add(core.enc_arg(v))
                except (TypeError, ValueError):
                    continue

        def call(idx, same):
            step = {"op": "call", "value": idx, "same": same}
            case["steps"].append(step)
            live, fr, config = side.call(step)
            seen_before = idx in presented
            presented.add(idx)
            bump("carried-call-" + ("first-presentation" if not seen_before else "same-object-again" if same else "equal-value-again"))
            if seen_before and idx in accepted:
                bump("carried-call-again-after-it-was-accepted")
            bump("carried-verdict-" + live["r"])
            if live["r"] == "ok":
                accepted.add(idx)
            if config is not None:
                out.note_case({"config": config, "value": case["values"][idx], "steps": len(case["steps"]), "same": same}, reconfigs > 0)
            return carried_mismatch(live, fr) is not None

        def config_and_schema():
            config = side.current()
            try:
                return config or {}, dump_to_schema(config) if config else {}
            except Exception:  # noqa: BLE001
                return {}, {}

        presented = set()
        config, schema = config_and_schema()
        add_values(vg.values(schema, 3) + property_probes(rng, config, 2, stats) + [{"a": 1}])
        for idx in range(len(side.objs)):
            failed = failed or call(idx, rng.random() < 0.5)
        for _ in range(rng.randint(6, 9) if ctx["tier"] == "quick" else rng.randint(8, 30)):
            if failed:
                break
            step = reconfig_step(rng, el, dg, stats)
            case["steps"].append(step)
            bump("carried-step-" + ("in-place-on-held-element" if step["path"] else "on-root"))
            try:
                side.reconfigure(step)
                reconfigs += 1
            except Exception as exc:  # noqa: BLE001 - e.g. SchemaDefinitionError: part of the API
                bump("carried-step-raised-" + type(exc).__name__)
            before = len(side.objs)
            config, schema = config_and_schema()
            add_values(vg.values(schema, rng.choice([1, 2])) + property_probes(rng, config, 1, stats))
            picks = list(range(before, len(side.objs)))
            old_ok = [j for j in range(before) if j in accepted]
            for _ in range(rng.choice([2, 3, 4])):
                picks.append(rng.choice(old_ok) if old_ok and rng.random() < 0.65 else rng.randrange(len(side.objs)))
            rng.shuffle(picks)
            for idx in picks:
                failed = failed or call(idx, rng.random() < 0.5)
        if failed:
            found += 1
            try:
                out.failures.append(carried_failure(case))
            except Exception as exc:  # noqa: BLE001
                out.notes.append(f"carried history failed but could not be replayed from its data: {type(exc).__name__}: {exc}")
                bump("carried-unreplayable")


# ----------------------------------------------------------------------------- declared histories
# Every oracle above takes "the configuration at that moment" from the live element itself (its dump): if a step leaves
# the element's own record of its configuration wrong - a step that moves what it was not asked to move, or a step that
# is refused and takes effect all the same - the dump is wrong in the same way and the fresh element built from it
# agrees with the live one.  The statement's reference is the configuration that the HISTORY describes: here the harness
# keeps that configuration itself, as data, from the steps it performed (a step that raised did not happen; a step that
# returned happened exactly as written), never reading it back from the element, and builds the fresh element from it.
# What the histories are made of (none of which the families above build):
#   * `Property` objects that outlive the place they are stored in: the same object is stored again under another
#     attribute name (`props[new] = props.pop(old)`, or a reassigned mapping that uses the objects it held before under
#     other keys), and one object is held by two elements / classes, under the same or different attribute names;
#   * properties declared with an explicit `source=` - equal to the attribute name (what the parser writes for every
#     property) or different - next to properties without one (those are only ever stored under one name: what their
#     JSON key is after a move is not fixed by their declaration);
#   * steps the library may refuse: attribute names that cannot be written in a class body (keywords, names every
#     object has) and values that are not properties, by item assignment and by reassigning the whole mapping; whether
#     a step is refused is observed, not assumed.
# Each history is explicit data (base dumps of the roots, property declarations, value pool, steps), is replayed from
# that data alone and is shrunk.

# (not `_dict` / `__dict__` / `__class__`: an instance with such a property cannot be read back by the harness either)
UNWRITABLE_NAMES = sorted(k for k in keyword.kwlist if k.islower()) + ["__doc__", "__module__", "__eq__", "__init__"]
DECL_NAMES = NEW_NAMES + ["x", "id", "ab"]


class Declared:
    """The live elements of a declared history, and next to them the configuration the steps so far describe."""

    def __init__(self, case):
        self.bases = [copy.deepcopy(b) for b in case["roots"]]
        for b in self.bases:
            b.pop("props", None)
            b.setdefault("kw", {})["hasProps"] = True
        self.live = [dsl.build(copy.deepcopy(b)) for b in self.bases]
        self.specs = case["objs"]                 # declarations (data; the list grows while a history is generated)
        self.state = {}                           # obj index -> its current required flag / element dump
        self.objs = {}                            # obj index -> the live Property object (made when first used)
        self.maps = [dict() for _ in self.bases]  # per root: attribute name -> obj index, in the order of the mapping
        self.unknown = [False for _ in self.bases]
        self.values = case["values"]
        self.by_assignment = 0

    def obj(self, k):
        if k not in self.objs:
            spec = self.specs[k]
            self.state[k] = {"required": bool(spec["required"]), "elem": spec["elem"]}
            self.objs[k] = Property(dsl.build(spec["elem"]), required=bool(spec["required"]), source=spec["source"])
        return self.objs[k]

    def config(self, r):
        d = copy.deepcopy(self.bases[r])
        plist = []
        for n, k in self.maps[r].items():
            key = {"name": n, "source": self.specs[k]["source"] or self.specs[k]["home"]}
            if self.state[k]["required"]:
                key["required"] = True
            plist.append([key, copy.deepcopy(self.state[k]["elem"])])
        if plist:
            d["props"] = plist
        return d

    def reference(self, config):
        """a freshly constructed element with that configuration"""
        try:
            return dsl.build(config)
        except Exception:  # noqa: BLE001 - the constructor route refuses (an attribute name a class body cannot hold):
            # the same configuration by ONE assignment of a mapping of new Property objects to a new element
            bare = {k: v for k, v in config.items() if k != "props"}
            ref = dsl.build(bare)
            ref.properties = {key["name"]: Property(dsl.build(sub), required=bool(key.get("required")), source=key["source"])
                              for key, sub in config.get("props", [])}
            self.by_assignment += 1
            return ref

    def apply(self, step):
        """Perform one step on the live side; move the described configuration iff the step returned.  Returns the
        name of the exception class if the step raised, else None."""
        op = step["op"]
        if op in ("flag", "elem"):
            prop = self.obj(step["obj"])
            if op == "flag":
                prop.required = step["required"]
                self.state[step["obj"]]["required"] = step["required"]
            else:
                prop.element = dsl.build(step["elem"])
                self.state[step["obj"]]["elem"] = step["elem"]
            return None
        if op not in ("kw", "put", "bad", "del"):
            raise ValueError(op)
        r = step["root"]
        el, names = self.live[r], self.maps[r]
        try:
            if op == "kw":
                value = dsl.dec_val(step["lit"])
                setattr(el, step["kw"], value)
                kw = self.bases[r]["kw"]
                if step["kw"] == "additionalProperties":
                    self.bases[r].pop("addProps", None)
                    kw.pop("addPropsB", None)
                    if value is False:
                        kw["addPropsB"] = False
                else:
                    kw[step["kw"]] = step["lit"]
            elif op == "put":
                n, k = step["name"], step["obj"]
                prop = self.obj(k)
                old = next((x for x, kk in names.items() if kk == k and x != n), None)
                if step["via"] == "setitem":
                    if old is not None:  # props[new] = props.pop(old): two steps, each happens or not on its own
                        prop = el.properties.pop(old)
                        del names[old]
                    el.properties[n] = prop
                    names[n] = k
                else:  # the whole mapping is reassigned; it uses the objects held so far (one of them under a new key)
                    new = {x: kk for x, kk in names.items() if x != old}
                    new[n] = k
                    el.properties = {x: self.obj(kk) for x, kk in new.items()}
                    self.maps[r] = new
            elif op == "bad":
                value = 0 if step["kind"] == "int" else dsl.build(step["elem"])
                if step["via"] == "setitem":
                    el.properties[step["name"]] = value
                else:
                    el.properties = {**{x: self.obj(kk) for x, kk in names.items()}, step["name"]: value}
                self.unknown[r] = True  # accepted: not a configuration this harness can describe
            else:
                n = step["name"]
                if step["via"] == "del":
                    del el.properties[n]
                    names.pop(n, None)
                elif step["via"] == "pop":
                    el.properties.pop(n)
                    names.pop(n, None)
                else:
                    new = {x: kk for x, kk in names.items() if x != n}
                    el.properties = {x: self.obj(kk) for x, kk in new.items()}
                    self.maps[r] = new
        except Exception as exc:  # noqa: BLE001 - refused: the step did not happen
            return type(exc).__name__
        return None

    @staticmethod
    def outcome(element, enc):
        try:
            return core._real_call(element, dec_arg(enc))  # pylint: disable=protected-access
        except RecursionError:  # while the result was read
            return {"r": "recursion"}

    def call(self, step):
        r = step["root"]
        enc = self.values[step["value"]]
        live = self.outcome(self.live[r], enc)
        if self.unknown[r]:
            return live, None, None
        config = self.config(r)
        try:
            ref = self.reference(config)
        except Exception:  # noqa: BLE001
            return live, None, config
        return live, self.outcome(ref, enc), config


def declared_describe(step):
    op = step["op"]
    if op == "call":
        return f"root{step['root']}: call value#{step['value']}"
    if op == "flag":
        return f"property#{step['obj']}.required = {step['required']}"
    if op == "elem":
        return f"property#{step['obj']}.element = <new element>"
    if op == "kw":
        return f"root{step['root']}: {step['kw']} = {dsl.dec_val(step['lit'])!r}"
    if op == "put":
        how = "properties[%s] = property#%d (moved with pop() if this root holds it under another name)" if step["via"] == "setitem" \
            else "properties = {what it holds, with %s: property#%d}"
        return f"root{step['root']}: " + how % (step["name"], step["obj"])
    if op == "bad":
        return f"root{step['root']}: properties[{step['name']}] <- not a Property ({step['kind']}, {step['via']})"
    return f"root{step['root']}: remove properties[{step['name']}] ({step['via']})"


def declared_execute(case):
    """Run a declared history from its data alone.  Returns (index of the first failing call step, what, the
    configuration the history describes) or None."""
    side = Declared(case)
    for i, step in enumerate(case["steps"]):
        if step["op"] != "call":
            side.apply(step)
            continue
        live, fr, config = side.call(step)
        what = carried_mismatch(live, fr)
        if what:
            return i, what, config
    return None


def declared_failure(case):
    case = carried_shrink(case, execute=declared_execute)
    hit = declared_execute(case)
    if hit is None:
        return {"case": {**case, "family": "declared-as-seen", "history": [declared_describe(s) for s in case["steps"]]},
                "what": "a declared history ended in a call whose answer differs from a fresh element's (seen in the run, not reproduced from the history's data alone)",
                "finding": None}
    idx, what, config = hit
    last = case["steps"][idx]
    return {"case": {**case, "steps": case["steps"][:idx + 1], "history": [declared_describe(s) for s in case["steps"][:idx + 1]],
                     "config": config, "value": case["values"][last["value"]]},
            "what": "after the history, against a fresh element with the configuration that the steps which returned describe "
                    "(a step that raised counts as not made): " + what.replace("with the same configuration", "with that configuration"),
            "finding": None}


def declared_root(rng, dg):
    k = rng.random()
    if k < 0.5:
        base = {"cls": rng.choice(["Element", "Object"]), "kw": {"hasProps": True}}
        if rng.random() < 0.45:
            base["kw"]["addPropsB"] = False
        if rng.random() < 0.15:
            base["kw"]["required"] = rng.sample(["a", "b", "x", "zz"], rng.choice([1, 2]))
    else:
        base = (dg.obj if k < 0.75 else dg.element)(1)
        base.pop("props", None)
        base.setdefault("kw", {})["hasProps"] = True
    if base["cls"] == "Object":
        base.setdefault("name", "Model")
    return base


def declared_step(rng, side, case, dg, stats):
    """One random reconfiguration step as explicit data (new property declarations are appended to case["objs"])."""
    bump = lambda k: stats.__setitem__(k, stats.get(k, 0) + 1)
    r = rng.randrange(len(side.live))
    names = side.maps[r]
    via = "setitem" if rng.random() < 0.7 else "assign"

    def pick_name():
        if rng.random() < 0.15:
            bump("declared-attribute-name-a-class-body-refuses")
            return rng.choice(UNWRITABLE_NAMES)
        return rng.choice(DECL_NAMES)

    def new_object(n):
        k = rng.random()
        source = None if k < 0.4 else n if k < 0.75 else rng.choice([n + "_src", "a", "b", "class", "a b"])
        bump("declared-new-property-" + ("without-source" if source is None else "source-equals-name" if source == n else "source-differs"))
        case["objs"].append({"elem": dg.leaf(), "required": rng.random() < 0.35, "source": source, "home": n})
        return len(case["objs"]) - 1

    held = sorted({k for m in side.maps for k in m.values()})
    k = rng.random()
    if k < 0.27 or not held:
        n = pick_name()
        return {"op": "put", "root": r, "name": n, "obj": new_object(n), "via": via}
    if k < 0.55:
        # an object that exists already is stored (again): in this root under another name = a move, in the other root =
        # the object is shared; a property without a declared source keeps the one name it was declared for
        obj = rng.choice(held if rng.random() < 0.8 or not case["objs"] else range(len(case["objs"])))
        spec = case["objs"][obj]
        n = spec["home"] if spec["source"] is None else pick_name()
        here = [x for x, kk in names.items() if kk == obj]
        bump("declared-put-existing-" + ("moved-to-another-name" if here and here[0] != n else "same-place" if here else
                                         "shared-with-another-root" if any(obj in m.values() for m in side.maps) else "put-back"))
        return {"op": "put", "root": r, "name": n, "obj": obj, "via": via}
    if k < 0.65 and names:
        return {"op": "del", "root": r, "name": rng.choice(list(names)), "via": rng.choice(["del", "pop", "assign"])}
    if k < 0.73:
        obj = rng.choice(held)
        return {"op": "flag", "obj": obj, "required": not side.state[obj]["required"]}
    if k < 0.80:
        return {"op": "elem", "obj": rng.choice(held), "elem": dg.leaf()}
    if k < 0.90:
        kw = rng.choice(["additionalProperties", "additionalProperties", "required", "minProperties", "maxProperties"])
        if kw == "additionalProperties":
            lit = rng.random() < 0.4
        elif kw == "required":
            pool = list(dict.fromkeys([side.specs[kk]["source"] or side.specs[kk]["home"] for kk in names.values()] + ["a", "b", "zz"]))
            lit = rng.sample(pool, rng.choice([0, 1, 1, 2]))
        else:
            lit = core.enc_val(rng.choice(NUM_KWS[kw]))
        return {"op": "kw", "root": r, "kw": kw, "lit": lit}
    kind = rng.choice(["int", "element"])
    step = {"op": "bad", "root": r, "name": pick_name(), "kind": kind, "via": via}
    if kind == "element":
        step["elem"] = dg.leaf()
    return step


def run_declared(ctx, rng, out, stats, n):
    """Histories whose reference configuration is kept by the harness from the steps (see above)."""
    vg, dg = ValueGen(rng), dsl.DumpGen(rng)
    bump = lambda k: stats.__setitem__(k, stats.get(k, 0) + 1)
    found = 0
    for _ in range(n):
        if found >= 3:
            break
        roots = [declared_root(rng, dg) for _ in range(2 if rng.random() < 0.4 else 1)]
        case = {"family": "declared", "roots": roots, "objs": [], "values": [], "steps": []}
        side = Declared(case)
        bump("declared-histories")
        bump("declared-roots-%d" % len(roots))
        keys_seen = ["zz"]
        reconfigs, failed = 0, False

        def reconfigure():
            nonlocal reconfigs
            step = declared_step(rng, side, case, dg, stats)
            case["steps"].append(step)
            bump("declared-step-" + step["op"])
            for key in (step.get("name"),) + ((case["objs"][step["obj"]]["source"],) if step["op"] == "put" else ()):
                if key is not None and key not in keys_seen:
                    keys_seen.append(key)
            raised = side.apply(step)
            if raised:
                bump("declared-step-%s-raised-%s" % (step["op"], raised))
            else:
                reconfigs += 1

        def add_values(r):
            before = len(side.values)
            vals = []
            for _ in range(rng.choice([1, 2])):
                obj = {k: rng.choice(PROBE_LEAVES) for k in rng.sample(keys_seen, min(len(keys_seen), rng.choice([1, 1, 2, 3])))}
                vals.append(obj)
            if rng.random() < 0.3:
                try:
                    vals += vg.values(dump_to_schema(side.config(r)), 1)
                except Exception:  # noqa: BLE001
                    pass
            for v in vals:
                try:
                    side.values.append(core.enc_arg(v))
                except (TypeError, ValueError):
                    continue
            return list(range(before, len(side.values)))

        def call(r, idx):
            step = {"op": "call", "root": r, "value": idx}
            case["steps"].append(step)
            live, fr, config = side.call(step)
            bump("declared-verdict-" + live["r"])
            if fr is None:
                bump("declared-call-without-reference")
            elif config is not None:
                out.note_case({"config": config, "value": case["values"][idx], "steps": len(case["steps"]), "root": r}, reconfigs > 0)
            return carried_mismatch(live, fr) is not None

        side.values.append(core.enc_arg({}))
        for r in range(len(roots)):
            for _ in range(rng.choice([1, 2, 3])):
                reconfigure()
        for r in range(len(roots)):
            for idx in [0] + add_values(r):
                failed = failed or call(r, idx)
        for _ in range(rng.randint(6, 9) if ctx["tier"] == "quick" else rng.randint(8, 30)):
            if failed:
                break
            reconfigure()
            for r in range(len(roots)):
                picks = add_values(r) + [rng.randrange(len(side.values)) for _ in range(rng.choice([1, 2, 3]))]
                for idx in picks:
                    failed = failed or call(r, idx)
        stats["declared-reference-built-by-assignment"] = stats.get("declared-reference-built-by-assignment", 0) + side.by_assignment
        if failed:
            found += 1
            try:
                out.failures.append(declared_failure(case))
            except Exception as exc:  # noqa: BLE001
                out.notes.append(f"declared history failed but could not be replayed from its data: {type(exc).__name__}: {exc}")
                bump("declared-unreplayable")


def run(ctx, scale=1.0):
    rng = random.Random(ctx["seed"] + 13)
    out = Outcome()
    out.rule = ("histories of 8-12 steps on DSL-built elements and model classes: each step is a reconfiguration (one of 24 keyword "
                "assignments, property add/replace/delete/flag flip/element swap, whole-mapping replacement, the mapping methods of the "
                "properties container: update (dict / keywords / pairs), setdefault, |= on the container and on the attribute, | and "
                "reassignment, pop, popitem, clear) followed by calls on generated values, objects probing the declared property keys and fixed values; "
                "a case is one call with its history; non-trivial = made after at least one reconfiguration; distinct by SHA-256; "
                "carried histories (explicit data, replayed and shrunk from it): 6-9 reconfiguration steps, most of them IN PLACE on an "
                "element that another one holds (property element, items, contains, additional*, propertyNames, patternProperties / "
                "dependencies member, composition member, operand of Not; keyword set / taken away, property add / delete / flag / "
                "element, members changed), each followed by calls whose values are mostly values of earlier calls - an equal new "
                "object or the very same object - compared with a fresh element of the same configuration on a freshly built equal value; "
                "declared histories (explicit data, replayed and shrunk from it): one or two elements / model classes, 6-9 steps on their "
                "properties and object keywords - Property objects with and without an explicit source (equal to the attribute name or not) "
                "stored, stored again under another attribute name (pop + item assignment, or a reassigned mapping), shared between the two "
                "roots, removed, flag / element changed, attribute names a class body refuses, values that are not properties - each followed "
                "by calls on objects over all keys the history has used; the reference is a fresh element built from the configuration the "
                "harness itself derives from the steps that returned (a step that raised counts as not made), never read back from the element")
    stats = {}
    drv = core.Driver()
    try:
        vg, dg = ValueGen(rng), dsl.DumpGen(rng)
        n = int(N_HIST[ctx["tier"]] * scale)
        for i in range(n):
            k = i % 3
            if k == 0:
                dump = dg.element(2)
            elif k == 1:
                dump = dg.obj(2)
            else:
                dump = dg.dump(2)
            if dump["cls"] in ("Nothing",):
                continue
            el = dsl.build(dump)
            origin = dump["cls"]
            stats["start-" + origin] = stats.get("start-" + origin, 0) + 1
            history = []
            schema = dump_to_schema(dump)
            compare(drv, el, vg.values(schema, 5) + [core.NP], out, stats, history, origin)
            for _ in range(rng.randint(8, 12) if ctx["tier"] == "quick" else rng.randint(10, 40)):
                try:
                    desc = reconfig_ops(rng, el, dg)
                except Exception as exc:  # noqa: BLE001 - e.g. SchemaDefinitionError on a bad property: part of the API
                    stats["reconfig-raised-" + type(exc).__name__] = stats.get("reconfig-raised-" + type(exc).__name__, 0) + 1
                    continue
                history.append(desc)
                stats[desc.split(" ")[0].split("[")[0]] = stats.get(desc.split(" ")[0].split("[")[0], 0) + 1
                try:
                    config = current_config(el)
                    schema = dump_to_schema(config)
                except Exception:  # noqa: BLE001
                    config, schema = {}, {}
                compare(drv, el, vg.values(schema, 4) + property_probes(rng, config, 2, stats) + [{"a": 1}, core.NP, True, 1, 1.0, 0, False], out, stats, history, origin)
        # compositions over overlapping branches: which branch answers must depend on the value and the configuration only
        strict = {"cls": "Object", "name": "Strict", "kw": {"hasProps": True, "addPropsB": False}, "props": [[{"name": "value", "source": "value"}, {"cls": "Integer", "kw": {}}]]}
        loose = {"cls": "Object", "name": "Loose", "kw": {"hasProps": True}, "props": [[{"name": "value", "source": "value"}, {"cls": "Integer", "kw": {}}],
                                                                                      [{"name": "unit", "source": "unit"}, {"cls": "String", "kw": {"default": "none"}}]]}
        for i in range(int((12 if ctx["tier"] == "quick" else 300) * scale)):
            mode = rng.choice(["AnyOf", "AnyOf", "OneOf", "AllOf"])
            members = [strict, loose] if rng.random() < 0.7 else [loose, strict]
            if rng.random() < 0.4:
                members = members + [{"cls": "String", "kw": {}}]
            dump = {"cls": mode, "kw": {}, "elements": members}
            if rng.random() < 0.5:
                dump = {"cls": "Array", "kw": {"itemsKind": "single"}, "items": [dump]}
            el = dsl.build(dump)
            history = []
            both, second_only = {"value": 1}, {"value": 2, "unit": "m"}
            seq = [both, second_only, both, "s", {"value": 3, "extra": 1}, both]
            rng.shuffle(seq)
            for v in seq:
                vv = [v] if dump["cls"] == "Array" else v
                compare(drv, el, [vv, [both, second_only, both] if dump["cls"] == "Array" else both], out, stats, history, "composition-family")
                history.append(f"call {v!r}")
        t0 = time.time()
        run_carried(ctx, rng, out, stats, int(N_CARRIED[ctx["tier"]] * scale))
        stats["carried-seconds"] = round(time.time() - t0, 1)
        t0 = time.time()
        run_declared(ctx, rng, out, stats, int(N_DECLARED[ctx["tier"]] * scale))
        stats["declared-seconds"] = round(time.time() - t0, 1)
    finally:
        drv.close()
    # failures that are explicit data (replayed from the case alone, shrunk) are reported first
    out.failures.sort(key=lambda f: 0 if isinstance(f.get("case"), dict) and f["case"].get("family") in ("carried", "declared") else 1)
    out.stats = stats
    return out


def search(ctx, reason):
    sub = dict(ctx)
    sub["seed"] = ctx["seed"] + 32452843
    # the carried histories need no driver and are cheap: a larger batch of them first
    first = Outcome()
    run_carried(sub, random.Random(sub["seed"] + 13), first, {}, N_CARRIED[ctx["tier"]] * (6 if ctx["tier"] == "quick" else 1))
    run_declared(sub, random.Random(sub["seed"] + 14), first, {}, N_DECLARED[ctx["tier"]] * (4 if ctx["tier"] == "quick" else 1))
    for failure in first.failures:
        if failure["case"].get("family") in ("carried", "declared"):
            return failure
    scale = 3.0 if ctx["tier"] == "quick" else 1.0
    found = run(sub, scale=scale)
    if not found.failures:
        return None
    failure = found.failures[0]
    if isinstance(failure.get("case"), dict) and failure["case"].get("family") not in ("carried", "declared"):
        failure["case"]["rerun"] = {"seed": sub["seed"], "tier": ctx["tier"], "scale": scale}
    return failure


def replay_finding(finding):
    return False


def replay(payload):
    case = (payload.get("failure") or {}).get("case") or {}
    if case.get("family") == "carried":
        # explicit data: start dump, value pool, steps
        return carried_execute(case) is None
    if case.get("family") == "declared":
        # explicit data: base dumps of the roots, property declarations, value pool, steps
        return declared_execute(case) is None
    # the other histories are replayed by re-running the seeded run (steps are PRNG-derived)
    again = case.get("rerun") or {}
    ctx = {"seed": again.get("seed", payload.get("seed", 0)), "tier": again.get("tier", payload.get("tier", "quick"))}
    found = run(ctx, scale=again.get("scale", 1.0))
    return not found.failures
