"""C20 — unsupported schema features are refused, never silently mis-modelled.

Correspondence: generated supported schemas with one documented-unsupported keyword placed at a
schema position found by the harness's own walker (13 position kinds, incl. root definitions),
or at a look-alike non-schema position (a property *named* "if", inside const/enum/default, in an
array-form dependency): outcome kind of parse_element / parse on the real code vs the Lean model.
Oracle: with the keyword at a schema position the real code raises FeatureNotImplementedError —
from parse_element, from parse, and from generation — and the schema without it parses.
Reference cycles (not finite schemas, so outside the Lean model): documents with self-, mutual,
long and alias-only cycles through every position are written to a scratch directory and run
through statham.__main__.main; anything but the not-implemented error is a failure."""
import copy
import json
import os
import random
import shutil
import tempfile

from statham.schema.exceptions import FeatureNotImplementedError, SchemaParseError
from statham.schema.parser import parse, parse_element
from statham.serializers import serialize_python

from harness import core
from harness.framework import Outcome
from harness.gen import SchemaGen

ID = "C20"
TIE_MODULES = ["StathamModel.Tie"]
ASSUMPTIONS = ["reference cycles are observed on the real code only (a cyclic document is not a finite schema tree)",
               "json_ref_dict resolves references; its own refusals of malformed references are outside statham"]
N_CASES = {"quick": 500, "thorough": 20000}

UNSUPPORTED = {
    "if": [{}, {"type": "string"}, True, {"properties": {"a": {"const": 1}}}],
    "then": [{}, {"required": ["a"]}, False],
    "else": [{}, {"type": "integer"}, True],
    "$defs": [{}, {"a": {"type": "string"}}],
    "unevaluatedItems": [False, True, {"type": "string"}],
    "unevaluatedProperties": [False, True, {}],
}
POSITION_KINDS = ["root", "properties", "patternProperties", "additionalProperties", "propertyNames", "dependencies", "items",
                  "tuple-items", "additionalItems", "contains", "anyOf", "oneOf", "allOf", "not", "definitions"]


def positions(schema, path=(), kind="root"):
    """Every dict-valued schema position of `schema` with its kind (the harness's own reading of Draft 6 + statham's `parse`)."""
    if not isinstance(schema, dict):
        return
    yield path, kind
    top = not path
    for key in ("properties", "patternProperties", "dependencies") + (("definitions",) if top else ()):
        sub = schema.get(key)
        if isinstance(sub, dict):
            for name, s in sub.items():
                yield from positions(s, path + (key, name), key)
    for key in ("additionalProperties", "propertyNames", "additionalItems", "contains", "not", "items"):
        yield from positions(schema.get(key), path + (key,), key)
    for key in ("anyOf", "oneOf", "allOf", "items"):
        sub = schema.get(key)
        if isinstance(sub, list):
            for i, s in enumerate(sub):
                yield from positions(s, path + (key, i), "tuple-items" if key == "items" else key)


def at(schema, path):
    node = schema
    for p in path:
        node = node[p]
    return node


def classify(fn, doc):
    try:
        fn(copy.deepcopy(doc))
        return "ok"
    except FeatureNotImplementedError:
        return "notImplemented"
    except SchemaParseError as exc:
        msg = str(exc)
        return "missingTitle" if msg.startswith("No title defined") else "invalidType" if msg.startswith("Got invalid type") else "schemaParseError"
    except RecursionError:
        return "recursion"
    except Exception as exc:  # noqa: BLE001
        return "other:" + type(exc).__name__


def generate(doc):
    return serialize_python(*parse(doc))


def generate_from_file(doc):
    """the generator's own entry point, from a document on disk (loading, reference resolution, titling, parsing, printing)"""
    from statham.__main__ import main
    tmp = tempfile.mkdtemp(prefix="statham-c20-main-")
    try:
        path = os.path.join(tmp, "doc.json")
        with open(path, "w", encoding="utf8") as fh:
            json.dump(doc, fh)
        return main(path + "#/")
    finally:
        shutil.rmtree(tmp, ignore_errors=True)


def model_outcome(drv, op, doc):
    rep = drv.ask({"op": op, "schema": core.enc_val(doc), "tables": core.make_tables([], [], [], names=core_names(doc))})
    if "error" in rep:
        return None
    return "ok" if rep["parse"] == "ok" else rep["kind"]


def core_names(doc):
    names = set()

    def walk(s):
        if isinstance(s, dict):
            props = s.get("properties")
            if isinstance(props, dict):
                names.update(props)
            req = s.get("required")
            if isinstance(req, list):
                names.update(x for x in req if isinstance(x, str))
            for v in s.values():
                walk(v)
        elif isinstance(s, list):
            for v in s:
                walk(v)
    walk(doc)
    return sorted(names)


def host(kind, child, rng):
    """A supported schema with `child` at a position of the given kind."""
    base = {"title": "Host", "type": "object"} if kind in ("properties", "patternProperties", "additionalProperties", "propertyNames", "dependencies", "definitions") else {"title": "Host"}
    if kind == "root":
        return child, ()
    if kind == "properties":
        return {**base, "properties": {"p": child}}, ("properties", "p")
    if kind == "patternProperties":
        return {**base, "patternProperties": {"^p": child}}, ("patternProperties", "^p")
    if kind == "dependencies":
        return {**base, "dependencies": {"p": child, "q": ["if", "then"]}}, ("dependencies", "p")
    if kind == "definitions":
        return {**base, "definitions": {"d": child}}, ("definitions", "d")
    if kind == "tuple-items":
        return {**base, "type": "array", "items": [{"type": "string"}, child]}, ("items", 1)
    if kind in ("anyOf", "oneOf", "allOf"):
        others = [{"type": "string"}] if rng.random() < 0.5 else []
        i = rng.randint(0, len(others))
        members = others[:i] + [child] + others[i:]
        return {**base, kind: members}, (kind, i)
    if kind == "additionalItems":
        shape = rng.choice([{"items": [{}]}, {"items": {"type": "string"}}, {}])
        return {**base, **shape, "additionalItems": child}, ("additionalItems",)
    return {**base, kind: child}, (kind,)


def check_pair(drv, base, path, kind, kw, value, out, stats, label):
    """base: supported schema (parses); the same with `kw` at `path` must be refused."""
    mutated = copy.deepcopy(base)
    node = at(mutated, path)
    node[kw] = copy.deepcopy(value)
    case = {"label": label, "schema": mutated, "path": list(path), "keyword": kw, "position": kind}
    out.note_case(case, len(path) > 0)
    stats["pos-" + kind] = stats.get("pos-" + kind, 0) + 1
    stats["kw-" + kw] = stats.get("kw-" + kw, 0) + 1
    in_definitions = len(path) >= 1 and path[0] == "definitions"
    routes = [("parse", parse), ("generate", generate), ("main", generate_from_file)] + ([] if in_definitions else [("parse_element", parse_element)])
    for name, fn in routes:
        without = classify(fn, base)
        if without != "ok":
            stats["base-" + without] = stats.get("base-" + without, 0) + 1
            continue
        got = classify(fn, mutated)
        stats[f"{name}-{got}"] = stats.get(f"{name}-{got}", 0) + 1
        if got != "notImplemented":
            what = ("returned a result that ignores it" if got == "ok" else f"ended with {got}")
            out.failures.append({"case": {**case, "route": name}, "what": f"{kw!r} at {kind} position {list(path)}: {name} {what} instead of the not-implemented error", "finding": None})
    # the model
    for op, fn in (("parse_doc", parse),) + ((() if in_definitions else (("parse", parse_element),))):
        m = model_outcome(drv, op, mutated)
        if m is None:
            stats["driver-error"] = stats.get("driver-error", 0) + 1
            continue
        out.traces_validated += 1
        real = classify(fn, mutated)
        if m != real and not (m == "other" and real in ("invalidType", "schemaParseError") or real.startswith("other:") and m == "other"):
            out.disagreements.append({"what": f"outcome of {op}", "impl": real, "model": m, **case})


def lookalike_cases(rng):
    """keyword names where no schema is expected: must not change the outcome"""
    kw = rng.choice(list(UNSUPPORTED))
    return [
        ({"title": "L", "type": "object", "properties": {kw: {"type": "string"}}}, "property named " + kw),
        ({"title": "L", "const": {kw: {}}}, "inside const"),
        ({"title": "L", "enum": [{kw: True}, 1]}, "inside enum"),
        ({"title": "L", "default": {kw: False}}, "inside default"),
        ({"title": "L", "type": "object", "required": [kw]}, "required name"),
        ({"title": "L", "type": "object", "dependencies": {"a": [kw]}}, "array-form dependency"),
        ({"title": "L", "type": "object", "dependencies": {kw: ["a"]}}, "dependency key"),
        ({"title": "L", "type": "object", "patternProperties": {kw: {}}}, "pattern named " + kw),
        ({"title": "L", "type": "object", "properties": {"a": {"type": "object", "title": "In", "definitions": {"d": {kw: {}}}}}}, "nested definitions (not visited)"),
        ({"title": "L", "type": "object", "definitions": {"d": [{kw: {}}]}}, "non-schema definitions entry"),
    ]


# ---- reference cycles

def cycle_documents(rng, n):
    docs = []
    link_kinds = ["properties", "items", "tuple-items", "additionalProperties", "additionalItems", "contains", "patternProperties",
                  "propertyNames", "dependencies", "anyOf", "oneOf", "allOf", "not",
                  # the reference resolver does not know literals from schemas: a reference inside one closes a cycle just as well
                  "default", "const", "enum"]

    def link(kind, ref, idx):
        r = {"$ref": ref}
        t = f"N{idx}"
        return {
            "properties": {"title": t, "type": "object", "properties": {"next": r}},
            "items": {"title": t, "type": "array", "items": r},
            "tuple-items": {"title": t, "type": "array", "items": [{}, r]},
            "additionalProperties": {"title": t, "type": "object", "additionalProperties": r},
            "additionalItems": {"title": t, "items": [{}], "additionalItems": r},
            "contains": {"title": t, "contains": r},
            "patternProperties": {"title": t, "type": "object", "patternProperties": {"^x": r}},
            "propertyNames": {"title": t, "propertyNames": r},
            "dependencies": {"title": t, "dependencies": {"a": r}},
            "anyOf": {"title": t, "anyOf": [{"type": "string"}, r]},
            "oneOf": {"title": t, "oneOf": [r, {"type": "null"}]},
            "allOf": {"title": t, "allOf": [r]},
            "not": {"title": t, "not": r},
            "default": {"title": t, "type": "object", "default": {"next": r}},
            "const": {"title": t, "const": {"k": [r]}},
            "enum": {"title": t, "enum": [1, r]},
        }[kind]
    # self cycles through every position
    for kind in link_kinds:
        docs.append((f"self-{kind}", link(kind, "#", 0), "cyclic", [kind]))
    for _ in range(n):
        length = rng.choice([1, 2, 2, 3, 5, 8])
        kinds = [rng.choice(link_kinds) for _ in range(length)]
        defs = {f"d{i}": link(kinds[i], f"#/definitions/d{(i + 1) % length}", i) for i in range(length)}
        shape = rng.random()
        if shape < 0.6:        # root reaches the cycle
            root = {"title": "Root", "type": "object", "properties": {"entry": {"$ref": "#/definitions/d0"}}, "definitions": defs}
            label = "reached"
        elif shape < 0.8:      # the cycle sits in definitions only
            root = {"title": "Root", "type": "object", "definitions": defs}
            label = "definitions-only"
        else:                  # an acyclic tail leads into the cycle
            defs["tail"] = link(rng.choice(link_kinds), "#/definitions/d0", 99)
            root = {"title": "Root", "type": "array", "items": {"$ref": "#/definitions/tail"}, "definitions": defs}
            label = "tail"
        docs.append((f"{label}-{length}", root, "cyclic", kinds))
    # a cycle whose closing edge runs through a `definitions` container only (listed region C20-definitions-back-reference)
    docs.append(("defs-back-root", {"type": "object", "title": "A", "properties": {"x": {"type": "integer"}}, "definitions": {"again": {"$ref": "#"}}}, "defs-back", ["definitions"]))
    docs.append(("defs-back-nested", {"type": "object", "title": "A", "properties": {"x": {"$ref": "#/definitions/b"}},
                                      "definitions": {"b": {"type": "object", "title": "B", "definitions": {"back": {"$ref": "#"}}}}}, "defs-back", ["definitions"]))
    # alias-only cycles (no schema between the references)
    for length in (2, 3, 5):
        defs = {f"a{i}": {"$ref": f"#/definitions/a{(i + 1) % length}"} for i in range(length)}
        docs.append((f"alias-{length}-used", {"title": "Root", "type": "object", "properties": {"x": {"$ref": "#/definitions/a0"}}, "definitions": defs}, "alias", []))
        docs.append((f"alias-{length}-unused", {"title": "Root", "type": "object", "definitions": defs}, "alias", []))
    docs.append(("alias-self", {"title": "Root", "type": "object", "definitions": {"a": {"$ref": "#/definitions/a"}}}, "alias-self", []))
    # acyclic controls: shared references, diamonds
    for i in range(max(3, n // 4)):
        k = rng.randint(2, 5)
        defs = {f"d{j}": (link(rng.choice(link_kinds), f"#/definitions/d{j + 1}", j) if j + 1 < k else {"type": "string"}) for j in range(k)}
        docs.append((f"acyclic-{k}", {"title": "Root", "type": "object", "properties": {"a": {"$ref": "#/definitions/d0"}, "b": {"$ref": "#/definitions/d0"}},
                                      "definitions": defs}, "acyclic", []))
    return docs


def run_main(path):
    from statham.__main__ import main
    try:
        main(path + "#/")
        return "ok"
    except FeatureNotImplementedError:
        return "notImplemented"
    except SchemaParseError:
        return "schemaParseError"
    except RecursionError:
        return "recursion"
    except Exception as exc:  # noqa: BLE001
        return "other:" + type(exc).__module__.split(".")[0] + "." + type(exc).__name__


def check_cycles(rng, n, out, stats):
    tmp = tempfile.mkdtemp(prefix="statham-c20-")
    try:
        for i, (label, doc, expect, kinds) in enumerate(cycle_documents(rng, n)):
            path = os.path.join(tmp, f"doc{i}.json")
            with open(path, "w", encoding="utf8") as fh:
                json.dump(doc, fh)
            got = run_main(path)
            case = {"cycle": label, "document": doc, "through": kinds}
            out.note_case(case, expect != "acyclic")
            stats[f"cycle-{expect}-{got}"] = stats.get(f"cycle-{expect}-{got}", 0) + 1
            for k in kinds:
                stats["cycle-through-" + k] = stats.get("cycle-through-" + k, 0) + 1
            if expect == "acyclic":
                if got != "ok":
                    out.failures.append({"case": case, "what": f"acyclic references refused or crashed: {got}", "finding": None})
            elif got != "notImplemented":
                finding = "C20-self-alias" if expect == "alias-self" and got == "other:json_ref_dict.ReferenceParseError" else None
                if expect == "defs-back" and got == "ok":
                    finding = "C20-definitions-back-reference"
                out.failures.append({"case": case, "what": f"recursive references ({label}): main() ended with {got} instead of the not-implemented error", "finding": finding})
    finally:
        shutil.rmtree(tmp, ignore_errors=True)


def run(ctx, scale=1.0):
    rng = random.Random(ctx["seed"] + 20)
    out = Outcome()
    out.rule = ("(a) systematic: 15 position kinds x 6 unsupported keywords x 2-4 keyword values x generated leaf children, hosted in a supported schema; "
                "(b) random: generated supported schemas (depth <= 3) with a keyword inserted at a random position found by the harness's walker; "
                "(c) look-alike non-schema places (10 shapes); each through parse_element, parse and generation; non-trivial = the keyword is below the "
                "root; (d) reference documents: self cycles through 13 positions, random cycles of length 1-8 (reached / definitions-only / behind a "
                "tail), alias-only cycles, acyclic controls, through statham.__main__.main; distinct by SHA-256")
    stats = {}
    drv = core.Driver()
    try:
        sg = SchemaGen(rng, titled=True)
        # (a) systematic
        reps = 1 if ctx["tier"] == "quick" else 12
        for _ in range(reps):
            for kind in POSITION_KINDS:
                for kw, values in UNSUPPORTED.items():
                    for value in values:
                        child = sg.leaf()
                        if not isinstance(child, dict):
                            child = {}
                        child = dict(child)
                        if kind == "root":
                            child.setdefault("title", "Root")
                        for k in UNSUPPORTED:
                            child.pop(k, None)
                        base, path = host(kind, child, rng)
                        check_pair(drv, base, path, kind, kw, value, out, stats, f"systematic-{kind}")
        # (b) random
        n = int(N_CASES[ctx["tier"]] * scale)
        for i in range(n):
            base = sg.schema(3)
            if not isinstance(base, dict):
                continue
            base = copy.deepcopy(base)
            base.setdefault("title", "Root")
            if rng.random() < 0.3:
                base["definitions"] = {f"d{j}": sg.schema(2) for j in range(rng.randint(1, 3))}
            if classify(parse, base) != "ok":
                stats["random-base-unparseable"] = stats.get("random-base-unparseable", 0) + 1
                continue
            pos = list(positions(base))
            below = [x for x in pos if x[0]]
            path, kind = rng.choice(below) if below and rng.random() < 0.85 else rng.choice(pos)
            if any(k in at(base, path) for k in UNSUPPORTED):
                continue
            kw = rng.choice(list(UNSUPPORTED))
            check_pair(drv, base, path, kind, kw, rng.choice(UNSUPPORTED[kw]), out, stats, f"random-{i}")
        # (c) look-alikes: must not be refused (compared with the model; the oracle only records)
        for _ in range(3 if ctx["tier"] == "quick" else 30):
            for doc, label in lookalike_cases(rng):
                for op, fn in (("parse_doc", parse), ("parse", parse_element)):
                    real = classify(fn, doc)
                    m = model_outcome(drv, op, doc)
                    out.note_case({"lookalike": label, "schema": doc, "via": op}, True)
                    stats[f"lookalike-{real}"] = stats.get(f"lookalike-{real}", 0) + 1
                    if m is not None:
                        out.traces_validated += 1
                        if m != real:
                            out.disagreements.append({"what": f"look-alike place ({label}) via {op}", "impl": real, "model": m, "schema": doc})
        # (d) reference cycles
        check_cycles(rng, int((40 if ctx["tier"] == "quick" else 1500) * scale), out, stats)
    finally:
        drv.close()
    out.stats = stats
    return out


def search(ctx, reason):
    sub = dict(ctx)
    sub["seed"] = ctx["seed"] + 15485863
    found = run(sub, scale=2.0 if ctx["tier"] == "quick" else 1.0)
    new = [f for f in found.failures if f.get("finding") is None]
    return new[0] if new else None


def _case_fails(case):
    if "document" in case:
        out, tmp = Outcome(), tempfile.mkdtemp(prefix="statham-c20-")
        try:
            path = os.path.join(tmp, "doc.json")
            with open(path, "w", encoding="utf8") as fh:
                json.dump(case["document"], fh)
            return run_main(path) != ("ok" if case.get("cycle", "").startswith("acyclic") else "notImplemented")
        finally:
            shutil.rmtree(tmp, ignore_errors=True)
    fn = {"parse": parse, "generate": generate, "parse_element": parse_element}[case.get("route", "parse")]
    return classify(fn, case["schema"]) != "notImplemented"


def replay_finding(finding):
    return _case_fails(finding["witness"])


def replay(payload):
    case = payload.get("failure", {}).get("case")
    return True if not case else not _case_fails(case)
