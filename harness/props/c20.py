"""C20 — unsupported schema features are refused, never silently mis-modelled.

Correspondence: generated supported schemas with one documented-unsupported keyword placed at a
schema position found by the harness's own walker (13 position kinds, incl. root definitions),
or at a look-alike non-schema position (a property *named* "if", inside const/enum/default, in an
array-form dependency): outcome kind of parse_element / parse on the real code vs the Lean model.
Oracle: with the keyword at a schema position the real code raises FeatureNotImplementedError —
from parse_element, from parse, and from generation — and the schema without it parses.
Reference cycles (not finite schemas, so outside the Lean model): documents with self-, mutual,
long and alias-only cycles through every position are written to a scratch directory and run
through statham.__main__.main; anything but the not-implemented error is a failure.
"The same schema without that part still parses": a base that the real code refuses as not implemented
although it uses no unsupported keyword at a schema position is a failure; bases also spell the six
keywords where statham reads a name or a literal (property / pattern / dependency / definitions names,
required, keys and strings inside const / enum / default) and must parse whenever the same schema with
a neutral spelling does.
Histories (real code only): the dictionary handed to the parser may have been parsed before (parsing
rewrites it in place) or be a shallow copy of one, taken before or after that parse. A keyword or a
back edge introduced afterwards must be refused like in a fresh dictionary, and a dictionary that was
refused parses once the keyword is taken out again.
Keys of keyed positions (g): the name under which a sub-schema sits in properties / patternProperties / dependencies / definitions is drawn
from an open pool - ordinary names and patterns, ECMA-262 patterns that Python's `re` refuses (composed from ECMA-only atoms), strings no
regex dialect accepts, keyword spellings, non-ASCII / very long / reserved names. Whatever the key, the value is a schema position: a keyword
(directly or deeper) below it is refused, and a reference cycle through it is refused (in-memory graphs (i) and documents through main (d)).
Fresh in-memory reference graphs (i): self / mutual / long cycles through every link kind and key, entered at the root, from a fresh host
position or from a `definitions` member, against the same graph with the closing edge cut (which must parse).
Ambient condition (h): the refusals must not depend on what else the process is doing. Another thread is suspended *inside* a library call
(parse_element / parse / generate of a supported, an unsupported or a recursive document, stopped at a chosen line event of the library's
own files by a trace function - plain dictionaries only) while the checking thread runs keyword pairs, recursive graphs, recursive documents
through main and supported bases; every outcome must be what the same call gives in a quiet process, and so must the suspended call's own
outcome once it is let go. All waits are timed: a call that does not come back while / after the other thread is held is reported."""
import copy
import json
import os
import random
import re
import shutil
import sys
import tempfile
import threading

from statham.schema.exceptions import FeatureNotImplementedError, SchemaParseError
from statham.schema.parser import parse, parse_element
from statham.serializers import serialize_python

from harness import core, sched
from harness.framework import Outcome
from harness.gen import SchemaGen

ID = "C20"
TIE_MODULES = ["StathamModel.Tie"]
ASSUMPTIONS = ["reference cycles are observed on the real code only (a cyclic document is not a finite schema tree)",
               "json_ref_dict resolves references; its own refusals of malformed references are outside statham"]
N_CASES = {"quick": 500, "thorough": 20000}

UNSUPPORTED = {
    "if": [{}, {"type": "string"}, True, {"properties": {"a": {"const": 1}}}],
    "then": [{}, {"required": ["a"]}, False],
    "else": [{}, {"type": "integer"}, True],
    "$defs": [{}, {"a": {"type": "string"}}],
    "unevaluatedItems": [False, True, {"type": "string"}],
    "unevaluatedProperties": [False, True, {}],
}
POSITION_KINDS = ["root", "properties", "patternProperties", "additionalProperties", "propertyNames", "dependencies", "items",
                  "tuple-items", "additionalItems", "contains", "anyOf", "oneOf", "allOf", "not", "definitions"]


def positions(schema, path=(), kind="root"):
    """Every dict-valued schema position of `schema` with its kind (the harness's own reading of Draft 6 + statham's `parse`)."""
    if not isinstance(schema, dict):
        return
    yield path, kind
    top = not path
    for key in ("properties", "patternProperties", "dependencies") + (("definitions",) if top else ()):
        sub = schema.get(key)
        if isinstance(sub, dict):
            for name, s in sub.items():
                yield from positions(s, path + (key, name), key)
    for key in ("additionalProperties", "propertyNames", "additionalItems", "contains", "not", "items"):
        yield from positions(schema.get(key), path + (key,), key)
    for key in ("anyOf", "oneOf", "allOf", "items"):
        sub = schema.get(key)
        if isinstance(sub, list):
            for i, s in enumerate(sub):
                yield from positions(s, path + (key, i), "tuple-items" if key == "items" else key)


def uses_unsupported(schema):
    return any(k in at(schema, path) for path, _ in positions(schema) for k in UNSUPPORTED)


def at(schema, path):
    node = schema
    for p in path:
        node = node[p]
    return node


def classify(fn, doc):
    return classify_shared(fn, copy.deepcopy(doc))


def classify_shared(fn, doc):
    """outcome of fn on this very object (parsing rewrites it in place)"""
    try:
        fn(doc)
        return "ok"
    except FeatureNotImplementedError:
        return "notImplemented"
    except SchemaParseError as exc:
        msg = str(exc)
        return "missingTitle" if msg.startswith("No title defined") else "invalidType" if msg.startswith("Got invalid type") else "schemaParseError"
    except RecursionError:
        return "recursion"
    except Exception as exc:  # noqa: BLE001
        return "other:" + type(exc).__name__


def generate(doc):
    return serialize_python(*parse(doc))


def generate_from_file(doc):
    """the generator's own entry point, from a document on disk (loading, reference resolution, titling, parsing, printing)"""
    from statham.__main__ import main
    tmp = tempfile.mkdtemp(prefix="statham-c20-main-")
    try:
        path = os.path.join(tmp, "doc.json")
        with open(path, "w", encoding="utf8") as fh:
            json.dump(doc, fh)
        return main(path + "#/")
    finally:
        shutil.rmtree(tmp, ignore_errors=True)


def model_outcome(drv, op, doc):
    rep = drv.ask({"op": op, "schema": core.enc_val(doc), "tables": core.make_tables([], [], [], names=core_names(doc))})
    if "error" in rep:
        return None
    return "ok" if rep["parse"] == "ok" else rep["kind"]


def core_names(doc):
    names = set()

    def walk(s):
        if isinstance(s, dict):
            props = s.get("properties")
            if isinstance(props, dict):
                names.update(props)
            req = s.get("required")
            if isinstance(req, list):
                names.update(x for x in req if isinstance(x, str))
            for v in s.values():
                walk(v)
        elif isinstance(s, list):
            for v in s:
                walk(v)
    walk(doc)
    return sorted(names)


def host(kind, child, rng):
    """A supported schema with `child` at a position of the given kind."""
    base = {"title": "Host", "type": "object"} if kind in ("properties", "patternProperties", "additionalProperties", "propertyNames", "dependencies", "definitions") else {"title": "Host"}
    if kind == "root":
        return child, ()
    if kind == "properties":
        return {**base, "properties": {"p": child}}, ("properties", "p")
    if kind == "patternProperties":
        return {**base, "patternProperties": {"^p": child}}, ("patternProperties", "^p")
    if kind == "dependencies":
        return {**base, "dependencies": {"p": child, "q": ["if", "then"]}}, ("dependencies", "p")
    if kind == "definitions":
        return {**base, "definitions": {"d": child}}, ("definitions", "d")
    if kind == "tuple-items":
        return {**base, "type": "array", "items": [{"type": "string"}, child]}, ("items", 1)
    if kind in ("anyOf", "oneOf", "allOf"):
        others = [{"type": "string"}] if rng.random() < 0.5 else []
        i = rng.randint(0, len(others))
        members = others[:i] + [child] + others[i:]
        return {**base, kind: members}, (kind, i)
    if kind == "additionalItems":
        shape = rng.choice([{"items": [{}]}, {"items": {"type": "string"}}, {}])
        return {**base, **shape, "additionalItems": child}, ("additionalItems",)
    return {**base, kind: child}, (kind,)


def check_pair(drv, base, path, kind, kw, value, out, stats, label):
    """base: supported schema (parses); the same with `kw` at `path` must be refused."""
    mutated = copy.deepcopy(base)
    node = at(mutated, path)
    node[kw] = copy.deepcopy(value)
    case = {"label": label, "schema": mutated, "path": list(path), "keyword": kw, "position": kind}
    out.note_case(case, len(path) > 0)
    stats["pos-" + kind] = stats.get("pos-" + kind, 0) + 1
    stats["kw-" + kw] = stats.get("kw-" + kw, 0) + 1
    in_definitions = len(path) >= 1 and path[0] == "definitions"
    routes = [("parse", parse), ("generate", generate), ("main", generate_from_file)] + ([] if in_definitions else [("parse_element", parse_element)])
    for name, fn in routes:
        without = classify(fn, base)
        if without != "ok":
            stats["base-" + without] = stats.get("base-" + without, 0) + 1
            if without == "notImplemented" and not uses_unsupported(base):
                out.failures.append({"case": {"label": label, "schema": base, "route": name, "expect": "parses"},
                                     "what": f"{name} refuses a schema as not implemented that uses no unsupported keyword at any schema position "
                                             f"(it is what is left of the refused schema once {kw!r} is taken out at {list(path)})", "finding": None})
            continue
        got = classify(fn, mutated)
        stats[f"{name}-{got}"] = stats.get(f"{name}-{got}", 0) + 1
        if got != "notImplemented":
            what = ("returned a result that ignores it" if got == "ok" else f"ended with {got}")
            out.failures.append({"case": {**case, "route": name}, "what": f"{kw!r} at {kind} position {list(path)}: {name} {what} instead of the not-implemented error", "finding": None})
    # the model
    for op, fn in (("parse_doc", parse),) + ((() if in_definitions else (("parse", parse_element),))):
        m = model_outcome(drv, op, mutated)
        if m is None:
            stats["driver-error"] = stats.get("driver-error", 0) + 1
            continue
        out.traces_validated += 1
        real = classify(fn, mutated)
        if m != real and not (m == "other" and real in ("invalidType", "schemaParseError") or real.startswith("other:") and m == "other"):
            out.disagreements.append({"what": f"outcome of {op}", "impl": real, "model": m, **case})


def lookalike_cases(rng):
    """keyword names where no schema is expected: must not change the outcome"""
    kw = rng.choice(list(UNSUPPORTED))
    return [
        ({"title": "L", "type": "object", "properties": {kw: {"type": "string"}}}, "property named " + kw),
        ({"title": "L", "const": {kw: {}}}, "inside const"),
        ({"title": "L", "enum": [{kw: True}, 1]}, "inside enum"),
        ({"title": "L", "default": {kw: False}}, "inside default"),
        ({"title": "L", "type": "object", "required": [kw]}, "required name"),
        ({"title": "L", "type": "object", "dependencies": {"a": [kw]}}, "array-form dependency"),
        ({"title": "L", "type": "object", "dependencies": {kw: ["a"]}}, "dependency key"),
        ({"title": "L", "type": "object", "patternProperties": {kw: {}}}, "pattern named " + kw),
        ({"title": "L", "type": "object", "properties": {"a": {"type": "object", "title": "In", "definitions": {"d": {kw: {}}}}}}, "nested definitions (not visited)"),
        ({"title": "L", "type": "object", "definitions": {"d": [{kw: {}}]}}, "non-schema definitions entry"),
    ]


# ---- the keyword spellings where statham reads a name or a literal ("the same schema without that part still parses")

LOOKALIKE_PLACES = ["property-name", "pattern-key", "dependency-key-array", "dependency-key-schema", "dependency-member", "required-name",
                    "const-key", "enum-key", "default-key", "enum-string", "definitions-key", "nested-definitions-key"]
ROUTES = {"parse": parse, "generate": generate, "main": generate_from_file, "parse_element": parse_element}


def neutral(kw):
    return "x" + kw.strip("$")


def spell(node, place, name, child, nest, top):
    """Use `name` in `node` at a place that is not a schema keyword position. False when the place does not apply to the node."""
    def sub(key):
        cur = node.get(key)
        if not isinstance(cur, dict):
            cur = node[key] = {}
        return cur
    lit = {name: copy.deepcopy(child)}
    lit = [lit, name] if nest else lit
    if place == "property-name":
        sub("properties")[name] = copy.deepcopy(child)
    elif place == "pattern-key":
        sub("patternProperties")[name] = copy.deepcopy(child)
    elif place == "dependency-key-array":
        sub("dependencies")[name] = ["a"]
    elif place == "dependency-key-schema":
        sub("dependencies")[name] = copy.deepcopy(child)
    elif place == "dependency-member":
        deps = sub("dependencies")
        if not isinstance(deps.get("a", []), list):
            return False
        deps["a"] = list(deps.get("a", [])) + [name]
    elif place == "required-name":
        if not isinstance(node.get("required", []), list):
            return False
        node["required"] = [r for r in node.get("required", []) if r != name] + [name]
    elif place == "const-key":
        node["const"] = lit
    elif place == "default-key":
        node["default"] = lit
    elif place in ("enum-key", "enum-string"):
        if not isinstance(node.get("enum", []), list):
            return False
        node["enum"] = list(node.get("enum", [])) + [lit if place == "enum-key" else name]
    elif place == "definitions-key":
        if not top:
            return False
        sub("definitions")[name] = copy.deepcopy(child)
    elif place == "nested-definitions-key":
        if top:
            return False
        sub("definitions")[name] = copy.deepcopy(child)
    return True


def check_lookalike(drv, sg, rng, base, path, place, kw, out, stats, label):
    """`base` parses. The same with `kw` spelled at a non-keyword place must parse whenever the neutral spelling does; and it is a
    supported base like any other: with a real unsupported keyword at a schema position it is refused, without it it parses."""
    child = sg.leaf()
    child = {k: v for k, v in child.items() if k not in UNSUPPORTED} if isinstance(child, dict) else {}
    nest = rng.random() < 0.3
    named, twin = copy.deepcopy(base), copy.deepcopy(base)
    if not (spell(at(named, path), place, kw, child, nest, not path) and spell(at(twin, path), place, neutral(kw), child, nest, not path)):
        stats["lookalike-place-not-applicable"] = stats.get("lookalike-place-not-applicable", 0) + 1
        return
    if uses_unsupported(named):
        stats["lookalike-skipped-schema-position"] = stats.get("lookalike-skipped-schema-position", 0) + 1
        return
    case = {"label": label, "lookalike": place, "name": kw, "schema": named, "twin": twin, "path": list(path), "expect": "parses"}
    out.note_case(case, True)
    stats["lookalike-" + place] = stats.get("lookalike-" + place, 0) + 1
    for name, fn in ROUTES.items():
        neutral_outcome = classify(fn, twin)
        if neutral_outcome != "ok":
            stats[f"lookalike-twin-{neutral_outcome}"] = stats.get(f"lookalike-twin-{neutral_outcome}", 0) + 1
            continue
        got = classify(fn, named)
        stats[f"lookalike-{name}-{got}"] = stats.get(f"lookalike-{name}-{got}", 0) + 1
        if got != "ok":
            how = "refused it with the not-implemented error" if got == "notImplemented" else f"ended with {got}"
            out.failures.append({"case": {**case, "route": name}, "finding": None,
                                 "what": f"{kw!r} as {place} at {list(path)} (a name or literal, not a schema keyword): {name} {how}, "
                                         f"while the same schema spelled {neutral(kw)!r} parses"})
    # the other half on this base: a real keyword at a schema position
    pos = list(positions(named))
    kpath, kind = rng.choice(pos)
    real = rng.choice(list(UNSUPPORTED))
    if real not in at(named, kpath):
        check_pair(drv, named, kpath, kind, real, rng.choice(UNSUPPORTED[real]), out, stats, label + "+keyword")


# ---- histories: the dictionary has been through the parser before

SUBJECTS = ["same", "copy-after", "copy-before"]
LINK_KINDS = ["properties", "patternProperties", "dependencies", "items", "tuple-items", "additionalProperties", "additionalItems",
              "contains", "propertyNames", "anyOf", "oneOf", "allOf", "not"]


def add_link(node, kind, target, key=None):
    if kind in ("properties", "patternProperties", "dependencies"):
        cur = node.get(kind)
        if not isinstance(cur, dict):
            cur = node[kind] = {}
        cur[key if key is not None else "^next" if kind == "patternProperties" else "next"] = target
    elif kind in ("anyOf", "oneOf", "allOf"):
        cur = node.get(kind)
        if not isinstance(cur, list):
            cur = node[kind] = []
        cur.append(target)
    elif kind == "tuple-items":
        node["items"] = [{}, target]
    else:
        node[kind] = target


def history_subject(h, first_doc):
    """Run the first parse of a history; returns (outcome of the first parse, the dictionary the history goes on with)."""
    before = dict(first_doc) if h["subject"] == "copy-before" else None
    first = classify_shared(ROUTES[h["first"]], first_doc)
    subject = first_doc if h["subject"] == "same" else dict(first_doc) if h["subject"] == "copy-after" else before
    return first, subject


def last_parse(h, subject):
    doc = subject if not h.get("host") else host(h["host"], subject, random.Random(h.get("host_seed", 0)))[0]
    return classify_shared(ROUTES[h["route"]], doc)


def play(h, part):
    """A history on the real code, as data. kind "edited": parse base; take the subject (the same dictionary, or a shallow copy made after /
    before that parse); with `part`, put the keyword (or an edge back to the subject's root; without `part`, the same edge to a fresh {})
    at edit.path of the subject; parse the subject (or a fresh host holding it). kind "removed": parse base + keyword (refused); take the
    subject; remove the keyword again (with `part`: leave it); parse. Returns the outcome of the last parse."""
    edit = h["edit"]
    doc = copy.deepcopy(h["base"])
    if h["kind"] == "removed":
        at(doc, edit["path"])[edit["keyword"]] = copy.deepcopy(edit["value"])
    first, subject = history_subject(h, doc)
    if first != ("ok" if h["kind"] == "edited" else "notImplemented"):
        return "first:" + first
    node = at(subject, edit["path"])
    if h["kind"] == "removed":
        if not part:
            node.pop(edit["keyword"], None)
    elif "link" in edit:
        add_link(node, edit["link"], subject if part else {})
    elif part:
        node[edit["keyword"]] = copy.deepcopy(edit["value"])
    return last_parse(h, subject)


def history_fails(h):
    """The oracle of a history. edited: the history without the part parses, so with it the last parse must be the refusal.
    removed: the never-parsed base parses by the same route, so after the keyword is taken out again the last parse must succeed."""
    if h["kind"] == "edited":
        control, got = play(h, False), play(h, True)
        return (control == "ok" and got != "notImplemented"), control, got
    control = last_parse(h, copy.deepcopy(h["base"]))
    still = play(h, True)
    got = play(h, False)
    return (control == "ok" and still == "notImplemented" and got != "ok"), control, got


def make_history(rng, sg, kind, subject, host_kind):
    base = sg.schema(rng.choice([1, 2, 3]))
    if not isinstance(base, dict):
        base = {}
    base = copy.deepcopy(base)
    base.setdefault("title", "Root")
    for k in UNSUPPORTED:
        base.pop(k, None)
    host_kind = None if host_kind == "root" else host_kind
    route = rng.choice(["parse", "generate"] if host_kind == "definitions" else ["parse_element", "parse", "generate"])
    if not host_kind and route != "parse_element" and rng.random() < 0.4:
        base["definitions"] = {f"d{j}": sg.schema(2) for j in range(rng.randint(1, 2))}
    if uses_unsupported(base) or classify(parse, base) != "ok":
        return None
    h = {"kind": kind, "base": base, "first": rng.choice(["parse_element", "parse", "parse", "generate"]), "subject": subject, "route": route}
    if host_kind:
        h["host"], h["host_seed"] = host_kind, rng.randrange(1 << 30)
    definitions_read = not host_kind and route != "parse_element"
    kw = rng.choice(list(UNSUPPORTED))
    if kind == "removed":
        # the keyword is there from the start, at any position the last parse reads
        pos = [(p, k) for p, k in positions(base) if definitions_read and h["first"] != "parse_element" or p[:1] != ("definitions",)]
        path, where = rng.choice(pos)
        h["edit"] = {"path": list(path), "position": where, "keyword": kw, "value": rng.choice(UNSUPPORTED[kw])}
        return h
    # edited: the places that are still dictionaries once the first parse has rewritten the subject
    first, subject_doc = history_subject(h, copy.deepcopy(base))
    if first != "ok":
        return None
    pos = [(p, k) for p, k in positions(subject_doc) if definitions_read or p[:1] != ("definitions",)]
    below = [x for x in pos if x[0]]
    path, where = rng.choice(below) if below and rng.random() < 0.6 else ((), "root")
    if rng.random() < 0.25:
        if path[:1] == ("definitions",):
            # an edge from a member of `definitions` back to the root closes a cycle through the `definitions` container only: nothing the
            # parser follows is recursive (the listed region C20-definitions-back-reference, observed on fresh documents in (d))
            path, where = (), "root"
        h["edit"] = {"path": list(path), "position": where, "link": rng.choice(LINK_KINDS)}
    else:
        h["edit"] = {"path": list(path), "position": where, "keyword": kw, "value": rng.choice(UNSUPPORTED[kw])}
    return h


def check_history(h, out, stats, label):
    case = {"label": label, "history": h}
    out.note_case(case, True)
    edit = h["edit"]
    what_edit = "back-edge" if "link" in edit else "keyword"
    fails, control, got = history_fails(h)
    for key in (f"history-{h['kind']}", f"history-subject-{h['subject']}", f"history-{h['kind']}-{what_edit}", f"history-host-{h.get('host', 'none')}",
                f"history-first-{h['first']}", f"history-last-{h['route']}", f"history-at-{'root' if not edit['path'] else 'nested'}",
                f"history-{h['kind']}-control-{control}", f"history-{h['kind']}-{what_edit}-{got}"):
        stats[key] = stats.get(key, 0) + 1
    if not fails:
        return
    whose = {"same": "the dictionary parsed before", "copy-after": "a shallow copy of a dictionary parsed before", "copy-before": "a shallow copy taken before its original was parsed"}[h["subject"]]
    where = f"{list(edit['path'])}" + (f", held at a {h['host']} position of a fresh schema" if h.get("host") else "")
    if h["kind"] == "removed":
        what = (f"{whose} (first parse: refused for {edit['keyword']!r} at {where}): with the keyword taken out again {h['route']} ended with {got}, "
                f"although the same schema parses when it has not been parsed before")
    elif "link" in edit:
        what = (f"{whose}, made recursive afterwards (an edge through {edit['link']} at {where} back to its root): {h['route']} ended with {got} "
                f"instead of the not-implemented error")
    else:
        what = (f"{edit['keyword']!r} put at {where} of {whose}: {h['route']} "
                + ("returned a result that ignores it" if got == "ok" else f"ended with {got}") + " instead of the not-implemented error")
    out.failures.append({"case": case, "what": what, "finding": None})


# ---- keys of keyed positions: whatever a sub-schema is called, it is a schema position

KEYED_KINDS = ["properties", "patternProperties", "dependencies", "definitions"]
ECMA_ATOMS = [r"\p{L}", r"\P{Lu}", r"\p{Script=Greek}", r"\cA", r"\cj", "[^]", r"\u{1F600}", r"\u{61}", r"(?<year>\d{4})", r"[\w-.]", r"\e", r"\-", r"\k<n>(?<n>a)"]
PLAIN_KEYS = ["p", "^p", "^x-", "^[a-z]+$", ".*", "a|b", r"\d+$", "^(foo|bar)_[0-9]{1,3}$", "next", "^next"]
NO_DIALECT_KEYS = ["(", "[a-", "*a", "a{2,1}", ")", "(?"]
ODD_KEYS = ["a b", "ключ", "\u0000", "x" * 300, "__class__", "class", "1", "$ref", "$id", "title", "type", "properties", "^", "\\\\", "\U0001F600", "a.b", "a-b"]
# Two keys are NOT in the pool, each a separate observation on the unchanged library that has been reported rather than listed here:
# "" (json_ref_dict's materialize mangles a document with an empty key before statham sees it, so main() returns a module for
# {"properties": {"": {"if": {}}}}) and "_x_autotitle" (statham's own annotation key: literal copies drop it, so a reference cycle that
# passes through an entry of that name and closes inside enum / const / default is accepted by main()).


def key_stratum(key):
    try:
        re.compile(key)
    except re.error:
        return "re-rejects"
    except Exception:  # noqa: BLE001
        return "re-crashes"
    return "re-accepts"


def key_pool(rng, n_composed=8):
    """(key, family) pairs: every fixed key plus ECMA-262 patterns composed around an atom that is not Python `re` syntax"""
    pool = [(k, "plain") for k in PLAIN_KEYS] + [(k, "no-dialect") for k in NO_DIALECT_KEYS] + [(k, "odd-text") for k in ODD_KEYS]
    pool += [(k, "keyword-spelling") for k in UNSUPPORTED]
    pool += [(a, "ecma-atom") for a in ECMA_ATOMS]
    for _ in range(n_composed):
        atom = rng.choice(ECMA_ATOMS)
        pool.append((rng.choice(["^", "", "^x", "(a|b)", "^[a-z]"]) + atom + rng.choice(["", "+$", "*", "$", "{2}", "|z"]), "ecma-composed"))
    return pool


def keyed_host(kind, key, child, rng):
    """a supported schema with `child` under `key` at a keyed position, alone or beside ordinary entries"""
    base = {"title": "Host", "type": "object"}
    entries = {key: child}
    if rng.random() < 0.5:
        other = "^ok_" if kind == "patternProperties" else "ok"
        if other != key:
            entries = {other: {"type": "integer"}, key: child} if rng.random() < 0.5 else {key: child, other: {"type": "integer"}}
    base[kind] = entries
    path = (kind, key)
    wrap = rng.random()
    if wrap < 0.2 and kind != "definitions":
        return {"title": "Outer", "type": "array", "items": base}, ("items",) + path
    if wrap < 0.35 and kind != "definitions":
        return {"title": "Outer", "type": "string", "definitions": {"inner": base}}, ("definitions", "inner") + path
    return base, path


def check_keyed(drv, sg, rng, out, stats, quick):
    pool = key_pool(rng, 8 if quick else 60)
    for key, family in pool:
        kinds = ["patternProperties", rng.choice(["properties", "dependencies", "definitions"])] if quick else KEYED_KINDS
        for kind in kinds:
            child = sg.leaf()
            child = {k: v for k, v in child.items() if k not in UNSUPPORTED} if isinstance(child, dict) else {}
            sub = ()
            if rng.random() < 0.3:     # the keyword deeper below the key
                deep_kind = rng.choice([k for k in POSITION_KINDS if k not in ("root", "definitions")])
                child, sub = host(deep_kind, child, rng)
                child = dict(child)
                child["title"] = "Below"
            base, path = keyed_host(kind, key, child, rng)
            if uses_unsupported(base):
                continue
            kw = rng.choice(list(UNSUPPORTED))
            stats[f"key-{family}"] = stats.get(f"key-{family}", 0) + 1
            stats[f"key-{key_stratum(key)}-{kind}"] = stats.get(f"key-{key_stratum(key)}-{kind}", 0) + 1
            check_pair(drv, base, path + tuple(sub), kind if not sub else deep_kind, kw, rng.choice(UNSUPPORTED[kw]), out, stats, f"keyed-{kind}-{family}")


# ---- fresh in-memory reference graphs (what reference resolution hands to the parser), as data

OBJECT_LINKS = ("properties", "patternProperties", "dependencies", "additionalProperties", "propertyNames")
ARRAY_LINKS = ("items", "tuple-items", "additionalItems", "contains")


def make_graph(rng, length, entry, keys):
    """nodes 0..length-1, node i linked to node i+1 through links[i]; the last link closes the cycle back to node 0"""
    nodes, links = [], []
    for i in range(length):
        kind = rng.choice(LINK_KINDS)
        node = {"title": f"N{i}"}
        r = rng.random()
        if r < 0.7:
            if kind in OBJECT_LINKS:
                node["type"] = "object"
            elif kind in ARRAY_LINKS:
                node["type"] = "array"
        elif r < 0.8:
            node["type"] = rng.choice(["object", "array", "string"])
        link = {"kind": kind}
        if kind in ("properties", "patternProperties", "dependencies") and rng.random() < 0.75:
            link["key"] = rng.choice(keys)[0]
        nodes.append(node)
        links.append(link)
    return {"nodes": nodes, "links": links, "entry": entry}


def build_graph(g, closed=True):
    nodes = [copy.deepcopy(n) for n in g["nodes"]]
    for i, link in enumerate(g["links"]):
        last = i + 1 == len(nodes)
        add_link(nodes[i], link["kind"], (nodes[0] if closed else {}) if last else nodes[i + 1], link.get("key"))
    entry = g.get("entry", "root")
    if entry == "root":
        return nodes[0]
    if entry == "definitions":
        return {"title": "Root", "type": "string", "definitions": {"start": nodes[0]}}
    return host(entry, nodes[0], random.Random(g.get("host_seed", 0)))[0]


def graph_routes(g):
    return ["parse", "generate"] if g.get("entry") == "definitions" else ["parse_element", "parse", "generate"]


def graph_fails(g, route):
    control = classify_shared(ROUTES[route], build_graph(g, closed=False))
    got = classify_shared(ROUTES[route], build_graph(g, closed=True))
    return (control == "ok" and got != "notImplemented"), control, got


def check_graphs(rng, n, out, stats, keys):
    plan = [(1, "root", k) for k in LINK_KINDS] + [(2, "root", None), (25, "definitions", None)]
    plan += [(rng.choice([1, 1, 2, 2, 3, 5, 8, 25]), rng.choice(["root", "root", "definitions"] + [k for k in POSITION_KINDS if k not in ("root", "definitions")]), None)
             for _ in range(n)]
    for i, (length, entry, first_kind) in enumerate(plan):
        g = make_graph(rng, length, entry, keys)
        if first_kind:
            g["links"][0]["kind"] = first_kind
            if first_kind not in ("properties", "patternProperties", "dependencies"):
                g["links"][0].pop("key", None)
        if entry not in ("root", "definitions"):
            g["host_seed"] = rng.randrange(1 << 30)
        route = rng.choice(graph_routes(g))
        case = {"label": f"graph-{i}", "graph": g, "route": route}
        out.note_case(case, True)
        fails, control, got = graph_fails(g, route)
        for key in (f"graph-length-{length}", f"graph-entry-{entry if entry in ('root', 'definitions') else 'hosted'}", f"graph-{route}-{got}", f"graph-control-{control}"):
            stats[key] = stats.get(key, 0) + 1
        for link in g["links"]:
            stats["graph-through-" + link["kind"]] = stats.get("graph-through-" + link["kind"], 0) + 1
            if "key" in link:
                stats["graph-key-" + key_stratum(link["key"])] = stats.get("graph-key-" + key_stratum(link["key"]), 0) + 1
        if fails:
            through = ", ".join(l["kind"] + (f"[{l['key']!r}]" if "key" in l else "") for l in g["links"])
            out.failures.append({"case": case, "finding": None,
                                 "what": f"in-memory reference cycle of length {length} through {through} (entered at {entry}): {route} "
                                         + ("returned a result" if got == "ok" else f"ended with {got}") + " instead of the not-implemented error, "
                                         "while the same graph with the closing edge cut parses"})


# ---- ambient condition: another thread is suspended inside the library

HOLD_S = 15.0


class Suspended:
    """Runs `thunk` in another thread under a trace function and suspends it at its k-th line event inside the library's files until let go."""

    def __init__(self, thunk, k):
        self.thunk, self.k = thunk, k
        self.n = 0
        self.entered, self.release, self.reached, self.done = threading.Event(), threading.Event(), threading.Event(), threading.Event()
        self.expired = False
        self.result = None
        self.thread = threading.Thread(target=self._body, daemon=True)

    def _on_line(self):
        self.n += 1
        if self.n == self.k:
            self.entered.set()
            self.reached.set()
            if not self.release.wait(HOLD_S):
                self.expired = True

    def _body(self):
        sys.settrace(sched.make_tracer(self._on_line))
        try:
            self.result = self.thunk()
        except BaseException as exc:  # noqa: BLE001
            self.result = "other:" + type(exc).__name__
        finally:
            sys.settrace(None)
            self.done.set()
            self.reached.set()

    def start(self):
        """True when the thread is now suspended inside the library"""
        self.thread.start()
        self.reached.wait(HOLD_S)
        return self.entered.is_set() and not self.done.is_set()

    def finish(self):
        self.release.set()
        self.thread.join(HOLD_S)
        return "never-returned" if self.thread.is_alive() else self.result


def subject_doc(spec):
    """a schema / graph / document spec, built afresh"""
    if "graph" in spec:
        return build_graph(spec["graph"])
    return copy.deepcopy(spec["schema"])


def call_spec(spec):
    return classify_shared(ROUTES[spec["route"]], subject_doc(spec))


def play_ambient(case):
    """Returns (state, probe outcomes, ambient outcome): the probes run on this thread while the ambient call is suspended at line event k."""
    amb = case["ambient"]
    held = Suspended(lambda: call_spec(amb), amb["k"])
    if not held.start():
        held.finish()
        return "not-held", [], None
    got = []
    try:
        for probe in case["probes"]:
            got.append(call_spec(probe))
    finally:
        expired = held.expired
        last = held.finish()
    return ("hold-expired" if expired else "held"), got, last


def ambient_fails(case, controls_done=False):
    """Oracle: each probe, run in a quiet process, gives what the statement demands (refused / parses) - then it must give the same while
    another thread is inside the library, and that thread's call must end as it does alone. (controls_done: the caller has just observed
    the quiet outcomes itself.)"""
    quiet = [p["expect"] if controls_done else call_spec(p) for p in case["probes"]]
    alone = case["ambient"]["expect"] if controls_done else call_spec(case["ambient"])
    if quiet != [p["expect"] for p in case["probes"]] or alone != case["ambient"]["expect"]:
        return False, "control-differs", quiet, alone
    state, got, last = play_ambient(case)
    if state == "not-held":
        return False, state, got, last
    return (state == "hold-expired" or got != quiet or last != alone), state, got, last


def make_ambient(rng, sg, keys):
    """the call another thread is in the middle of"""
    r = rng.random()
    route = rng.choice(["parse_element", "parse_element", "parse", "generate"])
    if r < 0.12:
        g = make_graph(rng, rng.choice([1, 2, 5]), "root", keys)
        spec = {"route": route, "graph": g, "expect": "notImplemented", "kind": "recursive"}
        if graph_fails(g, route) != (False, "ok", "notImplemented"):
            return None
    else:
        base = sg.schema(3)
        if not isinstance(base, dict):
            return None
        base = copy.deepcopy(base)
        base.setdefault("title", "Root")
        if uses_unsupported(base) or classify(ROUTES[route], base) != "ok":
            return None
        spec = {"route": route, "schema": base, "expect": "ok", "kind": "supported"}
        if r < 0.3:
            path, _ = rng.choice(list(positions(base)))
            kw = rng.choice(list(UNSUPPORTED))
            at(base, path)[kw] = copy.deepcopy(rng.choice(UNSUPPORTED[kw]))
            spec.update(expect="notImplemented", kind="unsupported")
            if classify(ROUTES[route], base) != "notImplemented":
                return None
    n, res = sched.count_lines(lambda: call_spec(spec))
    if res != spec["expect"] or n < 1:
        return None
    spec["lines"] = n
    spec["k"] = rng.choice([1, max(1, n // 2), n, rng.randint(1, n), rng.randint(1, n), rng.randint(1, min(n, 400))])
    return spec


def make_probes(rng, sg, keys):
    probes = []
    # keyword at a position, and the schema without it
    for _ in range(2):
        kind = rng.choice(POSITION_KINDS)
        child = sg.leaf()
        child = {k: v for k, v in child.items() if k not in UNSUPPORTED} if isinstance(child, dict) else {}
        if kind == "root":
            child.setdefault("title", "Root")
        base, path = host(kind, child, rng)
        kw = rng.choice(list(UNSUPPORTED))
        mutated = copy.deepcopy(base)
        at(mutated, path)[kw] = copy.deepcopy(rng.choice(UNSUPPORTED[kw]))
        route = rng.choice(["parse", "generate", "main"] + ([] if kind == "definitions" else ["parse_element"]))
        probes.append({"route": route, "schema": mutated, "expect": "notImplemented", "kind": "keyword"})
        probes.append({"route": route, "schema": base, "expect": "ok", "kind": "base"})
    # recursive references: in-memory graphs (self, mutual, long; root / definitions / hosted) and a document through main
    for length, entry in ((1, "root"), (2, rng.choice(["root", "definitions"])), (rng.choice([3, 5, 25]), rng.choice(["root", "definitions", "properties", "items", "anyOf"]))):
        g = make_graph(rng, length, entry, keys)
        if entry not in ("root", "definitions"):
            g["host_seed"] = rng.randrange(1 << 30)
        probes.append({"route": rng.choice(graph_routes(g)), "graph": g, "expect": "notImplemented", "kind": "recursive-graph"})
    ref_kind = rng.choice(["properties", "items", "additionalProperties", "anyOf", "not"])
    node = {"title": "Node"}
    add_link(node, ref_kind, {"$ref": "#"})
    probes.append({"route": "main", "schema": node, "expect": "notImplemented", "kind": "recursive-document"})
    rng.shuffle(probes)
    return probes


def check_ambient(rng, sg, n, out, stats, keys):
    for i in range(n):
        amb = make_ambient(rng, sg, keys)
        if amb is None:
            stats["ambient-skipped"] = stats.get("ambient-skipped", 0) + 1
            continue
        probes = make_probes(rng, sg, keys)
        # keep the probes that do what the statement says in a quiet process (anything else is the business of the other sections)
        probes = [p for p in probes if call_spec(p) == p["expect"]]
        case = {"label": f"ambient-{i}", "ambient": amb, "probes": probes}
        out.note_case(case, True)
        fails, state, got, last = ambient_fails(case, controls_done=True)   # probes filtered above, the ambient call observed alone by make_ambient
        stats[f"ambient-{state}"] = stats.get(f"ambient-{state}", 0) + 1
        if state in ("not-held", "control-differs"):
            continue
        stats[f"ambient-in-{amb['route']}-of-{amb['kind']}"] = stats.get(f"ambient-in-{amb['route']}-of-{amb['kind']}", 0) + 1
        where = "first-line" if amb["k"] == 1 else "last-line" if amb["k"] == amb["lines"] else "inside"
        stats[f"ambient-suspended-{where}"] = stats.get(f"ambient-suspended-{where}", 0) + 1
        stats[f"ambient-own-outcome-{last}"] = stats.get(f"ambient-own-outcome-{last}", 0) + 1
        for p, g in zip(probes, got):
            stats[f"ambient-probe-{p['kind']}-{g}"] = stats.get(f"ambient-probe-{p['kind']}-{g}", 0) + 1
        if not fails:
            continue
        busy = f"another thread suspended at line event {amb['k']} of {amb['lines']} inside {amb['route']} of a {amb['kind']} document"
        bad = [(p, g) for p, g in zip(probes, got) if g != p["expect"]]
        if bad:
            p, g = bad[0]
            single = {"label": case["label"], "ambient": amb, "probes": [p]}
            if ambient_fails(single)[0]:
                case = single
            what = (f"{p['kind']} ({p['route']}) with {busy}: " + ("returned a result" if g == "ok" else f"ended with {g}")
                    + f" instead of {'the not-implemented error' if p['expect'] == 'notImplemented' else 'parsing'}, which is what the same call gives in a quiet process")
        elif state == "hold-expired":
            what = f"with {busy}, the calls on this thread did not come back until the other thread was let go after {HOLD_S:.0f} s"
        else:
            what = f"{busy}: once let go, that call ended with {last} instead of {amb['expect']} (its outcome alone), after {len(probes)} calls on this thread"
        out.failures.append({"case": case, "what": what, "finding": None})


# ---- reference cycles

def cycle_documents(rng, n, keys=None):
    docs = []
    link_kinds = ["properties", "items", "tuple-items", "additionalProperties", "additionalItems", "contains", "patternProperties",
                  "propertyNames", "dependencies", "anyOf", "oneOf", "allOf", "not",
                  # the reference resolver does not know literals from schemas: a reference inside one closes a cycle just as well
                  "default", "const", "enum"]

    def link(kind, ref, idx):
        r = {"$ref": ref}
        t = f"N{idx}"
        return {
            "properties": {"title": t, "type": "object", "properties": {"next": r}},
            "items": {"title": t, "type": "array", "items": r},
            "tuple-items": {"title": t, "type": "array", "items": [{}, r]},
            "additionalProperties": {"title": t, "type": "object", "additionalProperties": r},
            "additionalItems": {"title": t, "items": [{}], "additionalItems": r},
            "contains": {"title": t, "contains": r},
            "patternProperties": {"title": t, "type": "object", "patternProperties": {"^x": r}},
            "propertyNames": {"title": t, "propertyNames": r},
            "dependencies": {"title": t, "dependencies": {"a": r}},
            "anyOf": {"title": t, "anyOf": [{"type": "string"}, r]},
            "oneOf": {"title": t, "oneOf": [r, {"type": "null"}]},
            "allOf": {"title": t, "allOf": [r]},
            "not": {"title": t, "not": r},
            "default": {"title": t, "type": "object", "default": {"next": r}},
            "const": {"title": t, "const": {"k": [r]}},
            "enum": {"title": t, "enum": [1, r]},
        }[kind]
    # self cycles through every position
    for kind in link_kinds:
        docs.append((f"self-{kind}", link(kind, "#", 0), "cyclic", [kind]))
    for _ in range(n):
        length = rng.choice([1, 2, 2, 3, 5, 8])
        kinds = [rng.choice(link_kinds) for _ in range(length)]
        defs = {f"d{i}": link(kinds[i], f"#/definitions/d{(i + 1) % length}", i) for i in range(length)}
        shape = rng.random()
        if shape < 0.6:        # root reaches the cycle
            root = {"title": "Root", "type": "object", "properties": {"entry": {"$ref": "#/definitions/d0"}}, "definitions": defs}
            label = "reached"
        elif shape < 0.8:      # the cycle sits in definitions only
            root = {"title": "Root", "type": "object", "definitions": defs}
            label = "definitions-only"
        else:                  # an acyclic tail leads into the cycle
            defs["tail"] = link(rng.choice(link_kinds), "#/definitions/d0", 99)
            root = {"title": "Root", "type": "array", "items": {"$ref": "#/definitions/tail"}, "definitions": defs}
            label = "tail"
        docs.append((f"{label}-{length}", root, "cyclic", kinds))
    # cycles through keyed positions, whatever the key is called
    for key, family in (keys or []):
        kind = rng.choice(["patternProperties", "patternProperties", "properties", "dependencies"])
        node = {"title": "N0", "type": "object", kind: {key: {"$ref": "#"}}}
        if rng.random() < 0.5:
            docs.append((f"self-{kind}-key-{family}", node, "cyclic", [kind]))
        else:
            node[kind][key] = {"$ref": "#/definitions/d1"}
            root = {"title": "Root", "type": "object", "properties": {"entry": {"$ref": "#/definitions/d0"}},
                    "definitions": {"d0": node, "d1": link(rng.choice(link_kinds), "#/definitions/d0", 1)}}
            docs.append((f"reached-2-{kind}-key-{family}", root, "cyclic", [kind]))
    # a cycle whose closing edge runs through a `definitions` container only (listed region C20-definitions-back-reference)
    docs.append(("defs-back-root", {"type": "object", "title": "A", "properties": {"x": {"type": "integer"}}, "definitions": {"again": {"$ref": "#"}}}, "defs-back", ["definitions"]))
    docs.append(("defs-back-nested", {"type": "object", "title": "A", "properties": {"x": {"$ref": "#/definitions/b"}},
                                      "definitions": {"b": {"type": "object", "title": "B", "definitions": {"back": {"$ref": "#"}}}}}, "defs-back", ["definitions"]))
    # alias-only cycles (no schema between the references)
    for length in (2, 3, 5):
        defs = {f"a{i}": {"$ref": f"#/definitions/a{(i + 1) % length}"} for i in range(length)}
        docs.append((f"alias-{length}-used", {"title": "Root", "type": "object", "properties": {"x": {"$ref": "#/definitions/a0"}}, "definitions": defs}, "alias", []))
        docs.append((f"alias-{length}-unused", {"title": "Root", "type": "object", "definitions": defs}, "alias", []))
    docs.append(("alias-self", {"title": "Root", "type": "object", "definitions": {"a": {"$ref": "#/definitions/a"}}}, "alias-self", []))
    # acyclic controls: shared references, diamonds
    for i in range(max(3, n // 4)):
        k = rng.randint(2, 5)
        defs = {f"d{j}": (link(rng.choice(link_kinds), f"#/definitions/d{j + 1}", j) if j + 1 < k else {"type": "string"}) for j in range(k)}
        docs.append((f"acyclic-{k}", {"title": "Root", "type": "object", "properties": {"a": {"$ref": "#/definitions/d0"}, "b": {"$ref": "#/definitions/d0"}},
                                      "definitions": defs}, "acyclic", []))
    return docs


def run_main(path):
    from statham.__main__ import main
    try:
        main(path + "#/")
        return "ok"
    except FeatureNotImplementedError:
        return "notImplemented"
    except SchemaParseError:
        return "schemaParseError"
    except RecursionError:
        return "recursion"
    except Exception as exc:  # noqa: BLE001
        return "other:" + type(exc).__module__.split(".")[0] + "." + type(exc).__name__


def check_cycles(rng, n, out, stats, keys=None):
    tmp = tempfile.mkdtemp(prefix="statham-c20-")
    try:
        for i, (label, doc, expect, kinds) in enumerate(cycle_documents(rng, n, keys)):
            path = os.path.join(tmp, f"doc{i}.json")
            with open(path, "w", encoding="utf8") as fh:
                json.dump(doc, fh)
            got = run_main(path)
            case = {"cycle": label, "document": doc, "through": kinds}
            out.note_case(case, expect != "acyclic")
            stats[f"cycle-{expect}-{got}"] = stats.get(f"cycle-{expect}-{got}", 0) + 1
            for k in kinds:
                stats["cycle-through-" + k] = stats.get("cycle-through-" + k, 0) + 1
            if "-key-" in label:
                stats["cycle-key-" + label.split("-key-")[1]] = stats.get("cycle-key-" + label.split("-key-")[1], 0) + 1
            if expect == "acyclic":
                if got != "ok":
                    out.failures.append({"case": case, "what": f"acyclic references refused or crashed: {got}", "finding": None})
            elif got != "notImplemented":
                finding = "C20-self-alias" if expect == "alias-self" and got == "other:json_ref_dict.ReferenceParseError" else None
                if expect == "defs-back" and got == "ok":
                    finding = "C20-definitions-back-reference"
                out.failures.append({"case": case, "what": f"recursive references ({label}): main() ended with {got} instead of the not-implemented error", "finding": finding})
    finally:
        shutil.rmtree(tmp, ignore_errors=True)


def run(ctx, scale=1.0):
    rng = random.Random(ctx["seed"] + 20)
    out = Outcome()
    out.rule = ("(a) systematic: 15 position kinds x 6 unsupported keywords x 2-4 keyword values x generated leaf children, hosted in a supported schema; "
                "(b) random: generated supported schemas (depth <= 3) with a keyword inserted at a random position found by the harness's walker; "
                "(c) look-alike non-schema places (10 shapes); each through parse_element, parse and generation; non-trivial = the keyword is below the "
                "root; (d) reference documents: self cycles through 13 positions, random cycles of length 1-8 (reached / definitions-only / behind a "
                "tail), alias-only cycles, acyclic controls, through statham.__main__.main; (e) the six keyword spellings at 12 kinds of name / literal "
                "place (systematic in small hosts, random in generated schemas), each against the same schema with a neutral spelling through 4 routes, "
                "then used as the base of a keyword-at-a-position pair; (f) histories on the real code: first parse (parse_element / parse / generate), "
                "subject = the same dictionary | shallow copy after | shallow copy before, then a keyword or a back edge at a place that is still a "
                "dictionary (or: first parse refused, keyword removed again), last parse directly or inside a fresh host at each position kind; "
                "(g) keyed positions (properties / patternProperties / dependencies / definitions) under keys from an open pool: plain names and patterns, "
                "ECMA-262 patterns Python's re refuses (fixed atoms and composed), strings no dialect accepts, keyword spellings, odd text - keyword "
                "directly or one level deeper below the key, host alone / inside items / inside definitions; the same keys on cycle documents in (d); "
                "(i) fresh in-memory reference graphs: length 1-25 through 13 link kinds with pool keys, entered at root / definitions member / fresh "
                "host position, vs the graph with the closing edge cut; (h) ambient: another thread suspended at line event k (first / middle / last / "
                "random) inside parse_element / parse / generate of a supported / unsupported / recursive document while keyword pairs, bases, recursive "
                "graphs and a recursive document through main run on the checking thread, timed holds; "
                "distinct by SHA-256")
    stats = {}
    drv = core.Driver()
    try:
        sg = SchemaGen(rng, titled=True)
        # (a) systematic
        reps = 1 if ctx["tier"] == "quick" else 12
        for _ in range(reps):
            for kind in POSITION_KINDS:
                for kw, values in UNSUPPORTED.items():
                    for value in values:
                        child = sg.leaf()
                        if not isinstance(child, dict):
                            child = {}
                        child = dict(child)
                        if kind == "root":
                            child.setdefault("title", "Root")
                        for k in UNSUPPORTED:
                            child.pop(k, None)
                        base, path = host(kind, child, rng)
                        check_pair(drv, base, path, kind, kw, value, out, stats, f"systematic-{kind}")
        # (b) random
        n = int(N_CASES[ctx["tier"]] * scale)
        for i in range(n):
            base = sg.schema(3)
            if not isinstance(base, dict):
                continue
            base = copy.deepcopy(base)
            base.setdefault("title", "Root")
            if rng.random() < 0.3:
                base["definitions"] = {f"d{j}": sg.schema(2) for j in range(rng.randint(1, 3))}
            if classify(parse, base) != "ok":
                stats["random-base-unparseable"] = stats.get("random-base-unparseable", 0) + 1
                continue
            pos = list(positions(base))
            below = [x for x in pos if x[0]]
            path, kind = rng.choice(below) if below and rng.random() < 0.85 else rng.choice(pos)
            if any(k in at(base, path) for k in UNSUPPORTED):
                continue
            kw = rng.choice(list(UNSUPPORTED))
            check_pair(drv, base, path, kind, kw, rng.choice(UNSUPPORTED[kw]), out, stats, f"random-{i}")
        # (c) look-alikes: must not be refused (compared with the model; the oracle only records)
        for _ in range(3 if ctx["tier"] == "quick" else 30):
            for doc, label in lookalike_cases(rng):
                for op, fn in (("parse_doc", parse), ("parse", parse_element)):
                    real = classify(fn, doc)
                    m = model_outcome(drv, op, doc)
                    out.note_case({"lookalike": label, "schema": doc, "via": op}, True)
                    stats[f"lookalike-{real}"] = stats.get(f"lookalike-{real}", 0) + 1
                    if m is not None:
                        out.traces_validated += 1
                        if m != real:
                            out.disagreements.append({"what": f"look-alike place ({label}) via {op}", "impl": real, "model": m, "schema": doc})
        # (e) the keyword spellings at places that are names or literals, in bases that are then used like any other base
        quick = ctx["tier"] == "quick"
        for rep in range(1 if quick else 6):
            for place in LOOKALIKE_PLACES:
                for kw in UNSUPPORTED:
                    nested = place == "nested-definitions-key" or (place != "definitions-key" and rng.random() < 0.3)
                    kind = rng.choice([k for k in POSITION_KINDS if k not in ("root", "definitions")]) if nested else "root"
                    base, path = host(kind, {"title": "Inner", "type": rng.choice(["object", "object", "array", "string"])}, rng)
                    check_lookalike(drv, sg, rng, base, path, place, kw, out, stats, f"lookalike-systematic-{place}")
        for i in range(int((40 if quick else 2000) * scale)):
            base = sg.schema(3)
            if not isinstance(base, dict):
                continue
            base = copy.deepcopy(base)
            base.setdefault("title", "Root")
            if uses_unsupported(base) or classify(parse, base) != "ok":
                continue
            path, _ = rng.choice(list(positions(base)))
            check_lookalike(drv, sg, rng, base, path, rng.choice(LOOKALIKE_PLACES), rng.choice(list(UNSUPPORTED)), out, stats, f"lookalike-random-{i}")
        # (f) histories: dictionaries that have been parsed before, and shallow copies of them
        plan = [("edited", subject, kind) for subject in SUBJECTS for kind in POSITION_KINDS]
        plan += [(rng.choice(["edited", "edited", "removed"]), rng.choice(SUBJECTS), rng.choice(["root"] * 6 + POSITION_KINDS))
                 for _ in range(int((120 if quick else 6000) * scale))]
        for i, (hkind, subject, kind) in enumerate(plan):
            h = make_history(rng, sg, hkind, subject, kind)
            if h is None:
                stats["history-base-skipped"] = stats.get("history-base-skipped", 0) + 1
                continue
            check_history(h, out, stats, f"history-{i}")
        # (g) keyed positions under keys from the open pool
        check_keyed(drv, sg, rng, out, stats, quick)
        keys = key_pool(rng, 8 if quick else 60)
        # (i) fresh in-memory reference graphs
        check_graphs(rng, int((45 if quick else 3000) * scale), out, stats, keys)
        # (h) the same refusals while another thread is suspended inside the library
        check_ambient(rng, sg, int((20 if quick else 1500) * scale), out, stats, keys)
        # (d) reference cycles
        check_cycles(rng, int((40 if ctx["tier"] == "quick" else 1500) * scale), out, stats, keys if quick else keys * 3)
    finally:
        drv.close()
    out.stats = stats
    # report the smallest failing input first
    out.failures.sort(key=lambda f: len(json.dumps(f.get("case"), default=str)))
    return out


def search(ctx, reason):
    sub = dict(ctx)
    sub["seed"] = ctx["seed"] + 15485863
    found = run(sub, scale=2.0 if ctx["tier"] == "quick" else 1.0)
    new = [f for f in found.failures if f.get("finding") is None]
    return new[0] if new else None


def _case_fails(case):
    if "history" in case:
        return history_fails(case["history"])[0]
    if "ambient" in case:
        return ambient_fails(case)[0]
    if "graph" in case:
        return graph_fails(case["graph"], case.get("route", "parse"))[0]
    if case.get("expect") == "parses":
        fn = ROUTES[case.get("route", "parse")]
        if "twin" in case:
            return classify(fn, case["twin"]) == "ok" and classify(fn, case["schema"]) != "ok"
        return classify(fn, case["schema"]) == "notImplemented" and not uses_unsupported(case["schema"])
    if "document" in case:
        out, tmp = Outcome(), tempfile.mkdtemp(prefix="statham-c20-")
        try:
            path = os.path.join(tmp, "doc.json")
            with open(path, "w", encoding="utf8") as fh:
                json.dump(case["document"], fh)
            return run_main(path) != ("ok" if case.get("cycle", "").startswith("acyclic") else "notImplemented")
        finally:
            shutil.rmtree(tmp, ignore_errors=True)
    return classify(ROUTES[case.get("route", "parse")], case["schema"]) != "notImplemented"


def replay_finding(finding):
    return _case_fails(finding["witness"])


def replay(payload):
    case = payload.get("failure", {}).get("case")
    return True if not case else not _case_fails(case)
