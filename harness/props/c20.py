"""C20 — unsupported schema features are refused, never silently mis-modelled.

Correspondence: generated supported schemas with one documented-unsupported keyword placed at a
schema position found by the harness's own walker (13 position kinds, incl. root definitions),
or at a look-alike non-schema position (a property *named* "if", inside const/enum/default, in an
array-form dependency): outcome kind of parse_element / parse on the real code vs the Lean model.
Oracle: with the keyword at a schema position the real code raises FeatureNotImplementedError —
from parse_element, from parse, and from generation — and the schema without it parses.
Reference cycles (not finite schemas, so outside the Lean model): documents with self-, mutual,
long and alias-only cycles through every position are written to a scratch directory and run
through statham.__main__.main; anything but the not-implemented error is a failure.
"The same schema without that part still parses": a base that the real code refuses as not implemented
although it uses no unsupported keyword at a schema position is a failure; bases also spell the six
keywords where statham reads a name or a literal (property / pattern / dependency / definitions names,
required, keys and strings inside const / enum / default) and must parse whenever the same schema with
a neutral spelling does.
Histories (real code only): the dictionary handed to the parser may have been parsed before (parsing
rewrites it in place) or be a shallow copy of one, taken before or after that parse. A keyword or a
back edge introduced afterwards must be refused like in a fresh dictionary, and a dictionary that was
refused parses once the keyword is taken out again."""
import copy
import json
import os
import random
import shutil
import tempfile

from statham.schema.exceptions import FeatureNotImplementedError, SchemaParseError
from statham.schema.parser import parse, parse_element
from statham.serializers import serialize_python

from harness import core
from harness.framework import Outcome
from harness.gen import SchemaGen

ID = "C20"
TIE_MODULES = ["StathamModel.Tie"]
ASSUMPTIONS = ["reference cycles are observed on the real code only (a cyclic document is not a finite schema tree)",
               "json_ref_dict resolves references; its own refusals of malformed references are outside statham"]
N_CASES = {"quick": 500, "thorough": 20000}

UNSUPPORTED = {
    "if": [{}, {"type": "string"}, True, {"properties": {"a": {"const": 1}}}],
    "then": [{}, {"required": ["a"]}, False],
    "else": [{}, {"type": "integer"}, True],
    "$defs": [{}, {"a": {"type": "string"}}],
    "unevaluatedItems": [False, True, {"type": "string"}],
    "unevaluatedProperties": [False, True, {}],
}
POSITION_KINDS = ["root", "properties", "patternProperties", "additionalProperties", "propertyNames", "dependencies", "items",
                  "tuple-items", "additionalItems", "contains", "anyOf", "oneOf", "allOf", "not", "definitions"]


def positions(schema, path=(), kind="root"):
    """Every dict-valued schema position of `schema` with its kind (the harness's own reading of Draft 6 + statham's `parse`)."""
    if not isinstance(schema, dict):
        return
    yield path, kind
    top = not path
    for key in ("properties", "patternProperties", "dependencies") + (("definitions",) if top else ()):
        sub = schema.get(key)
        if isinstance(sub, dict):
            for name, s in sub.items():
                yield from positions(s, path + (key, name), key)
    for key in ("additionalProperties", "propertyNames", "additionalItems", "contains", "not", "items"):
        yield from positions(schema.get(key), path + (key,), key)
    for key in ("anyOf", "oneOf", "allOf", "items"):
        sub = schema.get(key)
        if isinstance(sub, list):
            for i, s in enumerate(sub):
                yield from positions(s, path + (key, i), "tuple-items" if key == "items" else key)


def uses_unsupported(schema):
    return any(k in at(schema, path) for path, _ in positions(schema) for k in UNSUPPORTED)


def at(schema, path):
    node = schema
    for p in path:
        node = node[p]
    return node


def classify(fn, doc):
    return classify_shared(fn, copy.deepcopy(doc))


def classify_shared(fn, doc):
    """outcome of fn on this very object (parsing rewrites it in place)"""
    try:
        fn(doc)
        return "ok"
    except FeatureNotImplementedError:
        return "notImplemented"
    except SchemaParseError as exc:
        msg = str(exc)
        return "missingTitle" if msg.startswith("No title defined") else "invalidType" if msg.startswith("Got invalid type") else "schemaParseError"
    except RecursionError:
        return "recursion"
    except Exception as exc:  # noqa: BLE001
        return "other:" + type(exc).__name__


def generate(doc):
    return serialize_python(*parse(doc))


def generate_from_file(doc):
    """the generator's own entry point, from a document on disk (loading, reference resolution, titling, parsing, printing)"""
    from statham.__main__ import main
    tmp = tempfile.mkdtemp(prefix="statham-c20-main-")
    try:
        path = os.path.join(tmp, "doc.json")
        with open(path, "w", encoding="utf8") as fh:
            json.dump(doc, fh)
        return main(path + "#/")
    finally:
        shutil.rmtree(tmp, ignore_errors=True)


def model_outcome(drv, op, doc):
    rep = drv.ask({"op": op, "schema": core.enc_val(doc), "tables": core.make_tables([], [], [], names=core_names(doc))})
    if "error" in rep:
        return None
    return "ok" if rep["parse"] == "ok" else rep["kind"]


def core_names(doc):
    names = set()

    def walk(s):
        if isinstance(s, dict):
            props = s.get("properties")
            if isinstance(props, dict):
                names.update(props)
            req = s.get("required")
            if isinstance(req, list):
                names.update(x for x in req if isinstance(x, str))
            for v in s.values():
                walk(v)
        elif isinstance(s, list):
            for v in s:
                walk(v)
    walk(doc)
    return sorted(names)


def host(kind, child, rng):
    """A supported schema with `child` at a position of the given kind."""
    base = {"title": "Host", "type": "object"} if kind in ("properties", "patternProperties", "additionalProperties", "propertyNames", "dependencies", "definitions") else {"title": "Host"}
    if kind == "root":
        return child, ()
    if kind == "properties":
        return {**base, "properties": {"p": child}}, ("properties", "p")
    if kind == "patternProperties":
        return {**base, "patternProperties": {"^p": child}}, ("patternProperties", "^p")
    if kind == "dependencies":
        return {**base, "dependencies": {"p": child, "q": ["if", "then"]}}, ("dependencies", "p")
    if kind == "definitions":
        return {**base, "definitions": {"d": child}}, ("definitions", "d")
    if kind == "tuple-items":
        return {**base, "type": "array", "items": [{"type": "string"}, child]}, ("items", 1)
    if kind in ("anyOf", "oneOf", "allOf"):
        others = [{"type": "string"}] if rng.random() < 0.5 else []
        i = rng.randint(0, len(others))
        members = others[:i] + [child] + others[i:]
        return {**base, kind: members}, (kind, i)
    if kind == "additionalItems":
        shape = rng.choice([{"items": [{}]}, {"items": {"type": "string"}}, {}])
        return {**base, **shape, "additionalItems": child}, ("additionalItems",)
    return {**base, kind: child}, (kind,)


def check_pair(drv, base, path, kind, kw, value, out, stats, label):
    """base: supported schema (parses); the same with `kw` at `path` must be refused."""
    mutated = copy.deepcopy(base)
    node = at(mutated, path)
    node[kw] = copy.deepcopy(value)
    case = {"label": label, "schema": mutated, "path": list(path), "keyword": kw, "position": kind}
    out.note_case(case, len(path) > 0)
    stats["pos-" + kind] = stats.get("pos-" + kind, 0) + 1
    stats["kw-" + kw] = stats.get("kw-" + kw, 0) + 1
    in_definitions = len(path) >= 1 and path[0] == "definitions"
    routes = [("parse", parse), ("generate", generate), ("main", generate_from_file)] + ([] if in_definitions else [("parse_element", parse_element)])
    for name, fn in routes:
        without = classify(fn, base)
        if without != "ok":
            stats["base-" + without] = stats.get("base-" + without, 0) + 1
            if without == "notImplemented" and not uses_unsupported(base):
                out.failures.append({"case": {"label": label, "schema": base, "route": name, "expect": "parses"},
                                     "what": f"{name} refuses a schema as not implemented that uses no unsupported keyword at any schema position "
                                             f"(it is what is left of the refused schema once {kw!r} is taken out at {list(path)})", "finding": None})
            continue
        got = classify(fn, mutated)
        stats[f"{name}-{got}"] = stats.get(f"{name}-{got}", 0) + 1
        if got != "notImplemented":
            what = ("returned a result that ignores it" if got == "ok" else f"ended with {got}")
            out.failures.append({"case": {**case, "route": name}, "what": f"{kw!r} at {kind} position {list(path)}: {name} {what} instead of the not-implemented error", "finding": None})
    # the model
    for op, fn in (("parse_doc", parse),) + ((() if in_definitions else (("parse", parse_element),))):
        m = model_outcome(drv, op, mutated)
        if m is None:
            stats["driver-error"] = stats.get("driver-error", 0) + 1
            continue
        out.traces_validated += 1
        real = classify(fn, mutated)
        if m != real and not (m == "other" and real in ("invalidType", "schemaParseError") or real.startswith("other:") and m == "other"):
            out.disagreements.append({"what": f"outcome of {op}", "impl": real, "model": m, **case})


def lookalike_cases(rng):
    """keyword names where no schema is expected: must not change the outcome"""
    kw = rng.choice(list(UNSUPPORTED))
    return [
        ({"title": "L", "type": "object", "properties": {kw: {"type": "string"}}}, "property named " + kw),
        ({"title": "L", "const": {kw: {}}}, "inside const"),
        ({"title": "L", "enum": [{kw: True}, 1]}, "inside enum"),
        ({"title": "L", "default": {kw: False}}, "inside default"),
        ({"title": "L", "type": "object", "required": [kw]}, "required name"),
        ({"title": "L", "type": "object", "dependencies": {"a": [kw]}}, "array-form dependency"),
        ({"title": "L", "type": "object", "dependencies": {kw: ["a"]}}, "dependency key"),
        ({"title": "L", "type": "object", "patternProperties": {kw: {}}}, "pattern named " + kw),
        ({"title": "L", "type": "object", "properties": {"a": {"type": "object", "title": "In", "definitions": {"d": {kw: {}}}}}}, "nested definitions (not visited)"),
        ({"title": "L", "type": "object", "definitions": {"d": [{kw: {}}]}}, "non-schema definitions entry"),
    ]


# ---- the keyword spellings where statham reads a name or a literal ("the same schema without that part still parses")

LOOKALIKE_PLACES = ["property-name", "pattern-key", "dependency-key-array", "dependency-key-schema", "dependency-member", "required-name",
                    "const-key", "enum-key", "default-key", "enum-string", "definitions-key", "nested-definitions-key"]
ROUTES = {"parse": parse, "generate": generate, "main": generate_from_file, "parse_element": parse_element}


def neutral(kw):
    return "x" + kw.strip("$")


def spell(node, place, name, child, nest, top):
    """Use `name` in `node` at a place that is not a schema keyword position. False when the place does not apply to the node."""
    def sub(key):
        cur = node.get(key)
        if not isinstance(cur, dict):
            cur = node[key] = {}
        return cur
    lit = {name: copy.deepcopy(child)}
    lit = [lit, name] if nest else lit
    if place == "property-name":
        sub("properties")[name] = copy.deepcopy(child)
    elif place == "pattern-key":
        sub("patternProperties")[name] = copy.deepcopy(child)
    elif place == "dependency-key-array":
        sub("dependencies")[name] = ["a"]
    elif place == "dependency-key-schema":
        sub("dependencies")[name] = copy.deepcopy(child)
    elif place == "dependency-member":
        deps = sub("dependencies")
        if not isinstance(deps.get("a", []), list):
            return False
        deps["a"] = list(deps.get("a", [])) + [name]
    elif place == "required-name":
        if not isinstance(node.get("required", []), list):
            return False
        node["required"] = [r for r in node.get("required", []) if r != name] + [name]
    elif place == "const-key":
        node["const"] = lit
    elif place == "default-key":
        node["default"] = lit
    elif place in ("enum-key", "enum-string"):
        if not isinstance(node.get("enum", []), list):
            return False
        node["enum"] = list(node.get("enum", [])) + [lit if place == "enum-key" else name]
    elif place == "definitions-key":
        if not top:
            return False
        sub("definitions")[name] = copy.deepcopy(child)
    elif place == "nested-definitions-key":
        if top:
            return False
        sub("definitions")[name] = copy.deepcopy(child)
    return True


def check_lookalike(drv, sg, rng, base, path, place, kw, out, stats, label):
    """`base` parses. The same with `kw` spelled at a non-keyword place must parse whenever the neutral spelling does; and it is a
    supported base like any other: with a real unsupported keyword at a schema position it is refused, without it it parses."""
    child = sg.leaf()
    child = {k: v for k, v in child.items() if k not in UNSUPPORTED} if isinstance(child, dict) else {}
    nest = rng.random() < 0.3
    named, twin = copy.deepcopy(base), copy.deepcopy(base)
    if not (spell(at(named, path), place, kw, child, nest, not path) and spell(at(twin, path), place, neutral(kw), child, nest, not path)):
        stats["lookalike-place-not-applicable"] = stats.get("lookalike-place-not-applicable", 0) + 1
        return
    if uses_unsupported(named):
        stats["lookalike-skipped-schema-position"] = stats.get("lookalike-skipped-schema-position", 0) + 1
        return
    case = {"label": label, "lookalike": place, "name": kw, "schema": named, "twin": twin, "path": list(path), "expect": "parses"}
    out.note_case(case, True)
    stats["lookalike-" + place] = stats.get("lookalike-" + place, 0) + 1
    for name, fn in ROUTES.items():
        neutral_outcome = classify(fn, twin)
        if neutral_outcome != "ok":
            stats[f"lookalike-twin-{neutral_outcome}"] = stats.get(f"lookalike-twin-{neutral_outcome}", 0) + 1
            continue
        got = classify(fn, named)
        stats[f"lookalike-{name}-{got}"] = stats.get(f"lookalike-{name}-{got}", 0) + 1
        if got != "ok":
            how = "refused it with the not-implemented error" if got == "notImplemented" else f"ended with {got}"
            out.failures.append({"case": {**case, "route": name}, "finding": None,
                                 "what": f"{kw!r} as {place} at {list(path)} (a name or literal, not a schema keyword): {name} {how}, "
                                         f"while the same schema spelled {neutral(kw)!r} parses"})
    # the other half on this base: a real keyword at a schema position
    pos = list(positions(named))
    kpath, kind = rng.choice(pos)
    real = rng.choice(list(UNSUPPORTED))
    if real not in at(named, kpath):
        check_pair(drv, named, kpath, kind, real, rng.choice(UNSUPPORTED[real]), out, stats, label + "+keyword")


# ---- histories: the dictionary has been through the parser before

SUBJECTS = ["same", "copy-after", "copy-before"]
LINK_KINDS = ["properties", "patternProperties", "dependencies", "items", "tuple-items", "additionalProperties", "additionalItems",
              "contains", "propertyNames", "anyOf", "oneOf", "allOf", "not"]


def add_link(node, kind, target):
    if kind in ("properties", "patternProperties", "dependencies"):
        cur = node.get(kind)
        if not isinstance(cur, dict):
            cur = node[kind] = {}
        cur["^next" if kind == "patternProperties" else "next"] = target
    elif kind in ("anyOf", "oneOf", "allOf"):
        cur = node.get(kind)
        if not isinstance(cur, list):
            cur = node[kind] = []
        cur.append(target)
    elif kind == "tuple-items":
        node["items"] = [{}, target]
    else:
        node[kind] = target


def history_subject(h, first_doc):
    """Run the first parse of a history; returns (outcome of the first parse, the dictionary the history goes on with)."""
    before = dict(first_doc) if h["subject"] == "copy-before" else None
    first = classify_shared(ROUTES[h["first"]], first_doc)
    subject = first_doc if h["subject"] == "same" else dict(first_doc) if h["subject"] == "copy-after" else before
    return first, subject


def last_parse(h, subject):
    doc = subject if not h.get("host") else host(h["host"], subject, random.Random(h.get("host_seed", 0)))[0]
    return classify_shared(ROUTES[h["route"]], doc)


def play(h, part):
    """A history on the real code, as data. kind "edited": parse base; take the subject (the same dictionary, or a shallow copy made after /
    before that parse); with `part`, put the keyword (or an edge back to the subject's root; without `part`, the same edge to a fresh {})
    at edit.path of the subject; parse the subject (or a fresh host holding it). kind "removed": parse base + keyword (refused); take the
    subject; remove the keyword again (with `part`: leave it); parse. Returns the outcome of the last parse."""
    edit = h["edit"]
    doc = copy.deepcopy(h["base"])
    if h["kind"] == "removed":
        at(doc, edit["path"])[edit["keyword"]] = copy.deepcopy(edit["value"])
    first, subject = history_subject(h, doc)
    if first != ("ok" if h["kind"] == "edited" else "notImplemented"):
        return "first:" + first
    node = at(subject, edit["path"])
    if h["kind"] == "removed":
        if not part:
            node.pop(edit["keyword"], None)
    elif "link" in edit:
        add_link(node, edit["link"], subject if part else {})
    elif part:
        node[edit["keyword"]] = copy.deepcopy(edit["value"])
    return last_parse(h, subject)


def history_fails(h):
    """The oracle of a history. edited: the history without the part parses, so with it the last parse must be the refusal.
    removed: the never-parsed base parses by the same route, so after the keyword is taken out again the last parse must succeed."""
    if h["kind"] == "edited":
        control, got = play(h, False), play(h, True)
        return (control == "ok" and got != "notImplemented"), control, got
    control = last_parse(h, copy.deepcopy(h["base"]))
    still = play(h, True)
    got = play(h, False)
    return (control == "ok" and still == "notImplemented" and got != "ok"), control, got


def make_history(rng, sg, kind, subject, host_kind):
    base = sg.schema(rng.choice([1, 2, 3]))
    if not isinstance(base, dict):
        base = {}
    base = copy.deepcopy(base)
    base.setdefault("title", "Root")
    for k in UNSUPPORTED:
        base.pop(k, None)
    host_kind = None if host_kind == "root" else host_kind
    route = rng.choice(["parse", "generate"] if host_kind == "definitions" else ["parse_element", "parse", "generate"])
    if not host_kind and route != "parse_element" and rng.random() < 0.4:
        base["definitions"] = {f"d{j}": sg.schema(2) for j in range(rng.randint(1, 2))}
    if uses_unsupported(base) or classify(parse, base) != "ok":
        return None
    h = {"kind": kind, "base": base, "first": rng.choice(["parse_element", "parse", "parse", "generate"]), "subject": subject, "route": route}
    if host_kind:
        h["host"], h["host_seed"] = host_kind, rng.randrange(1 << 30)
    definitions_read = not host_kind and route != "parse_element"
    kw = rng.choice(list(UNSUPPORTED))
    if kind == "removed":
        # the keyword is there from the start, at any position the last parse reads
        pos = [(p, k) for p, k in positions(base) if definitions_read and h["first"] != "parse_element" or p[:1] != ("definitions",)]
        path, where = rng.choice(pos)
        h["edit"] = {"path": list(path), "position": where, "keyword": kw, "value": rng.choice(UNSUPPORTED[kw])}
        return h
    # edited: the places that are still dictionaries once the first parse has rewritten the subject
    first, subject_doc = history_subject(h, copy.deepcopy(base))
    if first != "ok":
        return None
    pos = [(p, k) for p, k in positions(subject_doc) if definitions_read or p[:1] != ("definitions",)]
    below = [x for x in pos if x[0]]
    path, where = rng.choice(below) if below and rng.random() < 0.6 else ((), "root")
    if rng.random() < 0.25:
        if path[:1] == ("definitions",):
            # an edge from a member of `definitions` back to the root closes a cycle through the `definitions` container only: nothing the
            # parser follows is recursive (the listed region C20-definitions-back-reference, observed on fresh documents in (d))
            path, where = (), "root"
        h["edit"] = {"path": list(path), "position": where, "link": rng.choice(LINK_KINDS)}
    else:
        h["edit"] = {"path": list(path), "position": where, "keyword": kw, "value": rng.choice(UNSUPPORTED[kw])}
    return h


def check_history(h, out, stats, label):
    case = {"label": label, "history": h}
    out.note_case(case, True)
    edit = h["edit"]
    what_edit = "back-edge" if "link" in edit else "keyword"
    fails, control, got = history_fails(h)
    for key in (f"history-{h['kind']}", f"history-subject-{h['subject']}", f"history-{h['kind']}-{what_edit}", f"history-host-{h.get('host', 'none')}",
                f"history-first-{h['first']}", f"history-last-{h['route']}", f"history-at-{'root' if not edit['path'] else 'nested'}",
                f"history-{h['kind']}-control-{control}", f"history-{h['kind']}-{what_edit}-{got}"):
        stats[key] = stats.get(key, 0) + 1
    if not fails:
        return
    whose = {"same": "the dictionary parsed before", "copy-after": "a shallow copy of a dictionary parsed before", "copy-before": "a shallow copy taken before its original was parsed"}[h["subject"]]
    where = f"{list(edit['path'])}" + (f", held at a {h['host']} position of a fresh schema" if h.get("host") else "")
    if h["kind"] == "removed":
        what = (f"{whose} (first parse: refused for {edit['keyword']!r} at {where}): with the keyword taken out again {h['route']} ended with {got}, "
                f"although the same schema parses when it has not been parsed before")
    elif "link" in edit:
        what = (f"{whose}, made recursive afterwards (an edge through {edit['link']} at {where} back to its root): {h['route']} ended with {got} "
                f"instead of the not-implemented error")
    else:
        what = (f"{edit['keyword']!r} put at {where} of {whose}: {h['route']} "
                + ("returned a result that ignores it" if got == "ok" else f"ended with {got}") + " instead of the not-implemented error")
    out.failures.append({"case": case, "what": what, "finding": None})


# ---- reference cycles

def cycle_documents(rng, n):
    docs = []
    link_kinds = ["properties", "items", "tuple-items", "additionalProperties", "additionalItems", "contains", "patternProperties",
                  "propertyNames", "dependencies", "anyOf", "oneOf", "allOf", "not",
                  # the reference resolver does not know literals from schemas: a reference inside one closes a cycle just as well
                  "default", "const", "enum"]

    def link(kind, ref, idx):
        r = {"$ref": ref}
        t = f"N{idx}"
        return {
            "properties": {"title": t, "type": "object", "properties": {"next": r}},
            "items": {"title": t, "type": "array", "items": r},
            "tuple-items": {"title": t, "type": "array", "items": [{}, r]},
            "additionalProperties": {"title": t, "type": "object", "additionalProperties": r},
            "additionalItems": {"title": t, "items": [{}], "additionalItems": r},
            "contains": {"title": t, "contains": r},
            "patternProperties": {"title": t, "type": "object", "patternProperties": {"^x": r}},
            "propertyNames": {"title": t, "propertyNames": r},
            "dependencies": {"title": t, "dependencies": {"a": r}},
            "anyOf": {"title": t, "anyOf": [{"type": "string"}, r]},
            "oneOf": {"title": t, "oneOf": [r, {"type": "null"}]},
            "allOf": {"title": t, "allOf": [r]},
            "not": {"title": t, "not": r},
            "default": {"title": t, "type": "object", "default": {"next": r}},
            "const": {"title": t, "const": {"k": [r]}},
            "enum": {"title": t, "enum": [1, r]},
        }[kind]
    # self cycles through every position
    for kind in link_kinds:
        docs.append((f"self-{kind}", link(kind, "#", 0), "cyclic", [kind]))
    for _ in range(n):
        length = rng.choice([1, 2, 2, 3, 5, 8])
        kinds = [rng.choice(link_kinds) for _ in range(length)]
        defs = {f"d{i}": link(kinds[i], f"#/definitions/d{(i + 1) % length}", i) for i in range(length)}
        shape = rng.random()
        if shape < 0.6:        # root reaches the cycle
            root = {"title": "Root", "type": "object", "properties": {"entry": {"$ref": "#/definitions/d0"}}, "definitions": defs}
            label = "reached"
        elif shape < 0.8:      # the cycle sits in definitions only
            root = {"title": "Root", "type": "object", "definitions": defs}
            label = "definitions-only"
        else:                  # an acyclic tail leads into the cycle
            defs["tail"] = link(rng.choice(link_kinds), "#/definitions/d0", 99)
            root = {"title": "Root", "type": "array", "items": {"$ref": "#/definitions/tail"}, "definitions": defs}
            label = "tail"
        docs.append((f"{label}-{length}", root, "cyclic", kinds))
    # a cycle whose closing edge runs through a `definitions` container only (listed region C20-definitions-back-reference)
    docs.append(("defs-back-root", {"type": "object", "title": "A", "properties": {"x": {"type": "integer"}}, "definitions": {"again": {"$ref": "#"}}}, "defs-back", ["definitions"]))
    docs.append(("defs-back-nested", {"type": "object", "title": "A", "properties": {"x": {"$ref": "#/definitions/b"}},
                                      "definitions": {"b": {"type": "object", "title": "B", "definitions": {"back": {"$ref": "#"}}}}}, "defs-back", ["definitions"]))
    # alias-only cycles (no schema between the references)
    for length in (2, 3, 5):
        defs = {f"a{i}": {"$ref": f"#/definitions/a{(i + 1) % length}"} for i in range(length)}
        docs.append((f"alias-{length}-used", {"title": "Root", "type": "object", "properties": {"x": {"$ref": "#/definitions/a0"}}, "definitions": defs}, "alias", []))
        docs.append((f"alias-{length}-unused", {"title": "Root", "type": "object", "definitions": defs}, "alias", []))
    docs.append(("alias-self", {"title": "Root", "type": "object", "definitions": {"a": {"$ref": "#/definitions/a"}}}, "alias-self", []))
    # acyclic controls: shared references, diamonds
    for i in range(max(3, n // 4)):
        k = rng.randint(2, 5)
        defs = {f"d{j}": (link(rng.choice(link_kinds), f"#/definitions/d{j + 1}", j) if j + 1 < k else {"type": "string"}) for j in range(k)}
        docs.append((f"acyclic-{k}", {"title": "Root", "type": "object", "properties": {"a": {"$ref": "#/definitions/d0"}, "b": {"$ref": "#/definitions/d0"}},
                                      "definitions": defs}, "acyclic", []))
    return docs


def run_main(path):
    from statham.__main__ import main
    try:
        main(path + "#/")
        return "ok"
    except FeatureNotImplementedError:
        return "notImplemented"
    except SchemaParseError:
        return "schemaParseError"
    except RecursionError:
        return "recursion"
    except Exception as exc:  # noqa: BLE001
        return "other:" + type(exc).__module__.split(".")[0] + "." + type(exc).__name__


def check_cycles(rng, n, out, stats):
    tmp = tempfile.mkdtemp(prefix="statham-c20-")
    try:
        for i, (label, doc, expect, kinds) in enumerate(cycle_documents(rng, n)):
            path = os.path.join(tmp, f"doc{i}.json")
            with open(path, "w", encoding="utf8") as fh:
                json.dump(doc, fh)
            got = run_main(path)
            case = {"cycle": label, "document": doc, "through": kinds}
            out.note_case(case, expect != "acyclic")
            stats[f"cycle-{expect}-{got}"] = stats.get(f"cycle-{expect}-{got}", 0) + 1
            for k in kinds:
                stats["cycle-through-" + k] = stats.get("cycle-through-" + k, 0) + 1
            if expect == "acyclic":
                if got != "ok":
                    out.failures.append({"case": case, "what": f"acyclic references refused or crashed: {got}", "finding": None})
            elif got != "notImplemented":
                finding = "C20-self-alias" if expect == "alias-self" and got == "other:json_ref_dict.ReferenceParseError" else None
                if expect == "defs-back" and got == "ok":
                    finding = "C20-definitions-back-reference"
                out.failures.append({"case": case, "what": f"recursive references ({label}): main() ended with {got} instead of the not-implemented error", "finding": finding})
    finally:
        shutil.rmtree(tmp, ignore_errors=True)


def run(ctx, scale=1.0):
    rng = random.Random(ctx["seed"] + 20)
    out = Outcome()
    out.rule = ("(a) systematic: 15 position kinds x 6 unsupported keywords x 2-4 keyword values x generated leaf children, hosted in a supported schema; "
                "(b) random: generated supported schemas (depth <= 3) with a keyword inserted at a random position found by the harness's walker; "
                "(c) look-alike non-schema places (10 shapes); each through parse_element, parse and generation; non-trivial = the keyword is below the "
                "root; (d) reference documents: self cycles through 13 positions, random cycles of length 1-8 (reached / definitions-only / behind a "
                "tail), alias-only cycles, acyclic controls, through statham.__main__.main; (e) the six keyword spellings at 12 kinds of name / literal "
                "place (systematic in small hosts, random in generated schemas), each against the same schema with a neutral spelling through 4 routes, "
                "then used as the base of a keyword-at-a-position pair; (f) histories on the real code: first parse (parse_element / parse / generate), "
                "subject = the same dictionary | shallow copy after | shallow copy before, then a keyword or a back edge at a place that is still a "
                "dictionary (or: first parse refused, keyword removed again), last parse directly or inside a fresh host at each position kind; "
                "distinct by SHA-256")
    stats = {}
    drv = core.Driver()
    try:
        sg = SchemaGen(rng, titled=True)
        # (a) systematic
        reps = 1 if ctx["tier"] == "quick" else 12
        for _ in range(reps):
            for kind in POSITION_KINDS:
                for kw, values in UNSUPPORTED.items():
                    for value in values:
                        child = sg.leaf()
                        if not isinstance(child, dict):
                            child = {}
                        child = dict(child)
                        if kind == "root":
                            child.setdefault("title", "Root")
                        for k in UNSUPPORTED:
                            child.pop(k, None)
                        base, path = host(kind, child, rng)
                        check_pair(drv, base, path, kind, kw, value, out, stats, f"systematic-{kind}")
        # (b) random
        n = int(N_CASES[ctx["tier"]] * scale)
        for i in range(n):
            base = sg.schema(3)
            if not isinstance(base, dict):
                continue
            base = copy.deepcopy(base)
            base.setdefault("title", "Root")
            if rng.random() < 0.3:
                base["definitions"] = {f"d{j}": sg.schema(2) for j in range(rng.randint(1, 3))}
            if classify(parse, base) != "ok":
                stats["random-base-unparseable"] = stats.get("random-base-unparseable", 0) + 1
                continue
            pos = list(positions(base))
            below = [x for x in pos if x[0]]
            path, kind = rng.choice(below) if below and rng.random() < 0.85 else rng.choice(pos)
            if any(k in at(base, path) for k in UNSUPPORTED):
                continue
            kw = rng.choice(list(UNSUPPORTED))
            check_pair(drv, base, path, kind, kw, rng.choice(UNSUPPORTED[kw]), out, stats, f"random-{i}")
        # (c) look-alikes: must not be refused (compared with the model; the oracle only records)
        for _ in range(3 if ctx["tier"] == "quick" else 30):
            for doc, label in lookalike_cases(rng):
                for op, fn in (("parse_doc", parse), ("parse", parse_element)):
                    real = classify(fn, doc)
                    m = model_outcome(drv, op, doc)
                    out.note_case({"lookalike": label, "schema": doc, "via": op}, True)
                    stats[f"lookalike-{real}"] = stats.get(f"lookalike-{real}", 0) + 1
                    if m is not None:
                        out.traces_validated += 1
                        if m != real:
                            out.disagreements.append({"what": f"look-alike place ({label}) via {op}", "impl": real, "model": m, "schema": doc})
        # (e) the keyword spellings at places that are names or literals, in bases that are then used like any other base
        quick = ctx["tier"] == "quick"
        for rep in range(1 if quick else 6):
            for place in LOOKALIKE_PLACES:
                for kw in UNSUPPORTED:
                    nested = place == "nested-definitions-key" or (place != "definitions-key" and rng.random() < 0.3)
                    kind = rng.choice([k for k in POSITION_KINDS if k not in ("root", "definitions")]) if nested else "root"
                    base, path = host(kind, {"title": "Inner", "type": rng.choice(["object", "object", "array", "string"])}, rng)
                    check_lookalike(drv, sg, rng, base, path, place, kw, out, stats, f"lookalike-systematic-{place}")
        for i in range(int((40 if quick else 2000) * scale)):
            base = sg.schema(3)
            if not isinstance(base, dict):
                continue
            base = copy.deepcopy(base)
            base.setdefault("title", "Root")
            if uses_unsupported(base) or classify(parse, base) != "ok":
                continue
            path, _ = rng.choice(list(positions(base)))
            check_lookalike(drv, sg, rng, base, path, rng.choice(LOOKALIKE_PLACES), rng.choice(list(UNSUPPORTED)), out, stats, f"lookalike-random-{i}")
        # (f) histories: dictionaries that have been parsed before, and shallow copies of them
        plan = [("edited", subject, kind) for subject in SUBJECTS for kind in POSITION_KINDS]
        plan += [(rng.choice(["edited", "edited", "removed"]), rng.choice(SUBJECTS), rng.choice(["root"] * 6 + POSITION_KINDS))
                 for _ in range(int((120 if quick else 6000) * scale))]
        for i, (hkind, subject, kind) in enumerate(plan):
            h = make_history(rng, sg, hkind, subject, kind)
            if h is None:
                stats["history-base-skipped"] = stats.get("history-base-skipped", 0) + 1
                continue
            check_history(h, out, stats, f"history-{i}")
        # (d) reference cycles
        check_cycles(rng, int((40 if ctx["tier"] == "quick" else 1500) * scale), out, stats)
    finally:
        drv.close()
    out.stats = stats
    # report the smallest failing input first
    out.failures.sort(key=lambda f: len(json.dumps(f.get("case"), default=str)))
    return out


def search(ctx, reason):
    sub = dict(ctx)
    sub["seed"] = ctx["seed"] + 15485863
    found = run(sub, scale=2.0 if ctx["tier"] == "quick" else 1.0)
    new = [f for f in found.failures if f.get("finding") is None]
    return new[0] if new else None


def _case_fails(case):
    if "history" in case:
        return history_fails(case["history"])[0]
    if case.get("expect") == "parses":
        fn = ROUTES[case.get("route", "parse")]
        if "twin" in case:
            return classify(fn, case["twin"]) == "ok" and classify(fn, case["schema"]) != "ok"
        return classify(fn, case["schema"]) == "notImplemented" and not uses_unsupported(case["schema"])
    if "document" in case:
        out, tmp = Outcome(), tempfile.mkdtemp(prefix="statham-c20-")
        try:
            path = os.path.join(tmp, "doc.json")
            with open(path, "w", encoding="utf8") as fh:
                json.dump(case["document"], fh)
            return run_main(path) != ("ok" if case.get("cycle", "").startswith("acyclic") else "notImplemented")
        finally:
            shutil.rmtree(tmp, ignore_errors=True)
    return classify(ROUTES[case.get("route", "parse")], case["schema"]) != "notImplemented"


def replay_finding(finding):
    return _case_fails(finding["witness"])


def replay(payload):
    case = payload.get("failure", {}).get("case")
    return True if not case else not _case_fails(case)
