"""C01 — validation verdicts match JSON Schema Draft 6.

Correspondence: real `parse_element` + calls vs. the Lean model (`parse_call`: element tree
and every result).  Direct oracle: the Draft-6 specification written in Lean (`spec` op),
independent of the library.  Failures are classified by the hypotheses of `C01_partial`
(evaluated by the driver).

The statement makes the verdict a function of (schema, value) alone, so the run is also an
operation history: every parse and call is logged (`History`), elements parsed earlier are
re-called and their schemas re-parsed after later, unrelated parses (`Watch.sweep`), and a
failure that does not reproduce on its own in a fresh process is reduced to the part of the
history it needs (`isolate`); the replayable case then carries that history."""
import json
import os
import random
import subprocess
import sys

from harness import core
from harness.framework import Outcome, jsonable, unjsonable
from harness.gen import DESCRIPTIONS, PROP_NAMES, TITLES, SchemaGen, ValueGen, families

ID = "C01"
TIE_MODULES = ["StathamModel.Tie"]
ASSUMPTIONS = [
    "regular expressions and format checkers are oracle tables computed by the running interpreter",
    "schemas are generated metaschema-valid by construction (the model's wf flag is checked per case)",
    "float multipleOf is compared model-vs-implementation only (outside the exact fragment of the specification)",
]
FLAG_FINDING = [
    ("intMultipleOf", "C01-float-multipleOf"),
    ("noSynthetic", "C01-synthetic-required"),
    ("noCollapse", "C01-name-collapse"),
    ("defaultFaithful", "C01-migrated-default"),
]
N_SCHEMAS = {"quick": 1500, "thorough": 40000}
N_VALUES = 8
N_TRIVIAL_ROUNDS = {"quick": 2, "thorough": 12}
SWEEP_EVERY = 80            # parses between two re-observations of the watched elements
MAX_ISOLATIONS = 2          # failures reduced to a self-contained case per run (the first ones)
PROBE_BUDGET = 48           # fresh-process probes spent on reducing one history
NP_MARK = {"$notpassed": 1}


def classify(flags):
    for flag, fid in FLAG_FINDING:
        if not flags.get(flag, True):
            return fid
    return None


def nontrivial(schema, value):
    if not isinstance(schema, dict):
        return False
    keys = [k for k in schema if k not in ("title", "description")]
    return len(keys) >= 2


# ----------------------------------------------------------------------------- operation history

class History:
    """Everything the library was asked to do in this process, in order: one entry per parse,
    with the values the parsed element was then called on."""

    def __init__(self):
        self.log = []
        self.isolations = 0

    def record(self, schema, values):
        self.log.append({"schema": schema, "values": [NP_MARK if isinstance(v, core.NotPassed) else v for v in values]})
        return len(self.log) - 1


def _bad(r, allowed):
    """is this outcome of a call a failure of the property (as `check_case` judges it)?"""
    if r == "typeError":
        return True
    if r in ("ok", "reject"):
        return (r == "ok") not in allowed
    return False


def run_history(case):
    """Do, in this process, what a case describes and return the outcomes of calling the case's
    schema on the case's value.  order "after": the history is parsed (and called) first, then the
    schema; order "before": the schema is parsed first, the history happens, and the element parsed
    before it is called (then the schema is parsed once more and that element is called too)."""
    schema, value = case["schema"], case["value"]
    obs = []
    old = None
    if case.get("order") == "before":
        status, old = core.real_parse(schema)
        if status != "ok":
            return None
        obs.append(("element before the history", core.real_call(old, value)["r"]))
    for entry in case.get("history") or []:
        status, el = core.real_parse(entry["schema"])
        if status == "ok":
            for v in entry.get("values") or []:
                core.real_call(el, core.NP if v == NP_MARK else v)
    if old is not None:
        obs.append(("element parsed before the history, called after it", core.real_call(old, value)["r"]))
    status, el = core.real_parse(schema)
    if status != "ok":
        return None
    obs.append(("element parsed after the history", core.real_call(el, value)["r"]))
    return obs


def _probe(case, allowed):
    """Run a case in a fresh interpreter.  True: the property fails there, False: it holds, None: the probe itself broke."""
    req = json.dumps(jsonable({"case": case}), ensure_ascii=True, default=str)
    try:
        p = subprocess.run([sys.executable, "-m", "harness.props.c01", "--probe"], input=req, stdout=subprocess.PIPE,
                           stderr=subprocess.DEVNULL, text=True, timeout=600, cwd=core.VERIF)
        lines = [l for l in p.stdout.splitlines() if l.startswith("{")]
        obs = json.loads(lines[-1])["obs"]
    except Exception:  # noqa: BLE001
        return None
    if obs is None:
        return None
    return any(_bad(r, allowed) for _label, r in obs)


def _ddmin(items, fails, budget):
    """Zeller's ddmin, bounded by a number of probes; returns a failing sublist."""
    n = 2
    while len(items) >= 2 and budget[0] > 0:
        size = -(-len(items) // n)
        chunks = [items[i:i + size] for i in range(0, len(items), size)]
        reduced = False
        for c in chunks:
            if budget[0] <= 0:
                break
            budget[0] -= 1
            if fails(c):
                items, n, reduced = c, 2, True
                break
        if not reduced and len(chunks) > 2:
            for i in range(len(chunks)):
                if budget[0] <= 0:
                    break
                rest = [x for j, c in enumerate(chunks) if j != i for x in c]
                budget[0] -= 1
                if fails(rest):
                    items, n, reduced = rest, max(n - 1, 2), True
                    break
        if not reduced:
            if n >= len(items):
                break
            n = min(len(items), 2 * n)
    return items


def isolate(hist, case, allowed, order, candidates, stats):
    """Make a failing (schema, value) self-contained.  If it fails on its own in a fresh process it is returned
    as it is; otherwise the part of this process's history it needs is searched for (fresh-process probes, ddmin)
    and attached.  Returns (case, remark)."""
    def bump(key):
        stats[key] = stats.get(key, 0) + 1
    if hist is None or hist.isolations >= MAX_ISOLATIONS:
        return case, None
    hist.isolations += 1
    alone = _probe({**case, "order": order}, allowed)
    if alone is None:
        bump("isolate-probe-broke")
        return case, "could not be re-run in a fresh process"
    if alone:
        bump("isolate-fails-alone")
        return case, None
    fails = lambda h: bool(_probe({**case, "history": h, "order": order}, allowed))
    base = None
    for cand in candidates:
        if cand and fails(cand):
            base = list(cand)
            break
    if base is None:
        bump("isolate-not-reproduced")
        return case, "seen in this run only: passes alone and after the same history in a fresh process"
    budget = [PROBE_BUDGET]
    base = _ddmin(base, fails, budget)
    bare = [{"schema": e["schema"], "values": []} for e in base]
    if budget[0] > 0 and fails(bare):
        base = bare
    bump("isolate-history-dependent")
    stats["isolate-history-length"] = len(base)
    return {**case, "history": base, "order": order}, f"depends on {len(base)} other parse(s) in the same process"


def features(schema, out, pos="root"):
    """What a schema exercises: its keywords, boolean / empty subschemas per position, and the places where the
    parser has to supply an element the document does not spell out."""
    if isinstance(schema, bool) or schema == {}:
        out.add(f"{json.dumps(schema)}@{pos}")
        return out
    if not isinstance(schema, dict):
        return out
    for k, v in schema.items():
        out.add(k)
        if k in ("properties", "patternProperties", "dependencies") and isinstance(v, dict):
            for sub in v.values():
                if not isinstance(sub, list):
                    features(sub, out, k)
        elif k in ("items", "anyOf", "oneOf", "allOf") and isinstance(v, list):
            for sub in v:
                features(sub, out, k)
        elif k in ("items", "additionalItems", "additionalProperties", "contains", "propertyNames", "not"):
            features(v, out, k)
    props = schema.get("properties") if isinstance(schema.get("properties"), dict) else {}
    if any(n not in props for n in schema.get("required") or []):
        out.add("required-undeclared")
    types = schema.get("type")
    types = types if isinstance(types, list) else [types]
    if "array" in types and "items" not in schema:
        out.add("items-absent")
    if isinstance(types[0], str) and len(types) > 1:
        out.add("type-list")
    return out


class Watch:
    """Elements parsed earlier in the run (a few per feature), re-observed after later parses: the element
    itself is called again on values whose verdict was within the property when it was fresh, and its schema
    is parsed again.  A verdict outside the property now is a failure whose case carries the history."""

    PER_FEATURE = 1
    VALUES = 3

    def __init__(self, rng, hist):
        self.rng = rng
        self.hist = hist
        self.by_feature = {}
        self.last_sweep = 0
        self.reported = 0
        self.turn = 0

    def offer(self, schema, el, idx, checked):
        """checked: [(value, allowed, first outcome)] - all within the property, model and implementation agreeing"""
        if not checked:
            return
        r = self.rng
        acc = [c for c in checked if c[2] == "ok"]
        rej = [c for c in checked if c[2] == "reject"]
        vals = ([r.choice(acc)] if acc else []) + ([r.choice(rej)] if rej else [])
        rest = [c for c in checked if all(c is not v for v in vals)]
        vals += r.sample(rest, min(len(rest), self.VALUES - len(vals)))
        entry = {"schema": schema, "el": el, "idx": idx, "vals": vals}
        for f in sorted(features(schema, set())):
            slot = self.by_feature.setdefault(f, [])
            if len(slot) < self.PER_FEATURE:
                slot.append(entry)
            elif r.random() < 0.08:
                slot[r.randrange(len(slot))] = entry

    def entries(self):
        seen, out = set(), []
        for f in sorted(self.by_feature):
            for e in self.by_feature[f]:
                if id(e) not in seen and not e.get("dropped"):
                    seen.add(id(e))
                    out.append(e)
        return out

    def due(self):
        return len(self.hist.log) - self.last_sweep >= SWEEP_EVERY

    def sweep(self, out, stats):
        hist = self.hist
        now = len(hist.log)
        self.turn += 1
        entries = self.entries()
        stats["history-sweeps"] = stats.get("history-sweeps", 0) + 1
        stats["history-watched-elements"] = max(stats.get("history-watched-elements", 0), len(entries))
        for n, e in enumerate(entries):
            if self.reported >= 5:
                break
            reparsed = None
            if (n + self.turn) % 4 == 0:
                status, reparsed = core.real_parse(e["schema"])
                if status != "ok":
                    # whether a schema parses is C10's concern; here it only ends the watch on this element
                    stats["history-reparse-" + status] = stats.get("history-reparse-" + status, 0) + 1
                    e["dropped"] = True
                    continue
                stats["history-reparses"] = stats.get("history-reparses", 0) + 1
            for value, allowed, first in e["vals"]:
                for order, el in (("before", e["el"]), ("after", reparsed)):
                    if el is None:
                        continue
                    real = core.real_call(el, value)
                    stats["history-recalls"] = stats.get("history-recalls", 0) + 1
                    if not _bad(real["r"], allowed):
                        continue
                    since = hist.log[max(e["idx"] + 1, self.last_sweep):now]
                    if order == "before":
                        cands = [since, hist.log[e["idx"] + 1:now]]
                    else:
                        cands = [since, hist.log[:now]]
                    case, remark = isolate(hist, {"schema": e["schema"], "value": value}, allowed, order, cands, stats)
                    which = "the element parsed earlier, called again" if order == "before" else "the same schema parsed again"
                    out.failures.append({"case": case, "finding": None,
                                         "what": f"verdict was {first} when the schema was first parsed; after {now - e['idx'] - 1} later parses "
                                                 f"{which} gives {real['r']}, Draft 6 allows {sorted(allowed)}" + (f" ({remark})" if remark else "")})
                    stats["history-verdict-changed"] = stats.get("history-verdict-changed", 0) + 1
                    self.reported += 1
                    e["dropped"] = True
                    break
                if e.get("dropped"):
                    break
        self.last_sweep = len(hist.log)


def check_case(drv, schema, values, out, stats, want_tree=True, hist=None, watch=None):
    """Run one schema against the model and the spec; append disagreements / failures."""
    try:
        tables = core.schema_tables(schema, values)
        enc_schema = core.enc_val(schema)
        enc_args = [core.enc_arg(v) for v in values]
    except (TypeError, ValueError):
        stats["unencodable"] = stats.get("unencodable", 0) + 1
        return
    idx = hist.record(schema, values) if hist is not None else None
    status, el = core.real_parse(schema)
    rep = drv.ask({"op": "parse_call", "schema": enc_schema, "args": enc_args, "tables": tables})
    case0 = {"schema": schema}
    if "error" in rep:
        stats["driver-decode-error"] = stats.get("driver-decode-error", 0) + 1
        out.notes.append("driver could not decode: " + rep["error"][:200]) if len(out.notes) < 5 else None
        return
    if status != "ok":
        stats["parse-" + status] = stats.get("parse-" + status, 0) + 1
        if rep["parse"] != "err":
            out.disagreements.append({"what": "parse outcome", "impl": status, "model": rep["parse"], **case0})
        # a generated (metaschema-valid) schema must parse or raise a schema-parse error: C10's concern
        return
    if rep["parse"] != "ok":
        out.disagreements.append({"what": "parse outcome", "impl": "ok", "model": rep.get("kind"), **case0})
        return
    out.traces_validated += 1
    tree_ok = True
    if want_tree:
        tree = core.dump_elem(el)
        if tree != rep["elem"]:
            out.disagreements.append({"what": "element tree", "impl": tree, "model": rep["elem"], **case0})
            tree_ok = False
    spec = drv.ask({"op": "spec", "schema": enc_schema, "args": enc_args, "tables": tables})
    if "error" in spec:
        out.notes.append("spec op failed: " + spec["error"][:200])
        return
    flags = spec["flags"]
    good = all(flags.values())
    stats["good-schemas" if good else "schemas-outside-hypotheses"] = stats.get("good-schemas" if good else "schemas-outside-hypotheses", 0) + 1
    checked = []
    clean = tree_ok
    before = lambda: [hist.log[:idx]] if hist is not None else []
    for i, v in enumerate(values):
        real = core.real_call(el, v)
        model = rep["results"][i]
        case = {"schema": schema, "value": v}
        out.note_case({"schema": schema, "value": v}, nontrivial(schema, v))
        stats["verdict-" + real["r"]] = stats.get("verdict-" + real["r"], 0) + 1
        agree = tree_ok
        if model["r"] == "crash":
            stats["model-outside-arithmetic-domain"] = stats.get("model-outside-arithmetic-domain", 0) + 1
        elif real != model:
            agree = False
            if tree_ok:
                out.disagreements.append({"what": "call result", "impl": real, "model": model, **case})
        if isinstance(v, core.NotPassed):
            continue
        if real["r"] not in ("ok", "reject"):
            if real["r"] == "typeError":
                case, remark = isolate(hist, case, {True, False}, "after", before(), stats)
                out.failures.append({"case": case, "what": "TypeError instead of ValidationError: " + real.get("msg", "") + (f" ({remark})" if remark else ""),
                                     "finding": None})
            clean = False
            continue
        if not spec["distinct_keys"][i]:
            continue
        got = real["r"] == "ok"
        allowed = {spec["impl_leniency"][i], spec["strict"][i], spec["lenient"][i]}
        if got not in allowed:
            # known only if the model predicts the implementation here AND a listed hypothesis is violated
            fid = classify(flags) if agree else None
            remark = None
            if fid is None:
                # is the pair enough, or does the failure need what was parsed before it in this process?
                case, remark = isolate(hist, case, allowed, "after", before(), stats)
            out.failures.append({"case": case, "what": f"implementation {'accepts' if got else 'rejects'}, Draft 6 says {'valid' if spec['strict'][i] else 'invalid'}"
                                                       + (f" ({remark})" if remark else ""),
                                 "finding": fid, "flags": flags})
            stats["oracle-fail-" + str(fid)] = stats.get("oracle-fail-" + str(fid), 0) + 1
            clean = False
        elif agree:
            checked.append((v, allowed, real["r"]))
        else:
            clean = False
    if watch is not None:
        if clean:
            watch.offer(schema, el, idx, checked)
        if watch.due():
            watch.sweep(out, stats)


def kw_hist(schema, hist):
    if isinstance(schema, dict):
        for k, v in schema.items():
            hist[k] = hist.get(k, 0) + 1
            if k in ("properties", "patternProperties", "dependencies"):
                if isinstance(v, dict):
                    for s in v.values():
                        kw_hist(s, hist)
            elif k in ("items", "anyOf", "oneOf", "allOf") and isinstance(v, list):
                for s in v:
                    kw_hist(s, hist)
            elif k in ("items", "additionalItems", "additionalProperties", "contains", "propertyNames", "not"):
                kw_hist(v, hist)


# ----------------------------------------------------------------------------- annotated trivial compositions

def trivial_schema(rng, sg, depth=2, annotate=0.7):
    """A schema that constrains nothing, spelled the long way: composition keywords whose branches are all
    trivial (`true`, `{}`, or again such a composition), carrying only annotations (default / title / description)."""
    if depth <= 0 or rng.random() < 0.2:
        s = rng.choice([True, {}, {}])
        if s is True or rng.random() > annotate:
            return s
        s = {}
    else:
        s = {}
        for key in rng.sample(["allOf", "anyOf", "oneOf", "not"], rng.choice([1, 1, 1, 2])):
            if key == "not":
                s[key] = False
            else:
                n = 1 if key == "oneOf" else rng.choice([1, 1, 2])
                s[key] = [trivial_schema(rng, sg, depth - 1, annotate * 0.4) for _ in range(n)]
    if rng.random() < annotate:
        s["default"] = sg.json_value(1)
    if rng.random() < 0.25:
        s["description"] = rng.choice(DESCRIPTIONS)
    if rng.random() < 0.15:
        s["title"] = rng.choice(TITLES)
    return s


def implicit_siblings(rng, sg):
    """Schemas whose parse contains elements the document does not spell out or spells as `true` / `{}`:
    undeclared required names, `true` properties, absent `items`, single trivial branches - next to the
    documented deviation (a declared default) and to an arbitrary generated schema."""
    n, m = rng.sample(PROP_NAMES, 2)
    title = rng.choice(TITLES)
    return [
        {"type": "object", "title": title, "required": [n]},
        {"type": "object", "title": title, "properties": {n: True, m: {"type": "array"}}, "required": [n]},
        {"type": "object", "title": title, "properties": {n: {}}, "required": [n, m]},
        {"required": [n]},
        {"properties": {n: True}, "required": [n], "additionalProperties": rng.choice([True, {}, {"type": "integer"}])},
        {"type": "object", "title": title, "properties": {n: {"default": sg.json_value(1)}, m: {"anyOf": [True]}}, "required": [n, m]},
        {"type": "array", "minItems": 1},
        {"items": [True, {"required": [n]}], "additionalItems": rng.choice([True, False])},
        {"type": ["array", "object"], "title": title, "required": [n], "contains": True},
        {"dependencies": {n: True, m: [n]}, "required": [m]},
        {"oneOf": [True, {"required": [n]}]},
        sg.schema(depth=2),
        sg.schema(depth=2),
    ]


def trivial_hosts(rng, sg, t, s):
    """(position, document, wrap): documents holding the annotated trivial schema `t` in one schema position and the
    sibling `s` in another; `wrap` turns a value aimed at `s` into a value of the document that reaches it."""
    p, q = rng.sample(PROP_NAMES, 2)
    title = rng.choice(["Doc", "Host", "Thing"])
    any_json = lambda: sg.json_value(1)
    return [
        ("properties", {"type": "object", "title": title, "properties": {p: s, q: t}}, lambda x: {p: x, q: any_json()}),
        ("properties-untyped", {"properties": {q: t, p: s}}, lambda x: {p: x}),
        ("required-property", {"type": "object", "title": title, "properties": {p: s, q: t}, "required": [q]}, lambda x: {p: x}),
        ("additionalProperties", {"properties": {p: s}, "additionalProperties": t}, lambda x: {p: x, "zz": any_json()}),
        ("patternProperties", {"properties": {p: s}, "patternProperties": {"^zz": t}}, lambda x: {p: x, "zz1": any_json()}),
        ("dependencies", {"properties": {p: s}, "dependencies": {p: t}}, lambda x: {p: x}),
        ("propertyNames", {"type": "object", "title": title, "properties": {p: s}, "propertyNames": t}, lambda x: {p: x}),
        ("items", {"type": "array", "items": [s, t]}, lambda x: [x, any_json()]),
        ("items-single", {"items": s, "contains": t}, lambda x: [x]),
        ("additionalItems", {"items": [s], "additionalItems": t}, lambda x: [x, any_json()]),
        ("allOf", {"allOf": [t, s]}, lambda x: x),
        ("anyOf+allOf", {"anyOf": [t], "allOf": [s]}, lambda x: x),
        ("oneOf", {"oneOf": [s], "anyOf": [t, {"type": "null"}]}, lambda x: x),
        ("sibling-keywords", {**s, "allOf": [t]} if isinstance(s, dict) and "allOf" not in s else {"allOf": [s, t]}, lambda x: x),
    ]


def trivial_family(rng, sg, vg, stats):
    """Annotated trivial compositions x every schema position x siblings with implicit elements.  Each annotated
    schema is also given to the parser on its own, between two parses of the sibling (an operation history of
    unrelated documents)."""
    fam = stats.setdefault("trivial-composition-family", {"schemas": 0, "positions": {}, "annotated-with-default": 0, "standalone": 0})
    for s in implicit_siblings(rng, sg):
        t = trivial_schema(rng, sg)
        while not isinstance(t, dict) or not ({"allOf", "anyOf", "oneOf", "not"} & set(t)):
            t = trivial_schema(rng, sg)
        if "default" in t:
            fam["annotated-with-default"] += 1
        aimed = vg.values(s, 4) + [{}, [], rng.choice([None, 0, "a", [{}]])]
        hosts = trivial_hosts(rng, sg, t, s)
        yield s, aimed
        fam["standalone"] += 1
        yield t, [sg.json_value(2) for _ in range(3)]
        yield s, aimed
        for pos, doc, wrap in rng.sample(hosts, 5):
            sg.ensure_title(doc)
            fam["schemas"] += 1
            fam["positions"][pos] = fam["positions"].get(pos, 0) + 1
            yield doc, [wrap(x) for x in aimed] + vg.values(doc, 1)


# ----------------------------------------------------------------------------- numeric keywords far from the origin

QUOTIENT_BITS = [(3, 12), (13, 26), (27, 34), (35, 44), (45, 52), (53, 64)]


def _divisor(rng):
    """(kind, divisor): the three ways a `multipleOf` can be spelled - an integer, a float that is a dyadic rational
    (every product below is then exact, so its verdict is no rounding matter), and a decimal fraction"""
    kind = rng.choice(["int", "int-power-of-two", "float-dyadic", "float-dyadic", "float-integral", "float-decimal"])
    if kind == "int":
        return kind, rng.choice([1, 2, 3, 5, 7, 10, 12, 1000])
    if kind == "int-power-of-two":
        return kind, 2 ** rng.randint(1, 20)
    if kind == "float-dyadic":
        return kind, rng.choice([1, 3, 5]) * 2.0 ** -rng.randint(1, 4)
    if kind == "float-integral":
        return kind, float(rng.choice([1, 2, 3, 4, 10, 2 ** rng.randint(3, 12)]))
    return kind, rng.choice([0.1, 0.01, 2.2, 1e-3, 0.3])


def _numeric_hosts(rng, sub):
    """the numeric schema `sub` on its own and seen through other keywords; wrap turns a number into a value reaching it"""
    p = rng.choice(["a", "b", "n"])
    return [
        ("bare", sub, lambda x: x),
        ("typed-number", {"type": "number", **sub}, lambda x: x),
        ("typed-integer", {"type": "integer", **sub}, lambda x: x),
        ("not", {"not": sub}, lambda x: x),
        ("tuple-item", {"items": [{"type": "string"}, sub]}, lambda x: ["x", x]),
        ("property", {"properties": {p: sub}}, lambda x: {p: x}),
        ("oneOf", {"oneOf": [sub, {"type": "string"}]}, lambda x: x),
        ("anyOf-sibling", {"type": "number", "anyOf": [sub, {"type": "null"}]}, lambda x: x),
        ("additionalProperties", {"additionalProperties": sub}, lambda x: {p: x}),
    ]


def magnitude_family(rng, stats):
    """Numeric keywords x values at every order of magnitude.  The statement quantifies over all JSON numbers, and
    `multipleOf` / the four bounds are decided by arithmetic whose behaviour depends on the size of the operands
    (quotients, int <-> float conversions), so each divisor is met by multiples and by non-multiples (off by a half,
    a quarter, three quarters of the divisor, by one) whose quotient has 3 .. 64 bits, in both signs and in both
    spellings (int / float); each bound by its neighbours at the same magnitudes."""
    fam = stats.setdefault("magnitude-family", {"schemas": 0, "values": 0, "divisor-kinds": {}, "quotient-bits": {},
                                                "offsets": {}, "hosts": {}, "bound-keywords": {}})
    def count(table, key):
        fam[table][key] = fam[table].get(key, 0) + 1
    for _ in range(10):
        kind, m = _divisor(rng)
        count("divisor-kinds", kind)
        nums = []
        for lo, hi in QUOTIENT_BITS:
            q = rng.getrandbits(rng.randint(lo, hi)) | (1 << (lo - 1))
            if rng.random() < 0.25:
                q = -q
            count("quotient-bits", f"{lo}-{hi}")
            base = m * q
            offsets = [("multiple", 0), ("half", m / 2), ("quarter", m / 4), ("three-quarters", 3 * m / 4)]
            if isinstance(m, int):
                offsets += [("plus-one", 1), ("plus-half", 0.5)]
                offsets = [(n, int(o) if o == int(o) else o) for n, o in offsets]
            for name, off in rng.sample(offsets, 3):
                try:
                    x = base + off
                except OverflowError:
                    continue
                count("offsets", name)
                nums.append(x)
                if isinstance(x, int) and abs(x) < 2 ** 53 and rng.random() < 0.3:
                    nums.append(float(x))
                elif isinstance(x, float) and x == int(x) and rng.random() < 0.3:
                    nums.append(int(x))
        sub = {"multipleOf": m}
        for pos, doc, wrap in rng.sample(_numeric_hosts(rng, sub), 3):
            count("hosts", pos)
            fam["schemas"] += 1
            fam["values"] += len(nums)
            yield doc, [wrap(x) for x in nums]
    for _ in range(6):
        kw = rng.choice(["minimum", "maximum", "exclusiveMinimum", "exclusiveMaximum"])
        count("bound-keywords", kw)
        lo, hi = rng.choice(QUOTIENT_BITS)
        b = rng.getrandbits(rng.randint(lo, hi)) | (1 << (lo - 1))
        b = rng.choice([b, -b, b + 0.5 if b < 2 ** 51 else float(b), float(b) if b < 2 ** 53 else b])
        nums = []
        for d in (-1, 0, 1, -0.5, 0.5):
            x = b + d if not (isinstance(b, int) and isinstance(d, float) and abs(b) >= 2 ** 52) else b
            nums.append(x)
            if isinstance(x, int) and abs(x) < 2 ** 53:
                nums.append(float(x))
            elif isinstance(x, float) and x == int(x):
                nums.append(int(x))
        sub = {kw: b}
        for pos, doc, wrap in rng.sample(_numeric_hosts(rng, sub), 2):
            count("hosts", pos)
            fam["schemas"] += 1
            fam["values"] += len(nums)
            yield doc, [wrap(x) for x in nums]


# ----------------------------------------------------------------------------- every kind of element in every schema position

def element_kinds(rng, sg):
    """(kind, schema): one sub-schema for each way the parser builds an element - boolean and empty schemas, untyped
    keyword carriers, each typed element, arrays, model classes (with / without declared properties, with required
    names, constrained only through the other object keywords), type lists, the four compositions alone and next
    to sibling keywords, literals, annotation-only schemas."""
    n, m = rng.sample(["a", "b", "c", "d", "id"], 2)
    title = lambda: rng.choice(["Extra", "Inner", "Sub", "Leaf"])
    scalar = rng.choice([{"type": "string", "minLength": 1}, {"type": "integer", "minimum": 1}, {"type": "number", "maximum": 2.5},
                         {"type": "boolean"}, {"type": "null"}])
    object_only = rng.choice([
        {"minProperties": 1}, {"maxProperties": 1}, {"additionalProperties": {"type": "integer"}},
        {"patternProperties": {"^x": {"type": "integer"}}, "additionalProperties": False}, {"propertyNames": {"maxLength": 2}},
        {"dependencies": {n: [m]}}, {"additionalProperties": False}, {"minProperties": 1, "additionalProperties": {"type": "string"}}])
    return [
        ("true", True), ("false", False), ("empty", {}),
        ("annotation-only", rng.choice([{"description": "d"}, {"title": "T"}, {"default": sg.json_value(1)}])),
        ("untyped-keywords", rng.choice([{"minProperties": 1}, {"minimum": 2}, {"maxLength": 1}, {"minItems": 1}, {"required": [n]}])),
        ("typed-scalar", scalar),
        ("typed-array", {"type": "array", "items": rng.choice([{"type": "integer"}, True, {}])}),
        ("typed-array-tuple", {"type": "array", "items": [{"type": "integer"}], "additionalItems": rng.choice([False, {"type": "string"}])}),
        ("object-bare", {"type": "object", "title": title()}),
        ("object-without-properties", {"type": "object", "title": title(), **object_only}),
        ("object-empty-properties", {"type": "object", "title": title(), "properties": {}}),
        ("object-properties", {"type": "object", "title": title(), "properties": {n: {"type": "integer"}}}),
        ("object-required-declared", {"type": "object", "title": title(), "properties": {n: {"type": "integer"}, m: {}}, "required": [n]}),
        ("object-required-undeclared", {"type": "object", "title": title(), "required": [n]}),
        ("type-list", {"type": rng.sample(["integer", "string", "null", "boolean", "array"], 2)}),
        ("type-list-with-object", {"type": ["object", rng.choice(["null", "array", "string"])], "title": title()}),
        ("anyOf", {"anyOf": [{"type": "integer"}, {"type": "object", "title": title()}]}),
        ("oneOf", {"oneOf": [{"type": "integer"}, {"minimum": 2}]}),
        ("allOf", {"allOf": [{"type": "integer"}, {"minimum": 2}]}),
        ("not", {"not": rng.choice([{"type": "integer"}, {"type": "object", "title": title()}, False, {}])}),
        ("composition-with-siblings", {"type": "object", "title": title(), "anyOf": [{"required": [n]}, {"maxProperties": 0}]}),
        ("const", {"const": rng.choice([1, {}, [], None, {n: 1}])}),
        ("enum", {"enum": [1, "s", {}, [0]]}),
    ]


def position_hosts(rng, k):
    """(position, document, wrap): documents holding the sub-schema `k` in one schema position each, in the typed and the
    untyped spelling of the host; `wrap` turns a value aimed at `k` into values of the document that reach the position."""
    p, q = rng.sample(["p", "q", "r", "s"], 2)
    host = rng.choice(["Doc", "Host", "Outer"])
    typed = lambda t, doc: ({"type": t, **({"title": host} if t == "object" else {}), **doc} if rng.random() < 0.5 else doc)
    name = lambda x: x if isinstance(x, str) else json.dumps(x, sort_keys=True, default=str)[:6]
    tuple_len = rng.choice([1, 1, 2, 3])      # the metaschema wants at least one schema in a tuple
    head = [{"type": "integer"}] * tuple_len
    return [
        ("properties", typed("object", {"properties": {p: k}}), lambda x: [{p: x}, {q: x}]),
        ("required-property", typed("object", {"properties": {p: k}, "required": [p]}), lambda x: [{p: x}, {p: x, q: x}]),
        ("patternProperties", typed("object", {"patternProperties": {"^z": k}}), lambda x: [{"z1": x}, {"z1": x, "y": x}]),
        ("additionalProperties", typed("object", {"properties": {p: {}}, "additionalProperties": k}), lambda x: [{p: 1, q: x}, {q: x, "zz": x}]),
        ("additionalProperties+patternProperties", typed("object", {"patternProperties": {"^z": {}}, "additionalProperties": k}),
         lambda x: [{"z1": 1, q: x}]),
        ("dependencies", typed("object", {"dependencies": {p: k}}), lambda x: [{**x, p: 0} if isinstance(x, dict) else x, x]),
        ("propertyNames", typed("object", {"propertyNames": k}), lambda x: [{name(x): 1}, {name(x): x, "k": 0}]),
        ("items", typed("array", {"items": k}), lambda x: [[x], [x, x]]),
        ("items-tuple", typed("array", {"items": [{"type": "integer"}, k]}), lambda x: [[1, x], [1, x, x]]),
        ("additionalItems", typed("array", {"items": head, "additionalItems": k}),
         lambda x: [list(range(tuple_len)) + [x], list(range(tuple_len)) + [x, x], list(range(tuple_len))]),
        ("contains", typed("array", {"contains": k}), lambda x: [[x], [0, x], [x, "s", None]]),
        ("anyOf", {"anyOf": [k, {"type": "null"}]}, lambda x: [x]),
        ("oneOf", {"oneOf": [k, {"type": "null"}]}, lambda x: [x]),
        ("allOf", {"allOf": [k, {}]}, lambda x: [x]),
        ("not", {"not": k}, lambda x: [x]),
        ("nested", {"not": {"items": head, "additionalItems": {"properties": {p: k}}}}, lambda x: [list(range(tuple_len)) + [{p: x}]]),
    ]


def position_family(rng, sg, vg, stats):
    """Element kinds x schema positions: the statement holds for arbitrary nesting, i.e. whatever element the parser builds
    for a sub-schema (a plain element, a typed one, a model class, a composition, `Nothing`) must behave as that
    sub-schema wherever it is held.  Each kind is placed in every position and met there by values it accepts and
    values it rejects (aimed at the sub-schema, plus one of every JSON type)."""
    fam = stats.setdefault("position-family", {"schemas": 0, "values": 0, "kinds": {}, "positions": {}, "cells": 0})
    cells = set()
    for kind, k in element_kinds(rng, sg):
        aimed = (vg.values(k, 4) if isinstance(k, dict) else []) + [{}, {"k": None}, {"x1": 1}, [], 0, 3, "s", None, True, [{}]]
        for pos, doc, wrap in position_hosts(rng, k):
            values = [v for x in aimed for v in wrap(x)]
            seen, uniq = set(), []
            for v in values:
                key = json.dumps(jsonable(v), sort_keys=True, default=str) + str(type(v))
                if key not in seen:
                    seen.add(key)
                    uniq.append(v)
            fam["schemas"] += 1
            fam["values"] += len(uniq)
            fam["kinds"][kind] = fam["kinds"].get(kind, 0) + 1
            fam["positions"][pos] = fam["positions"].get(pos, 0) + 1
            cells.add((kind, pos))
            yield doc, uniq
    fam["cells"] += len(cells)


def run(ctx, scale=1.0):
    rng = random.Random(ctx["seed"])
    out = Outcome()
    out.rule = ("schemas from the grammar-directed generator (harness/gen.py), 8 schema-directed or free values each; "
                "a case is a (schema, value) pair; non-trivial = the schema object has >= 2 keywords besides title/description; "
                "distinct = by SHA-256 of the canonical JSON of the pair; every parse is also one step of the process history "
                "against which earlier elements are re-observed; two matrix families close the run: numeric keywords x operands of "
                "3 .. 64 bits (magnitude-family) and element kinds x schema positions (position-family)")
    stats = {}
    hist = {}
    drv = core.Driver()
    history = History()
    watch = Watch(rng, history)
    try:
        for case in corpus_cases():
            check_case(drv, case["schema"], case["values"], out, stats, hist=history, watch=watch)
        for schema, values in families(rng):
            kw_hist(schema, hist)
            check_case(drv, schema, list(values) + [core.NP], out, stats, hist=history, watch=watch)
        stats["family-cases"] = out.evaluations
        sg, vg = SchemaGen(rng), ValueGen(rng)
        for _ in range(N_TRIVIAL_ROUNDS[ctx["tier"]]):
            for schema, values in trivial_family(rng, sg, vg, stats):
                kw_hist(schema, hist)
                check_case(drv, schema, list(values) + [core.NP], out, stats, hist=history, watch=watch)
        stats["trivial-composition-family"]["cases"] = out.evaluations - stats["family-cases"]
        n = int(N_SCHEMAS[ctx["tier"]] * scale)
        for i in range(n):
            extreme = (i % 10 == 9)
            sg.extreme = vg.extreme = vg.free.extreme = extreme
            schema = sg.schema()
            kw_hist(schema, hist)
            values = vg.values(schema, N_VALUES) + [core.NP]
            check_case(drv, schema, values, out, stats, hist=history, watch=watch)
        # the two matrix families come last, so that the random stream of the families above is what it always was
        sg.extreme = vg.extreme = vg.free.extreme = False
        before = out.evaluations
        for schema, values in magnitude_family(rng, stats):
            kw_hist(schema, hist)
            check_case(drv, schema, list(values) + [core.NP], out, stats, hist=history, watch=watch)
        stats["magnitude-family"]["cases"] = out.evaluations - before
        before = out.evaluations
        for schema, values in position_family(rng, sg, vg, stats):
            kw_hist(schema, hist)
            check_case(drv, schema, list(values) + [core.NP], out, stats, hist=history, watch=watch)
        stats["position-family"]["cases"] = out.evaluations - before
        watch.sweep(out, stats)
    finally:
        drv.close()
    stats["history-parses"] = len(history.log)
    stats["history-watched-features"] = sorted(watch.by_feature)
    stats["keyword-histogram"] = dict(sorted(hist.items(), key=lambda kv: -kv[1]))
    out.stats = stats
    return out


def corpus_cases():
    import glob
    import os
    for path in sorted(glob.glob(os.path.join(os.path.dirname(__file__), "..", "..", "corpus", "C01", "*.json"))):
        with open(path, encoding="utf8") as fh:
            doc = json.load(fh)
        yield {"schema": doc["schema"], "values": doc.get("values", [doc.get("value")])}


def search(ctx, reason):
    """A proof obligation or the correspondence broke: look for an input on which the
    implementation's verdict departs from the Draft-6 specification."""
    sub = dict(ctx)
    sub["seed"] = ctx["seed"] + 7919
    found = run(sub, scale=4.0 if ctx["tier"] == "quick" else 1.0)
    fresh = [f for f in found.failures if f.get("finding") is None]
    if fresh:
        return fresh[0]
    # disagreeing cases themselves: does the property fail on them irrespective of the known regions?
    for f in found.failures:
        return f
    return None


def _verdicts(schema, value):
    drv = core.Driver()
    try:
        status, el = core.real_parse(schema)
        if status != "ok":
            return None, None
        real = core.real_call(el, value)
        spec = drv.ask({"op": "spec", "schema": core.enc_val(schema), "args": [core.enc_arg(value)],
                        "tables": core.schema_tables(schema, [value])})
        return real, spec
    finally:
        drv.close()


def _decimal_multiple(x, m):
    from decimal import Decimal
    return Decimal(repr(x)) % Decimal(repr(m)) == 0


def replay_finding(finding):
    w = finding["witness"]
    if finding.get("oracle") == "decimal-multipleOf":
        status, el = core.real_parse(w["schema"])
        real = core.real_call(el, w["value"])
        return (real["r"] == "ok") != _decimal_multiple(w["value"], w["schema"]["multipleOf"])
    real, spec = _verdicts(w["schema"], w["value"])
    if real is None or real["r"] not in ("ok", "reject"):
        return real is not None
    got = real["r"] == "ok"
    return got not in {spec["impl_leniency"][0], spec["strict"][0], spec["lenient"][0]}


def replay(payload):
    case = payload.get("failure", {}).get("case")
    if not case:
        return True
    if not (case.get("history") or case.get("order") == "before"):
        real, spec = _verdicts(case["schema"], case["value"])
        if real is None:
            return True
        if real["r"] not in ("ok", "reject"):
            return False
        got = real["r"] == "ok"
        return got in {spec["impl_leniency"][0], spec["strict"][0], spec["lenient"][0]}
    # a case with a history: this process has parsed nothing yet, so redo the history in its order and
    # judge every verdict of the case's (schema, value) by the specification
    obs = run_history(case)
    if obs is None:
        return True
    drv = core.Driver()
    try:
        spec = drv.ask({"op": "spec", "schema": core.enc_val(case["schema"]), "args": [core.enc_arg(case["value"])],
                        "tables": core.schema_tables(case["schema"], [case["value"]])})
    finally:
        drv.close()
    allowed = {spec["impl_leniency"][0], spec["strict"][0], spec["lenient"][0]}
    for label, r in obs:
        if r not in ("ok", "reject") or (r == "ok") not in allowed:
            log_line = f"replay: {label}: {r}; Draft 6 allows accepts={sorted(allowed)}"
            print(log_line, file=sys.stderr)
            return False
    return True


def _probe_main():
    req = unjsonable(json.loads(sys.stdin.read()))
    obs = run_history(req["case"])
    print(json.dumps({"obs": obs}))


if __name__ == "__main__":
    if "--probe" in sys.argv:
        _probe_main()
