"""C01 — validation verdicts match JSON Schema Draft 6.

Correspondence: real `parse_element` + calls vs. the Lean model (`parse_call`: element tree
and every result).  Direct oracle: the Draft-6 specification written in Lean (`spec` op),
independent of the library.  Failures are classified by the hypotheses of `C01_partial`
(evaluated by the driver)."""
import json
import random

from harness import core
from harness.framework import Outcome
from harness.gen import SchemaGen, ValueGen, families

ID = "C01"
TIE_MODULES = ["StathamModel.Tie"]
ASSUMPTIONS = [
    "regular expressions and format checkers are oracle tables computed by the running interpreter",
    "schemas are generated metaschema-valid by construction (the model's wf flag is checked per case)",
    "float multipleOf is compared model-vs-implementation only (outside the exact fragment of the specification)",
]
FLAG_FINDING = [
    ("intMultipleOf", "C01-float-multipleOf"),
    ("noSynthetic", "C01-synthetic-required"),
    ("noCollapse", "C01-name-collapse"),
    ("defaultFaithful", "C01-migrated-default"),
]
N_SCHEMAS = {"quick": 1500, "thorough": 40000}
N_VALUES = 8


def classify(flags):
    for flag, fid in FLAG_FINDING:
        if not flags.get(flag, True):
            return fid
    return None


def nontrivial(schema, value):
    if not isinstance(schema, dict):
        return False
    keys = [k for k in schema if k not in ("title", "description")]
    return len(keys) >= 2


def check_case(drv, schema, values, out, stats, want_tree=True):
    """Run one schema against the model and the spec; append disagreements / failures."""
    try:
        tables = core.schema_tables(schema, values)
        enc_schema = core.enc_val(schema)
        enc_args = [core.enc_arg(v) for v in values]
    except (TypeError, ValueError):
        stats["unencodable"] = stats.get("unencodable", 0) + 1
        return
    status, el = core.real_parse(schema)
    rep = drv.ask({"op": "parse_call", "schema": enc_schema, "args": enc_args, "tables": tables})
    case0 = {"schema": schema}
    if "error" in rep:
        stats["driver-decode-error"] = stats.get("driver-decode-error", 0) + 1
        out.notes.append("driver could not decode: " + rep["error"][:200]) if len(out.notes) < 5 else None
        return
    if status != "ok":
        stats["parse-" + status] = stats.get("parse-" + status, 0) + 1
        if rep["parse"] != "err":
            out.disagreements.append({"what": "parse outcome", "impl": status, "model": rep["parse"], **case0})
        # a generated (metaschema-valid) schema must parse or raise a schema-parse error: C10's concern
        return
    if rep["parse"] != "ok":
        out.disagreements.append({"what": "parse outcome", "impl": "ok", "model": rep.get("kind"), **case0})
        return
    out.traces_validated += 1
    tree_ok = True
    if want_tree:
        tree = core.dump_elem(el)
        if tree != rep["elem"]:
            out.disagreements.append({"what": "element tree", "impl": tree, "model": rep["elem"], **case0})
            tree_ok = False
    spec = drv.ask({"op": "spec", "schema": enc_schema, "args": enc_args, "tables": tables})
    if "error" in spec:
        out.notes.append("spec op failed: " + spec["error"][:200])
        return
    flags = spec["flags"]
    good = all(flags.values())
    stats["good-schemas" if good else "schemas-outside-hypotheses"] = stats.get("good-schemas" if good else "schemas-outside-hypotheses", 0) + 1
    for i, v in enumerate(values):
        real = core.real_call(el, v)
        model = rep["results"][i]
        case = {"schema": schema, "value": v}
        out.note_case({"schema": schema, "value": v}, nontrivial(schema, v))
        stats["verdict-" + real["r"]] = stats.get("verdict-" + real["r"], 0) + 1
        agree = tree_ok
        if model["r"] == "crash":
            stats["model-outside-arithmetic-domain"] = stats.get("model-outside-arithmetic-domain", 0) + 1
        elif real != model:
            agree = False
            if tree_ok:
                out.disagreements.append({"what": "call result", "impl": real, "model": model, **case})
        if isinstance(v, core.NotPassed):
            continue
        if real["r"] not in ("ok", "reject"):
            if real["r"] == "typeError":
                out.failures.append({"case": case, "what": "TypeError instead of ValidationError: " + real.get("msg", ""), "finding": None})
            continue
        if not spec["distinct_keys"][i]:
            continue
        got = real["r"] == "ok"
        allowed = {spec["impl_leniency"][i], spec["strict"][i], spec["lenient"][i]}
        if got not in allowed:
            # known only if the model predicts the implementation here AND a listed hypothesis is violated
            fid = classify(flags) if agree else None
            out.failures.append({"case": case, "what": f"implementation {'accepts' if got else 'rejects'}, Draft 6 says {'valid' if spec['strict'][i] else 'invalid'}",
                                 "finding": fid, "flags": flags})
            stats["oracle-fail-" + str(fid)] = stats.get("oracle-fail-" + str(fid), 0) + 1


def kw_hist(schema, hist):
    if isinstance(schema, dict):
        for k, v in schema.items():
            hist[k] = hist.get(k, 0) + 1
            if k in ("properties", "patternProperties", "dependencies"):
                if isinstance(v, dict):
                    for s in v.values():
                        kw_hist(s, hist)
            elif k in ("items", "anyOf", "oneOf", "allOf") and isinstance(v, list):
                for s in v:
                    kw_hist(s, hist)
            elif k in ("items", "additionalItems", "additionalProperties", "contains", "propertyNames", "not"):
                kw_hist(v, hist)


def run(ctx, scale=1.0):
    rng = random.Random(ctx["seed"])
    out = Outcome()
    out.rule = ("schemas from the grammar-directed generator (harness/gen.py), 8 schema-directed or free values each; "
                "a case is a (schema, value) pair; non-trivial = the schema object has >= 2 keywords besides title/description; "
                "distinct = by SHA-256 of the canonical JSON of the pair")
    stats = {}
    hist = {}
    drv = core.Driver()
    try:
        for case in corpus_cases():
            check_case(drv, case["schema"], case["values"], out, stats)
        for schema, values in families(rng):
            kw_hist(schema, hist)
            check_case(drv, schema, list(values) + [core.NP], out, stats)
        stats["family-cases"] = out.evaluations
        sg, vg = SchemaGen(rng), ValueGen(rng)
        n = int(N_SCHEMAS[ctx["tier"]] * scale)
        for i in range(n):
            extreme = (i % 10 == 9)
            sg.extreme = vg.extreme = vg.free.extreme = extreme
            schema = sg.schema()
            kw_hist(schema, hist)
            values = vg.values(schema, N_VALUES) + [core.NP]
            check_case(drv, schema, values, out, stats)
    finally:
        drv.close()
    stats["keyword-histogram"] = dict(sorted(hist.items(), key=lambda kv: -kv[1]))
    out.stats = stats
    return out


def corpus_cases():
    import glob
    import os
    for path in sorted(glob.glob(os.path.join(os.path.dirname(__file__), "..", "..", "corpus", "C01", "*.json"))):
        with open(path, encoding="utf8") as fh:
            doc = json.load(fh)
        yield {"schema": doc["schema"], "values": doc.get("values", [doc.get("value")])}


def search(ctx, reason):
    """A proof obligation or the correspondence broke: look for an input on which the
    implementation's verdict departs from the Draft-6 specification."""
    sub = dict(ctx)
    sub["seed"] = ctx["seed"] + 7919
    found = run(sub, scale=4.0 if ctx["tier"] == "quick" else 1.0)
    fresh = [f for f in found.failures if f.get("finding") is None]
    if fresh:
        return fresh[0]
    # disagreeing cases themselves: does the property fail on them irrespective of the known regions?
    for f in found.failures:
        return f
    return None


def _verdicts(schema, value):
    drv = core.Driver()
    try:
        status, el = core.real_parse(schema)
        if status != "ok":
            return None, None
        real = core.real_call(el, value)
        spec = drv.ask({"op": "spec", "schema": core.enc_val(schema), "args": [core.enc_arg(value)],
                        "tables": core.schema_tables(schema, [value])})
        return real, spec
    finally:
        drv.close()


def _decimal_multiple(x, m):
    from decimal import Decimal
    return Decimal(repr(x)) % Decimal(repr(m)) == 0


def replay_finding(finding):
    w = finding["witness"]
    if finding.get("oracle") == "decimal-multipleOf":
        status, el = core.real_parse(w["schema"])
        real = core.real_call(el, w["value"])
        return (real["r"] == "ok") != _decimal_multiple(w["value"], w["schema"]["multipleOf"])
    real, spec = _verdicts(w["schema"], w["value"])
    if real is None or real["r"] not in ("ok", "reject"):
        return real is not None
    got = real["r"] == "ok"
    return got not in {spec["impl_leniency"][0], spec["strict"][0], spec["lenient"][0]}


def replay(payload):
    case = payload.get("failure", {}).get("case")
    if not case:
        return True
    real, spec = _verdicts(case["schema"], case["value"])
    if real is None:
        return True
    if real["r"] not in ("ok", "reject"):
        return False
    got = real["r"] == "ok"
    return got in {spec["impl_leniency"][0], spec["strict"][0], spec["lenient"][0]}
