"""C07 — defaults and object descriptions survive parsing and serialization.

Correspondence: parsed tree (with every default) vs the Lean parser model; serialized JSON vs the
Lean serializer.  Oracle: the default found on the parsed element, in the JSON document and in
the executed generated Python, at the position the schema put it — and nowhere else; the class
description and the generated class's docstring, character for character — for every object schema
of the document, whatever other keywords it carries and wherever it sits."""
import json
import random

from statham.serializers import serialize_json, serialize_python

from harness import core
from harness.framework import Outcome
from harness.gen import SchemaGen, WHITESPACE_DESCRIPTIONS

ID = "C07"
TIE_MODULES = ["StathamModel.Tie"]
ASSUMPTIONS = ["defaults are JSON values; descriptions are Python str without lone surrogates"]
FALSY = [False, 0, 0.0, "", [], {}, None]
TRUTHY = [True, 1, -2.5, "x", [0], {"k": None}, [[], {}], "0", {"_x_autotitle": "kept?"}]
HOSTILE_DESCRIPTIONS = ['say "hi"', 'ends with quote"', "back\\slash", "trailing backslash\\", 'triple """ inside', "carriage\rreturn",
                        "nul\x00byte", "\\n literal", "\\x41 escape", "\\N{BULLET}", "\\u1234", "\\s unknown escape", "'''", ""]
SHAPES = {
    "untyped": lambda d: {"minimum": 1, "default": d},
    "typed": lambda d: {"type": "string", "default": d},
    "type-list-1": lambda d: {"type": ["integer"], "default": d},
    "type-list-n": lambda d: {"type": ["integer", "string"], "default": d},
    "anyOf": lambda d: {"anyOf": [{"type": "string"}, {"type": "integer"}], "default": d},
    "oneOf-single": lambda d: {"oneOf": [{"type": "string"}], "default": d},
    "allOf+base": lambda d: {"type": "integer", "allOf": [{"minimum": 1}, {"maximum": 9}], "default": d},
    "not": lambda d: {"not": {"type": "null"}, "default": d},
    "array": lambda d: {"type": "array", "items": {"type": "integer"}, "default": d},
    "object-class": lambda d: {"type": "object", "title": "Holder", "properties": {"p": {"type": "integer"}}, "default": d},
    "object+composition": lambda d: {"type": "object", "title": "Holder", "anyOf": [{"required": ["p"]}, {"required": ["q"]}], "default": d},
    # compositions whose composed result is a single object class (the parser's wrapper branch)
    "object+trivial-composition": lambda d: {"type": "object", "title": "Holder", "properties": {"p": {"type": "integer"}}, "anyOf": [{}], "default": d},
    "allOf-single-object": lambda d: {"allOf": [{"type": "object", "title": "Holder", "properties": {"p": {"type": "integer"}}}], "default": d},
    "reduces-to-nothing": lambda d: {"anyOf": [False], "default": d},
    "all-trivial-composition": lambda d: {"allOf": [{}], "default": d},
    "trivial-anyOf": lambda d: {"anyOf": [True, {}], "default": d},
    "no-keywords": lambda d: {"default": d},
}
POSITIONS = {
    "root": lambda s: s,
    "property": lambda s: {"type": "object", "title": "Outer", "properties": {"the prop": s, "other": {"type": "string"}}},
    "items": lambda s: {"type": "array", "items": s},
    "branch": lambda s: {"anyOf": [s, {"type": "null"}]},
    "beside-trivial-schemas": lambda s: {"type": "object", "title": "Outer", "required": ["undeclared"],
                                         "properties": {"the prop": s, "free": {}, "anything": True, "arr": {"type": "array"}}},
}


def find_defaults(dump, path="$", out=None):
    """All (path, default) pairs in an element dump."""
    out = [] if out is None else out
    if isinstance(dump, dict) and "cls" in dump:
        if "default" in dump.get("kw", {}):
            out.append((path, dump["kw"]["default"]))
        for key in ("items", "elements"):
            for i, sub in enumerate(dump.get(key, [])):
                find_defaults(sub, f"{path}.{key}[{i}]", out)
        for key in ("addItems", "contains", "addProps", "propNames"):
            if key in dump:
                find_defaults(dump[key], f"{path}.{key}", out)
        for key in ("props", "patProps", "deps"):
            for k, sub in dump.get(key, []):
                find_defaults(sub, f"{path}.{key}[{k['name']}]", out)
    return out


def json_defaults(doc, path="$", out=None):
    out = [] if out is None else out
    if isinstance(doc, dict):
        if "default" in doc:
            out.append((path, core.enc_val(doc["default"])))
        for k, v in doc.items():
            if k in ("default", "const", "enum"):
                continue
            json_defaults(v, f"{path}.{k}", out)
    elif isinstance(doc, list):
        for i, v in enumerate(doc):
            json_defaults(v, f"{path}[{i}]", out)
    return out


def _declared(d):
    """the default a schema declares by writing `d` (the auto-title annotation is not part of a literal)"""
    if isinstance(d, dict) and "_x_autotitle" in d:
        return core.enc_val({k: v for k, v in d.items() if k != "_x_autotitle"})
    return core.enc_val(core.copy.deepcopy(d))


def check_default(drv, shape, position, d, out, stats, used=False):
    inner = SHAPES[shape](d)
    schema = POSITIONS[position](inner)
    case = {"shape": shape, "position": position, "default": core.enc_val(d), "schema": schema}
    if used:
        case["used_before_inspection"] = True
    out.note_case(case, True)
    status, el = core.real_parse(schema)
    if used and status == "ok":
        # the parsed element is put to use first (values that omit things, so that defaults are taken): what it carries
        # afterwards is still exactly the declared default
        for v in (core.NP, {}, [], {"other": "s"}, {"the prop": core.NP}, [core.NP], core.copy.deepcopy(d), {"p": 1}):
            core.real_call(el, v)
        stats["used-before-inspection"] = stats.get("used-before-inspection", 0) + 1
    try:
        rep = drv.ask({"op": "parse_serialize", "schema": core.enc_val(schema), "tables": core.schema_tables(schema, [])})
    except (TypeError, ValueError):
        return
    if status != "ok" or "error" in rep or rep.get("parse") != "ok":
        if status == "ok" or ("error" not in rep and rep.get("parse") == "ok"):
            out.disagreements.append({"what": "parse outcome", "impl": status, "model": rep, **case})
        return
    out.traces_validated += 1
    try:
        dump = core.dump_elem(el)
    except (TypeError, ValueError) as exc:
        out.failures.append({"case": case, "what": f"the element no longer carries JSON values only ({exc}): a default was altered", "finding": None})
        return
    agree = dump == rep["elem"]
    if not agree:
        out.disagreements.append({"what": "parsed tree", "impl": dump, "model": rep["elem"], **case})
    want = _declared(d)
    region = "C07-reduces-to-nothing" if shape == "reduces-to-nothing" else None

    def fail(what):
        fid = region if agree else None
        out.failures.append({"case": case, "what": what, "finding": fid})
        stats["oracle-fail-" + str(fid)] = stats.get("oracle-fail-" + str(fid), 0) + 1

    found = find_defaults(dump)
    hits = [p for p, v in found if v == want]
    if len(found) != 1 or len(hits) != 1:
        fail(f"parsed tree carries defaults {found}, expected exactly one: {want}")
        return
    # JSON serialization
    try:
        doc = serialize_json(el)
    except TypeError:
        fail("serialize_json cannot serialize the parsed element (root is false)")
        return
    jd = json_defaults(doc)
    if [v for _, v in jd] != [want]:
        fail(f"JSON serialization carries defaults {jd}, expected exactly one: {want}")
        return
    if rep.get("r") == "ok" and rep["json"] != core.enc_val(_plain(doc)):
        out.disagreements.append({"what": "serialized document", "impl": core.enc_val(_plain(doc)), "model": rep["json"], **case})
    # Python serialization: re-execute and look at the same position
    src = serialize_python(el)
    if src.strip():
        ns = {}
        try:
            exec(compile(src, "<generated>", "exec"), ns)  # noqa: S102
        except Exception as exc:  # noqa: BLE001
            fail(f"generated Python does not execute: {type(exc).__name__}")
            return
        from statham.serializers.orderer import get_object_classes
        for cls in get_object_classes(el):
            other = ns.get(cls.__name__)
            if other is None:
                fail(f"generated Python lacks class {cls.__name__}")
                return
            if find_defaults(core.dump_elem(other)) != find_defaults(core.dump_elem(cls)):
                fail(f"defaults of generated class {cls.__name__} differ from the parsed class")
                return
    stats["defaults-ok"] = stats.get("defaults-ok", 0) + 1


def _plain(x):
    if isinstance(x, dict):
        return {k: _plain(v) for k, v in x.items()}
    if isinstance(x, (list, tuple)):
        return [_plain(v) for v in x]
    return x


def safe_description(d):
    """The exact set of descriptions a `\"\"\"…\"\"\"` docstring reproduces on this interpreter (DESIGN §8 C07)."""
    if d == "" or '"""' in d or d.endswith('"') or "\r" in d or "\x00" in d:
        return False
    i = 0
    while i < len(d):
        if d[i] == "\\":
            if i + 1 >= len(d):
                return False
            if d[i + 1] in "\\'\"abfnrtv01234567xNuU\n":
                return False
            i += 2
        else:
            i += 1
    return True


def check_description(desc, out, stats):
    schema = {"type": "object", "title": "Described", "description": desc, "properties": {"a": {"type": "string"}}}
    case = {"description": desc, "schema": schema}
    out.note_case(case, True)
    status, el = core.real_parse(schema)
    if status != "ok":
        return
    # the listed finding is about the docstring *emission* only: what the parsed class and the JSON document carry is
    # outside its region, however hostile the description
    quoting = None if safe_description(desc) else "C07-docstring-quoting"

    def fail(what, region=quoting):
        out.failures.append({"case": case, "what": what, "finding": region})
        stats["oracle-fail-" + str(region)] = stats.get("oracle-fail-" + str(region), 0) + 1

    if getattr(el, "description", None) != desc:
        fail(f"class description is {getattr(el, 'description', None)!r}", None)
        return
    if serialize_json(el).get("description") != desc:
        fail("JSON serialization lost or altered the description", None)
        return
    src = serialize_python(el)
    ns = {}
    try:
        import warnings
        with warnings.catch_warnings():
            warnings.simplefilter("ignore")
            exec(compile(src, "<generated>", "exec"), ns)  # noqa: S102
    except Exception as exc:  # noqa: BLE001
        fail(f"generated Python does not execute: {type(exc).__name__}")
        return
    other = ns.get("Described")
    if other is None or other.__doc__ != desc or other.description != desc:
        fail(f"docstring of the generated class is {getattr(other, '__doc__', None)!r}, description {getattr(other, 'description', None)!r}")
        return
    stats["descriptions-ok"] = stats.get("descriptions-ok", 0) + 1


# ---- described object schemas with other keywords beside the description, at every place an object schema can sit
_PROPS = {"a": {"type": "string"}, "b": {"type": "integer"}}
COMPANIONS = {
    "none": lambda: {},
    "anyOf-required": lambda: {"anyOf": [{"required": ["a"]}, {"required": ["b"]}]},
    "oneOf-required": lambda: {"oneOf": [{"required": ["a"]}, {"required": ["b"]}]},
    "allOf-constraint": lambda: {"allOf": [{"minProperties": 1}]},
    "not": lambda: {"not": {"required": ["forbidden"]}},
    "trivial-composition": lambda: {"anyOf": [{}]},
    "several-compositions": lambda: {"allOf": [{"maxProperties": 5}], "anyOf": [{"required": ["a"]}, {"required": ["b"]}], "not": {"required": ["z"]}},
    "default": lambda: {"default": {}},
    "composition+default": lambda: {"oneOf": [{"required": ["a"]}, {"required": ["b"]}], "default": {"a": "s"}},
    "described-composition-member": lambda: {"anyOf": [{"description": "about the branch", "required": ["a"]}, {"required": ["b"]}]},
    "allOf-object-member": lambda: {"allOf": [{"type": "object", "title": "Base", "description": "The base.", "properties": {"c": {"type": "null"}}}]},
    "object-keywords": lambda: {"required": ["a"], "additionalProperties": False, "minProperties": 1,
                                "patternProperties": {"^x": {"type": "null"}}, "dependencies": {"a": ["b"]}},
    "type-list": lambda: {"type": ["object"]},
}
DESC_POSITIONS = {
    "root": lambda s: s,
    "property": lambda s: {"type": "object", "title": "Outer", "description": "The holder.", "properties": {"the prop": s, "other": {"type": "string"}}},
    "nested-property": lambda s: {"type": "object", "title": "Outer", "properties": {"mid": {"type": "object", "title": "Middle", "description": "In between.", "properties": {"p": s}}}},
    "items": lambda s: {"type": "array", "items": s},
    "tuple-item": lambda s: {"type": "array", "items": [{"type": "string"}, s]},
    "branch": lambda s: {"anyOf": [s, {"type": "null"}]},
    "additionalProperties": lambda s: {"type": "object", "title": "Outer", "description": "The holder.", "additionalProperties": s},
    "definition": lambda s: {"type": "object", "title": "Outer", "properties": {"n": {"type": "integer"}}, "definitions": {"described": s}},
    "definition+use": None,     # built in described_document: the same dict object as a definition and as a property
}


def described_document(desc, companion, position):
    inner = {"type": "object", "title": "Described", "description": desc, "properties": core.copy.deepcopy(_PROPS)}
    inner.update(COMPANIONS[companion]())
    if position == "definition+use":
        return {"type": "object", "title": "Outer", "description": "The holder.", "properties": {"use": inner}, "definitions": {"described": inner}}
    return DESC_POSITIONS[position](inner)


def declared_objects(schema, out=None):
    """title -> declared description (None: none declared) of every titled object schema of a document"""
    out = {} if out is None else out
    if isinstance(schema, dict):
        kind = schema.get("type")
        if (kind == "object" or kind == ["object"]) and isinstance(schema.get("title"), str):
            out[schema["title"]] = schema.get("description")
        for key, sub in schema.items():
            if key in ("default", "const", "enum", "required"):
                continue
            if key in ("properties", "patternProperties", "definitions", "dependencies") and isinstance(sub, dict):
                for v in sub.values():
                    declared_objects(v, out)
            else:
                declared_objects(sub, out)
    elif isinstance(schema, list):
        for sub in schema:
            declared_objects(sub, out)
    return out


def _titled(doc, title):
    """every sub-document of a JSON serialization that has the given title"""
    found = []
    if isinstance(doc, dict):
        if doc.get("title") == title:
            found.append(doc)
        for k, v in doc.items():
            if k not in ("default", "const", "enum"):
                found += _titled(v, title)
    elif isinstance(doc, list):
        for v in doc:
            found += _titled(v, title)
    return found


def check_described_object(desc, companion, position, out, stats):
    """Every titled object schema of the document (the described one, whatever keywords sit beside its description and
    wherever it is placed, and the bystanders): its description is the description of its class, stands on its node of the
    JSON serialization, and is the docstring of its generated class; one that declares none gets none."""
    from statham.schema.constants import NotPassed
    from statham.schema.parser import parse
    from statham.serializers.orderer import get_object_classes
    schema = described_document(desc, companion, position)
    case = {"described_object": {"description": desc, "companion": companion, "position": position}, "schema": schema}
    out.note_case(case, True)
    declared = declared_objects(schema)
    try:
        elements = parse(core.copy.deepcopy(schema))       # deepcopy keeps the sharing
    except Exception as exc:  # noqa: BLE001
        out.failures.append({"case": case, "what": f"parse raised {type(exc).__name__}: {exc}", "finding": None})
        return
    quoting = None if all(d is None or safe_description(d) for d in declared.values()) else "C07-docstring-quoting"

    def fail(what, region=None):
        out.failures.append({"case": case, "what": what, "finding": region})
        stats["oracle-fail-" + str(region)] = stats.get("oracle-fail-" + str(region), 0) + 1

    try:
        classes = {}
        for cls in get_object_classes(*elements):
            if not any(c is cls for c in classes.setdefault(cls.__name__, [])):       # one class reached from two roots is one class
                classes[cls.__name__].append(cls)
        for title, want in declared.items():
            got = [c.description if isinstance(c.description, str) else None for c in classes.get(title, [])]
            if got != [want]:
                fail(f"object schema {title!r} declares description {want!r}; its parsed class(es) carry {got!r} (parsed: {elements!r})")
                return
        doc = _plain(serialize_json(*elements))
        for title, want in declared.items():
            jgot = [n.get("description") for n in _titled(doc, title)]
            if jgot != [want]:
                fail(f"object schema {title!r} declares description {want!r}; its node(s) in the JSON serialization carry {jgot!r}")
                return
        src = serialize_python(*elements)
    except Exception as exc:  # noqa: BLE001
        fail(f"{type(exc).__name__} escaped from the library: {exc}")
        return
    ns = {}
    try:
        import warnings
        with warnings.catch_warnings():
            warnings.simplefilter("ignore")
            exec(compile(src, "<generated>", "exec"), ns)  # noqa: S102
    except Exception as exc:  # noqa: BLE001
        fail(f"generated Python does not execute: {type(exc).__name__}", quoting)
        return
    for title, want in declared.items():
        other = ns.get(title)
        doc_got = getattr(other, "__doc__", "<no class>")
        desc_got = getattr(other, "description", None)
        desc_got = desc_got if not isinstance(desc_got, NotPassed) else None
        if other is None or doc_got != want or desc_got != want:
            # the listed finding covers the emitted docstring of a description the predicate refuses, nothing else
            fail(f"object schema {title!r} declares description {want!r}; its generated class has docstring {doc_got!r}, description {desc_got!r}",
                 quoting if want is not None and not safe_description(want) else None)
            return
    stats["described-object-ok"] = stats.get("described-object-ok", 0) + 1
    for key in ("companion:" + companion, "described-at:" + position):
        stats[key] = stats.get(key, 0) + 1


def _resolve(doc, node):
    while isinstance(node, dict) and "$ref" in node:
        name = node["$ref"].rsplit("/", 1)[-1]
        node = doc.get("definitions", {}).get(name)
    return node


def check_description_twins(d1, d2, place, out, stats):
    """two object schemas with one title, alike except for their descriptions (d2 may be absent)"""
    def obj(d):
        s = {"type": "object", "title": "Address", "properties": {"street": {"type": "string"}}}
        if d is not None:
            s["description"] = d
        return s
    if place == "properties":
        schema = {"type": "object", "title": "Outer", "properties": {"first": obj(d1), "second": obj(d2)}}
        pick = lambda el: (el.properties["first"].element, el.properties["second"].element)
        jpick = lambda doc: (doc["properties"]["first"], doc["properties"]["second"])
    elif place == "tuple-items":
        schema = {"type": "array", "items": [obj(d1), obj(d2)]}
        pick = lambda el: (el.items[0], el.items[1])
        jpick = lambda doc: (doc["items"][0], doc["items"][1])
    else:
        schema = {"title": "Outer", "anyOf": [obj(d1), {"type": "array", "items": obj(d2)}]}
        pick = lambda el: (el.elements[0], el.elements[1].items)
        jpick = lambda doc: (doc["anyOf"][0], _resolve(doc, doc["anyOf"][1])["items"])
    case = {"twins": [d1, d2], "place": place, "schema": schema}
    out.note_case(case, True)
    status, el = core.real_parse(schema)
    if status != "ok":
        return
    region = None if all(d is None or safe_description(d) for d in (d1, d2)) else "C07-docstring-quoting"

    def fail(what):
        out.failures.append({"case": case, "what": what, "finding": region})

    want = (d1, d2)
    try:
        got = tuple(getattr(x, "description", None) if isinstance(getattr(x, "description", None), str) else None for x in pick(el))
    except Exception as exc:  # noqa: BLE001
        fail(f"parsed tree has an unexpected shape: {type(exc).__name__}")
        return
    if got != want:
        fail(f"descriptions of the two parsed classes are {got!r}, the schemas say {want!r}")
        return
    try:
        doc = _plain(serialize_json(el))
        jgot = tuple((_resolve(doc, n) or {}).get("description") for n in jpick(doc))
    except Exception as exc:  # noqa: BLE001
        fail(f"cannot read the descriptions back from the JSON serialization: {type(exc).__name__}")
        return
    if jgot != want:
        fail(f"JSON serialization carries descriptions {jgot!r}, the schemas say {want!r}")
        return
    src = serialize_python(el)
    ns = {}
    try:
        exec(compile(src, "<generated>", "exec"), ns)  # noqa: S102
    except Exception as exc:  # noqa: BLE001
        fail(f"generated Python does not execute: {type(exc).__name__}")
        return
    from statham.schema.elements.meta import ObjectMeta
    docs = sorted(str(c.__doc__) for n, c in ns.items() if isinstance(c, ObjectMeta) and n.startswith("Address"))
    if d1 == d2:
        want = (d1,)          # identical twins are one class
    if docs != sorted(str(d) for d in want):
        fail(f"docstrings of the generated classes are {docs!r}, the schemas say {sorted(str(d) for d in want)!r}")
        return
    stats["twins-ok"] = stats.get("twins-ok", 0) + 1


# ---- several object classes in one document: each keeps its own default and description ---------------------------------
# A default "is never dropped, moved to another element, or shared with an unrelated element": what one object schema of a
# document declares must not depend on which other object schemas stand beside it — in particular not on one that has a
# different title but the same (or an `==`-equal: 0 / false / 0.0, 1 / true / 1.0) body, default and description.
CLASS_TITLES = ["BillingAddress", "ShippingAddress", "Retries", "Cache", "Home", "Work", "Alpha", "Beta"]
CLASS_BODIES = [
    {},
    {"properties": {"street": {"type": "string"}, "country": {"type": "string", "default": "GB"}}},
    {"properties": {"limit": {"type": "integer"}}},
    {"properties": {"street": {"type": "string"}, "country": {"type": "string", "default": "GB"}}, "required": ["street"]},
    {"properties": {"limit": {"type": "integer"}}, "additionalProperties": False},
    {"properties": {"flag": {"type": "boolean", "default": False}, "count": {"type": "integer", "default": 0}}},
]
# groups of defaults that Python's `==` cannot tell apart but that are different JSON values, plus ordinary ones
CLASS_DEFAULT_GROUPS = [
    [{"limit": 0}, {"limit": False}, {"limit": 0.0}],
    [{"n": 1}, {"n": True}, {"n": 1.0}],
    [{"a": [0, 1]}, {"a": [False, True]}, {"a": [0.0, 1.0]}],
    [0, False, 0.0],
    [1, True, 1.0],
    [[], ], [{}, ], [None, ], ["", ],
    [{"country": "GB"}], [{"country": "FR"}],
]
CLASS_DESCRIPTIONS = [None, "A postal address.", "Tuning.", "x", "Line one.\nLine two.", "café ✓"]
CLASS_PLACES = ("properties", "tuple-items", "branches", "nested", "definitions")
CLASS_SLOTS = ("direct", "items", "branch")
_ABSENT = "<absent>"


def gen_class_family(rng):
    """2-4 differently titled object schemas for one document.  With high probability a member is a 'twin' of an earlier
    one: same body, same description, a default from the same `==`-group (often the very same)."""
    place = rng.choice(CLASS_PLACES)
    members = []
    for title in rng.sample(CLASS_TITLES, rng.randint(2, 4)):
        kind = "fresh"
        if members and rng.random() < 0.7:
            base = rng.choice(members)
            m = {"title": title, "body": base["body"], "description": base["description"], "group": base["group"]}
            r = rng.random()
            if base["group"] is None or r < 0.45:
                kind = "twin-identical"
                if "default" in base:
                    m["default"] = base["default"]
            elif r < 0.85:
                kind = "twin-equal-default"
                m["default"] = core.enc_val(rng.choice(CLASS_DEFAULT_GROUPS[base["group"]]))
            else:
                kind = "twin-but-one-keyword"
                which = rng.choice(("default", "description", "body"))
                if which == "default":
                    m["group"] = rng.randrange(len(CLASS_DEFAULT_GROUPS))
                    m["default"] = core.enc_val(rng.choice(CLASS_DEFAULT_GROUPS[m["group"]]))
                elif which == "description":
                    m["description"] = rng.choice(CLASS_DESCRIPTIONS)
                    if "default" in base:
                        m["default"] = base["default"]
                else:
                    m["body"] = rng.randrange(len(CLASS_BODIES))
                    if "default" in base:
                        m["default"] = base["default"]
        else:
            m = {"title": title, "body": rng.randrange(len(CLASS_BODIES)), "description": rng.choice(CLASS_DESCRIPTIONS), "group": None}
            if rng.random() < 0.8:
                m["group"] = rng.randrange(len(CLASS_DEFAULT_GROUPS))
                m["default"] = core.enc_val(rng.choice(CLASS_DEFAULT_GROUPS[m["group"]]))
        m["kind"] = kind
        m["slot"] = rng.choice(CLASS_SLOTS) if place in ("properties", "nested") else "direct"
        members.append(m)
    return {"place": place, "members": members}


def _member_schema(m):
    from harness import dsl
    s = {"type": "object", "title": m["title"]}
    s.update(core.copy.deepcopy(CLASS_BODIES[m["body"]]))
    if m.get("description") is not None:
        s["description"] = m["description"]
    if "default" in m:
        s["default"] = dsl.dec_val(m["default"])
    return s


def _slot_schema(slot, s):
    return {"direct": s, "items": {"type": "array", "items": s}, "branch": {"anyOf": [s, {"type": "null"}]}}[slot]


def _slot_elem(slot, e):
    return {"direct": lambda: e, "items": lambda: e.items, "branch": lambda: e.elements[0]}[slot]()


def _slot_node(doc, slot, node):
    node = _resolve(doc, node)
    if slot == "items":
        return _resolve(doc, node["items"])
    if slot == "branch":
        return _resolve(doc, node["anyOf"][0])
    return node


def class_family_document(family):
    """(schema, elements -> member classes, document -> member nodes) of a family"""
    members = family["members"]
    subs = [_slot_schema(m["slot"], _member_schema(m)) for m in members]
    names = [f"m{i}" for i in range(len(members))]
    place = family["place"]
    if place == "properties":
        schema = {"type": "object", "title": "Outer", "properties": dict(zip(names, subs))}
        pick = lambda els: [_slot_elem(m["slot"], els[0].properties[n].element) for n, m in zip(names, members)]
        jpick = lambda doc: [_slot_node(doc, m["slot"], doc["properties"][n]) for n, m in zip(names, members)]
    elif place == "tuple-items":
        schema = {"type": "array", "items": subs}
        pick = lambda els: list(els[0].items)
        jpick = lambda doc: [_resolve(doc, n) for n in doc["items"]]
    elif place == "branches":
        schema = {"title": "Outer", "anyOf": subs + [{"type": "null"}]}
        pick = lambda els: list(els[0].elements[:len(members)])
        jpick = lambda doc: [_resolve(doc, n) for n in doc["anyOf"][:len(members)]]
    elif place == "nested":
        schema = {"type": "object", "title": "Outer", "properties": {"mid": {"type": "object", "title": "Middle", "properties": dict(zip(names, subs))}}}
        pick = lambda els: [_slot_elem(m["slot"], els[0].properties["mid"].element.properties[n].element) for n, m in zip(names, members)]
        jpick = lambda doc: [_slot_node(doc, m["slot"], _resolve(doc, doc["properties"]["mid"])["properties"][n]) for n, m in zip(names, members)]
    else:       # the first member is used by the root, the others are definitions only (further elements of `parse`)
        schema = {"type": "object", "title": "Outer", "properties": {"m0": subs[0]}, "definitions": dict(zip(names[1:], subs[1:]))}
        pick = lambda els: [els[0].properties["m0"].element] + list(els[1:])
        jpick = lambda doc: [_resolve(doc, doc["properties"]["m0"])] + [doc.get("definitions", {}).get(m["title"]) for m in members[1:]]
    return schema, pick, jpick


def _dangling_refs(doc, node=None, out=None):
    out = [] if out is None else out
    node = doc if node is None else node
    if isinstance(node, dict):
        ref = node.get("$ref")
        if isinstance(ref, str) and set(node) == {"$ref"} and ref != "#":
            target = doc
            for part in ref[2:].split("/"):
                target = target.get(part) if isinstance(target, dict) else None
            if target is None:
                out.append(ref)
        for k, v in node.items():
            if k not in ("default", "const", "enum"):
                _dangling_refs(doc, v, out)
    elif isinstance(node, list):
        for v in node:
            _dangling_refs(doc, v, out)
    return out


def check_class_family(family, out, stats, drv=None):
    """Every member of the family: its parsed class has its title, exactly its default (as a JSON value: false is not 0) or
    none, and its description; the node its use resolves to in the JSON serialization exists and carries the same; so does
    its generated class once executed."""
    from statham.schema.constants import NotPassed
    from statham.schema.elements.meta import ObjectMeta
    from statham.schema.parser import parse
    members = family["members"]
    schema, pick, jpick = class_family_document(family)
    case = {"class_family": family, "schema": schema}
    out.note_case(case, True)

    def fail(what):
        out.failures.append({"case": case, "what": what, "finding": None})
        stats["oracle-fail-None"] = stats.get("oracle-fail-None", 0) + 1

    def carried(obj):
        d = getattr(obj, "default", NotPassed())
        return _ABSENT if isinstance(d, NotPassed) else core.enc_val(d)

    def described(obj):
        d = getattr(obj, "description", None)
        return d if isinstance(d, str) else None

    want = [(m["title"], m.get("default", _ABSENT), m.get("description")) for m in members]
    try:
        elements = parse(core.copy.deepcopy(schema))
    except Exception as exc:  # noqa: BLE001
        fail(f"parse raised {type(exc).__name__}: {exc}")
        return
    try:
        classes = pick(elements)
        got = [(getattr(c, "__name__", repr(c)), carried(c), described(c)) for c in classes]
        if got != want or not all(isinstance(c, ObjectMeta) for c in classes):
            fail(f"the object schemas declare (title, default, description) {want!r}; their parsed classes carry {got!r}")
            return
        if len({id(c) for c in classes}) != len(classes):
            fail("two differently titled object schemas were parsed to one class")
            return
        doc = _plain(serialize_json(*elements))
        dangling = _dangling_refs(doc)
        if dangling:
            fail(f"JSON serialization refers to {dangling!r}, which it does not contain: what those object schemas declare "
                 f"({[w for w in want if any(r.endswith('/' + w[0]) for r in dangling)]!r}) was dropped "
                 f"(definitions: {sorted(doc.get('definitions', {}))})")
            return
        nodes = jpick(doc)
        jgot = [(n.get("title"), core.enc_val(n["default"]) if "default" in n else _ABSENT, n.get("description")) if isinstance(n, dict) else None
                for n in nodes]
        if jgot != want:
            fail(f"the object schemas declare (title, default, description) {want!r}; their nodes in the JSON serialization carry {jgot!r}")
            return
        for title, _, _ in want:
            if len(_titled(doc, title)) != 1:
                fail(f"JSON serialization has {len(_titled(doc, title))} nodes titled {title!r}")
                return
        src = serialize_python(*elements)
    except Exception as exc:  # noqa: BLE001
        fail(f"{type(exc).__name__} escaped from the library: {exc}")
        return
    ns = {}
    try:
        exec(compile(src, "<generated>", "exec"), ns)  # noqa: S102
    except Exception as exc:  # noqa: BLE001
        fail(f"generated Python does not execute: {type(exc).__name__}: {exc}")
        return
    pgot = [(t, carried(ns[t]), described(ns[t])) if isinstance(ns.get(t), ObjectMeta) else None for t, _, _ in want]
    docs = [getattr(ns.get(t), "__doc__", None) for t, _, _ in want]
    if pgot != want or docs != [w[2] for w in want]:
        fail(f"the object schemas declare (title, default, description) {want!r}; their generated classes carry {pgot!r}, docstrings {docs!r}")
        return
    # correspondence with the Lean model on the same document (parsed tree and serialized document)
    if drv is not None:
        try:
            rep = drv.ask({"op": "parse_serialize", "schema": core.enc_val(schema), "tables": core.schema_tables(schema, [])})
        except (TypeError, ValueError):
            rep = None
        if rep is not None and "error" not in rep and rep.get("parse") == "ok" and rep.get("r") == "ok" and len(elements) == 1:
            out.traces_validated += 1
            if rep["json"] != core.enc_val(_plain(serialize_json(elements[0]))):
                out.disagreements.append({"what": "serialized document", "impl": core.enc_val(doc), "model": rep["json"], **case})
    stats["class-family-ok"] = stats.get("class-family-ok", 0) + 1
    stats["class-family-at:" + family["place"]] = stats.get("class-family-at:" + family["place"], 0) + 1
    for m in members:
        stats["class-family-member:" + m["kind"]] = stats.get("class-family-member:" + m["kind"], 0) + 1
        if m["slot"] != "direct":
            stats["class-family-slot:" + m["slot"]] = stats.get("class-family-slot:" + m["slot"], 0) + 1


SHARED_TARGETS = {
    "leaf": lambda: {"type": "string", "maxLength": 9},
    "array": lambda: {"type": "array", "items": {"type": "integer"}},
    # an object schema: its element is a class, which the parser keeps one of per `parse` (every user shares it)
    "object": lambda: {"type": "object", "title": "Settings", "properties": {"mode": {"type": "string"}}},
}


def check_shared_default(kw, d, order, target, out, stats, form="member"):
    """one schema used in two places and as a definition; one use has a composition keyword and a default beside it: the
    default belongs to that use only.  form "member": the very same dict *object* (what resolving `$ref`s produces) sits
    alone inside the composition keyword; form "equal-member": an equal but distinct dict sits there; form "inline": the
    use is an equal schema with a trivial composition keyword and the default written into it."""
    from statham.schema.constants import NotPassed
    from statham.schema.parser import parse
    shared = SHARED_TARGETS[target]()
    if form == "inline":
        wrapped = {**core.copy.deepcopy(shared), kw: [{}], "default": d}
    elif form == "equal-member":
        wrapped = {kw: [core.copy.deepcopy(shared)], "default": d}
    else:
        wrapped = {kw: [shared], "default": d}
    props = {"plain": shared, "wrapped": wrapped} if order == "plain-first" else {"wrapped": wrapped, "plain": shared}
    schema = {"type": "object", "title": "Outer", "properties": props, "definitions": {"name": shared}}
    case = {"shared_default": {"keyword": kw, "default": core.enc_val(d), "order": order, "target": target}}
    if form != "member":
        case["shared_default"]["form"] = form
    out.note_case(case, True)
    try:
        elements = parse(core.copy.deepcopy(schema))       # deepcopy keeps the sharing
    except Exception:  # noqa: BLE001
        return
    want = _declared(d)

    def fail(what):
        out.failures.append({"case": case, "what": what, "finding": None})
        stats["oracle-fail-None"] = stats.get("oracle-fail-None", 0) + 1

    try:
        root = elements[0]
        plain, wr = root.properties["plain"].element, root.properties["wrapped"].element
        if not isinstance(getattr(plain, "default", NotPassed()), NotPassed):
            fail(f"the default {d!r} written beside {kw} leaked to the other user of the shared schema (default {plain.default!r})")
            return
        for extra in elements[1:]:
            if not isinstance(getattr(extra, "default", NotPassed()), NotPassed):
                fail(f"the default {d!r} written beside {kw} leaked to the definition itself ({extra!r} carries default {extra.default!r})")
                return
        found = find_defaults(core.dump_elem(wr))
        if [v for _, v in found] != [want]:
            fail(f"the wrapped use carries defaults {found}, expected exactly {want}")
            return
        if wr is plain:
            fail(f"the use with the default {d!r} and the use without are one element ({wr!r})")
            return
        doc = _plain(serialize_json(*elements))
        jd = json_defaults(doc)
        if [v for _, v in jd] != [want] or "default" not in doc["properties"]["wrapped"]:
            fail(f"JSON serialization carries defaults {jd}, expected exactly one, on the use that declares it: {want}")
            return
        # generated Python, executed: the same two uses
        src = serialize_python(*elements)
    except Exception as exc:  # noqa: BLE001
        fail(f"{type(exc).__name__} escaped from the library: {exc}")
        return
    ns = {}
    try:
        exec(compile(src, "<generated>", "exec"), ns)  # noqa: S102
        gen = ns["Outer"].properties
        gplain, gwr = find_defaults(core.dump_elem(gen["plain"].element)), find_defaults(core.dump_elem(gen["wrapped"].element))
    except Exception as exc:  # noqa: BLE001
        fail(f"generated Python does not execute / lacks the two uses: {type(exc).__name__}: {exc}")
        return
    if gplain or [v for _, v in gwr] != [want]:
        fail(f"generated Python: the use without a default carries {gplain}, the use that declares {want} carries {gwr}")
        return
    stats["shared-default-ok"] = stats.get("shared-default-ok", 0) + 1
    stats[f"shared-default:{target}/{form}"] = stats.get(f"shared-default:{target}/{form}", 0) + 1


def check_shared_node(shape, d, out, stats):
    """one schema dict *object* that carries its own default, reached three times in one `parse` (two properties and a
    definition — what resolving `$ref`s produces): every use carries the default"""
    from statham.schema.parser import parse
    shared = SHAPES[shape](d)
    schema = {"type": "object", "title": "Outer", "properties": {"first": shared, "second": shared}, "definitions": {"name": shared}}
    case = {"shared_node": {"shape": shape, "default": core.enc_val(d)}}
    out.note_case(case, True)
    doc = core.copy.deepcopy(schema)                       # deepcopy keeps the sharing
    try:
        elements = parse(doc)
    except Exception:  # noqa: BLE001
        return
    want = core.enc_val(d)
    uses = {"first": elements[0].properties["first"].element, "second": elements[0].properties["second"].element}
    if len(elements) > 1:
        uses["definition"] = elements[1]
    if shape == "reduces-to-nothing":
        return
    dumps = {k: core.dump_elem(e) for k, e in uses.items()}
    for k, dump in dumps.items():
        top = dump.get("kw", {}).get("default", "<none>")
        if top != want:
            out.failures.append({"case": case, "what": f"use {k!r} of the shared schema carries default {top!r}, expected {want!r} "
                                 f"(uses: { {n: x.get('kw', {}).get('default', '<none>') for n, x in dumps.items()} })", "finding": None})
            return
    stats["shared-node-ok"] = stats.get("shared-node-ok", 0) + 1


def run(ctx, scale=1.0):
    rng = random.Random(ctx["seed"] + 7)
    out = Outcome()
    out.rule = ("every default of the pool (7 falsy + 9 truthy + random JSON values) x 17 schema shapes x 5 positions; every description of the "
                "whitespace / hostile / random pools on an object schema; described object schemas with 13 groups of companion keywords "
                "(composition keywords, default, object keywords, type list) x 9 places (root, property, items, branch, definition, ...), every "
                "titled object of the document looked at; pairs of equally titled, equally shaped objects differing only in "
                "their description (3 places); a default beside a one-member composition whose member object is shared with another place "
                "(3 keywords x 8 defaults x 2 orders x 2 targets; the whole default pool x 3 keywords x 3 forms of sharing on an object class, parsed "
                "element, JSON and executed Python); families of 2-4 differently titled object classes in one document (5 places x 3 slots), most of them "
                "twins of one another (same body and description, the same or an ==-equal default: 0/false/0.0), each looked up on the parsed "
                "tree, through its $ref in the JSON document and in the executed Python; a case is one (shape, position, default), one description, one pair, one sharing or one family; "
                "all non-trivial; distinct by SHA-256")
    stats = {}
    drv = core.Driver()
    try:
        sg = SchemaGen(rng)
        extra = [sg.json_value(2) for _ in range(int((12 if ctx["tier"] == "quick" else 200) * scale))]
        for d in FALSY + TRUTHY + extra:
            for shape in SHAPES:
                for position in POSITIONS:
                    check_default(drv, shape, position, d, out, stats)
                    if isinstance(d, (dict, list)):
                        check_default(drv, shape, position, d, out, stats, used=True)
        descs = list(WHITESPACE_DESCRIPTIONS) + HOSTILE_DESCRIPTIONS
        alphabet = "ab \n\t\"'\\xnu0{}é✓\r"
        for _ in range(int((150 if ctx["tier"] == "quick" else 5000) * scale)):
            descs.append("".join(rng.choice(alphabet) for _ in range(rng.randint(1, 8))))
        if ctx["tier"] == "thorough":
            descs += [chr(cp) for cp in range(1, 0x3000) if not 0xD800 <= cp <= 0xDFFF]
        for desc in descs:
            if not core.has_surrogate(desc):
                check_description(desc, out, stats)
        # described object schemas with other keywords beside the description, at every place an object schema can sit:
        # every (companion, position) pair with a description drawn from the safe pool or random, plus hostile ones
        safe_pool = [d for d in descs if safe_description(d) and not core.has_surrogate(d)]
        hostile = [d for d in descs if not safe_description(d) and not core.has_surrogate(d)]
        for _ in range(max(1, int(scale))):
            for companion in COMPANIONS:
                for position in DESC_POSITIONS:
                    check_described_object(rng.choice(safe_pool), companion, position, out, stats)
        for _ in range(int((40 if ctx["tier"] == "quick" else 1500) * scale)):
            check_described_object(rng.choice(hostile), rng.choice(list(COMPANIONS)), rng.choice(list(DESC_POSITIONS)), out, stats)
        # equally titled, equally shaped objects that differ in their description only
        pool = sorted({d for d in WHITESPACE_DESCRIPTIONS + ["First address.", "Second address.", "x"] if safe_description(d)})
        for place in ("properties", "tuple-items", "nested"):
            for _ in range(int((12 if ctx["tier"] == "quick" else 300) * scale)):
                d1, d2 = rng.sample(pool, 2)
                check_description_twins(d1, rng.choice([d2, d2, None]), place, out, stats)
                if rng.random() < 0.3:
                    check_description_twins(None, d2, place, out, stats)
        # a default beside a one-member composition whose member is shared with another place
        for kw in ("allOf", "anyOf", "oneOf"):
            for d in FALSY[:4] + TRUTHY[:4]:
                for order in ("plain-first", "wrapped-first"):
                    for target in ("leaf", "array"):
                        check_shared_default(kw, d, order, target, out, stats)
        # ... the same where the composed result is one shared element whatever the form of the sharing (object classes are
        # one per parse; equal leaves are distinct elements): every default of the pool, a random one of the three forms x
        # three targets each, and the object target with every form
        forms = ("member", "equal-member", "inline")
        for d in FALSY + TRUTHY + extra[:6]:
            for kw in ("allOf", "anyOf", "oneOf"):
                for form in forms:
                    check_shared_default(kw, d, rng.choice(("plain-first", "wrapped-first")), "object", out, stats, form=form)
                check_shared_default(kw, d, rng.choice(("plain-first", "wrapped-first")), rng.choice(("leaf", "array")), out, stats,
                                     form=rng.choice(forms[1:]))
        # a schema node with its own default, shared by several users
        for shape in SHAPES:
            for d in FALSY[:3] + TRUTHY[:3]:
                check_shared_node(shape, d, out, stats)
        # several differently titled object classes in one document, many of them with equal (or `==`-equal) bodies
        for _ in range(int((150 if ctx["tier"] == "quick" else 3000) * scale)):
            check_class_family(gen_class_family(rng), out, stats, drv)
    finally:
        drv.close()
    out.stats = stats
    return out


def search(ctx, reason):
    sub = dict(ctx)
    sub["seed"] = ctx["seed"] + 122949829
    found = run(sub, scale=2.0 if ctx["tier"] == "quick" else 1.0)
    fresh = [f for f in found.failures if f.get("finding") is None]
    return fresh[0] if fresh else None


def _replay_case(case):
    out, stats = Outcome(), {}
    drv = core.Driver()
    try:
        if "class_family" in case:
            check_class_family(case["class_family"], out, stats)
        elif "twins" in case:
            check_description_twins(case["twins"][0], case["twins"][1], case["place"], out, stats)
        elif "shared_node" in case:
            from harness import dsl as _dsl
            check_shared_node(case["shared_node"]["shape"], _dsl.dec_val(case["shared_node"]["default"]), out, stats)
        elif "shared_default" in case:
            sd = case["shared_default"]
            from harness import dsl as _dsl
            check_shared_default(sd["keyword"], _dsl.dec_val(sd["default"]), sd["order"], sd["target"], out, stats, form=sd.get("form", "member"))
        elif "described_object" in case:
            do = case["described_object"]
            check_described_object(do["description"], do["companion"], do["position"], out, stats)
        elif "description" in case:
            check_description(case["description"], out, stats)
        else:
            from harness import dsl
            check_default(drv, case["shape"], case["position"], dsl.dec_val(case["default"]), out, stats, used=bool(case.get("used_before_inspection")))
    finally:
        drv.close()
    return out


def replay_finding(finding):
    return bool(_replay_case(finding["witness"]).failures)


def replay(payload):
    case = payload.get("failure", {}).get("case")
    return True if not case else not _replay_case(case).failures
