"""C07 — defaults and object descriptions survive parsing and serialization.

Correspondence: parsed tree (with every default) vs the Lean parser model; serialized JSON vs the
Lean serializer.  Oracle: the default found on the parsed element, in the JSON document and in
the executed generated Python, at the position the schema put it — and nowhere else; the class
description and the generated class's docstring, character for character."""
import json
import random

from statham.serializers import serialize_json, serialize_python

from harness import core
from harness.framework import Outcome
from harness.gen import SchemaGen, WHITESPACE_DESCRIPTIONS

ID = "C07"
TIE_MODULES = ["StathamModel.Tie"]
ASSUMPTIONS = ["defaults are JSON values; descriptions are Python str without lone surrogates"]
FALSY = [False, 0, 0.0, "", [], {}, None]
TRUTHY = [True, 1, -2.5, "x", [0], {"k": None}, [[], {}], "0", {"_x_autotitle": "kept?"}]
HOSTILE_DESCRIPTIONS = ['say "hi"', 'ends with quote"', "back\\slash", "trailing backslash\\", 'triple """ inside', "carriage\rreturn",
                        "nul\x00byte", "\\n literal", "\\x41 escape", "\\N{BULLET}", "\\u1234", "\\s unknown escape", "'''", ""]
SHAPES = {
    "untyped": lambda d: {"minimum": 1, "default": d},
    "typed": lambda d: {"type": "string", "default": d},
    "type-list-1": lambda d: {"type": ["integer"], "default": d},
    "type-list-n": lambda d: {"type": ["integer", "string"], "default": d},
    "anyOf": lambda d: {"anyOf": [{"type": "string"}, {"type": "integer"}], "default": d},
    "oneOf-single": lambda d: {"oneOf": [{"type": "string"}], "default": d},
    "allOf+base": lambda d: {"type": "integer", "allOf": [{"minimum": 1}, {"maximum": 9}], "default": d},
    "not": lambda d: {"not": {"type": "null"}, "default": d},
    "array": lambda d: {"type": "array", "items": {"type": "integer"}, "default": d},
    "object-class": lambda d: {"type": "object", "title": "Holder", "properties": {"p": {"type": "integer"}}, "default": d},
    "object+composition": lambda d: {"type": "object", "title": "Holder", "anyOf": [{"required": ["p"]}, {"required": ["q"]}], "default": d},
    "reduces-to-nothing": lambda d: {"anyOf": [False], "default": d},
    "all-trivial-composition": lambda d: {"allOf": [{}], "default": d},
    "trivial-anyOf": lambda d: {"anyOf": [True, {}], "default": d},
    "no-keywords": lambda d: {"default": d},
}
POSITIONS = {
    "root": lambda s: s,
    "property": lambda s: {"type": "object", "title": "Outer", "properties": {"the prop": s, "other": {"type": "string"}}},
    "items": lambda s: {"type": "array", "items": s},
    "branch": lambda s: {"anyOf": [s, {"type": "null"}]},
    "beside-trivial-schemas": lambda s: {"type": "object", "title": "Outer", "required": ["undeclared"],
                                         "properties": {"the prop": s, "free": {}, "anything": True, "arr": {"type": "array"}}},
}


def find_defaults(dump, path="$", out=None):
    """All (path, default) pairs in an element dump."""
    out = [] if out is None else out
    if isinstance(dump, dict) and "cls" in dump:
        if "default" in dump.get("kw", {}):
            out.append((path, dump["kw"]["default"]))
        for key in ("items", "elements"):
            for i, sub in enumerate(dump.get(key, [])):
                find_defaults(sub, f"{path}.{key}[{i}]", out)
        for key in ("addItems", "contains", "addProps", "propNames"):
            if key in dump:
                find_defaults(dump[key], f"{path}.{key}", out)
        for key in ("props", "patProps", "deps"):
            for k, sub in dump.get(key, []):
                find_defaults(sub, f"{path}.{key}[{k['name']}]", out)
    return out


def json_defaults(doc, path="$", out=None):
    out = [] if out is None else out
    if isinstance(doc, dict):
        if "default" in doc:
            out.append((path, core.enc_val(doc["default"])))
        for k, v in doc.items():
            if k in ("default", "const", "enum"):
                continue
            json_defaults(v, f"{path}.{k}", out)
    elif isinstance(doc, list):
        for i, v in enumerate(doc):
            json_defaults(v, f"{path}[{i}]", out)
    return out


def check_default(drv, shape, position, d, out, stats, used=False):
    inner = SHAPES[shape](d)
    schema = POSITIONS[position](inner)
    case = {"shape": shape, "position": position, "default": core.enc_val(d), "schema": schema}
    if used:
        case["used_before_inspection"] = True
    out.note_case(case, True)
    status, el = core.real_parse(schema)
    if used and status == "ok":
        # the parsed element is put to use first (values that omit things, so that defaults are taken): what it carries
        # afterwards is still exactly the declared default
        for v in (core.NP, {}, [], {"other": "s"}, {"the prop": core.NP}, [core.NP], core.copy.deepcopy(d), {"p": 1}):
            core.real_call(el, v)
        stats["used-before-inspection"] = stats.get("used-before-inspection", 0) + 1
    try:
        rep = drv.ask({"op": "parse_serialize", "schema": core.enc_val(schema), "tables": core.schema_tables(schema, [])})
    except (TypeError, ValueError):
        return
    if status != "ok" or "error" in rep or rep.get("parse") != "ok":
        if status == "ok" or ("error" not in rep and rep.get("parse") == "ok"):
            out.disagreements.append({"what": "parse outcome", "impl": status, "model": rep, **case})
        return
    out.traces_validated += 1
    try:
        dump = core.dump_elem(el)
    except (TypeError, ValueError) as exc:
        out.failures.append({"case": case, "what": f"the element no longer carries JSON values only ({exc}): a default was altered", "finding": None})
        return
    agree = dump == rep["elem"]
    if not agree:
        out.disagreements.append({"what": "parsed tree", "impl": dump, "model": rep["elem"], **case})
    want = core.enc_val(core.copy.deepcopy(d)) if not (isinstance(d, dict) and "_x_autotitle" in d) else core.enc_val({k: v for k, v in d.items() if k != "_x_autotitle"})
    region = "C07-reduces-to-nothing" if shape == "reduces-to-nothing" else None

    def fail(what):
        fid = region if agree else None
        out.failures.append({"case": case, "what": what, "finding": fid})
        stats["oracle-fail-" + str(fid)] = stats.get("oracle-fail-" + str(fid), 0) + 1

    found = find_defaults(dump)
    hits = [p for p, v in found if v == want]
    if len(found) != 1 or len(hits) != 1:
        fail(f"parsed tree carries defaults {found}, expected exactly one: {want}")
        return
    # JSON serialization
    try:
        doc = serialize_json(el)
    except TypeError:
        fail("serialize_json cannot serialize the parsed element (root is false)")
        return
    jd = json_defaults(doc)
    if [v for _, v in jd] != [want]:
        fail(f"JSON serialization carries defaults {jd}, expected exactly one: {want}")
        return
    if rep.get("r") == "ok" and rep["json"] != core.enc_val(_plain(doc)):
        out.disagreements.append({"what": "serialized document", "impl": core.enc_val(_plain(doc)), "model": rep["json"], **case})
    # Python serialization: re-execute and look at the same position
    src = serialize_python(el)
    if src.strip():
        ns = {}
        try:
            exec(compile(src, "<generated>", "exec"), ns)  # noqa: S102
        except Exception as exc:  # noqa: BLE001
            fail(f"generated Python does not execute: {type(exc).__name__}")
            return
        from statham.serializers.orderer import get_object_classes
        for cls in get_object_classes(el):
            other = ns.get(cls.__name__)
            if other is None:
                fail(f"generated Python lacks class {cls.__name__}")
                return
            if find_defaults(core.dump_elem(other)) != find_defaults(core.dump_elem(cls)):
                fail(f"defaults of generated class {cls.__name__} differ from the parsed class")
                return
    stats["defaults-ok"] = stats.get("defaults-ok", 0) + 1


def _plain(x):
    if isinstance(x, dict):
        return {k: _plain(v) for k, v in x.items()}
    if isinstance(x, (list, tuple)):
        return [_plain(v) for v in x]
    return x


def safe_description(d):
    """The exact set of descriptions a `\"\"\"…\"\"\"` docstring reproduces on this interpreter (DESIGN §8 C07)."""
    if d == "" or '"""' in d or d.endswith('"') or "\r" in d or "\x00" in d:
        return False
    i = 0
    while i < len(d):
        if d[i] == "\\":
            if i + 1 >= len(d):
                return False
            if d[i + 1] in "\\'\"abfnrtv01234567xNuU\n":
                return False
            i += 2
        else:
            i += 1
    return True


def check_description(desc, out, stats):
    schema = {"type": "object", "title": "Described", "description": desc, "properties": {"a": {"type": "string"}}}
    case = {"description": desc, "schema": schema}
    out.note_case(case, True)
    status, el = core.real_parse(schema)
    if status != "ok":
        return
    region = None if safe_description(desc) else "C07-docstring-quoting"

    def fail(what):
        out.failures.append({"case": case, "what": what, "finding": region})
        stats["oracle-fail-" + str(region)] = stats.get("oracle-fail-" + str(region), 0) + 1

    if getattr(el, "description", None) != desc:
        fail(f"class description is {getattr(el, 'description', None)!r}")
        return
    if serialize_json(el).get("description") != desc:
        fail("JSON serialization lost or altered the description")
        return
    src = serialize_python(el)
    ns = {}
    try:
        import warnings
        with warnings.catch_warnings():
            warnings.simplefilter("ignore")
            exec(compile(src, "<generated>", "exec"), ns)  # noqa: S102
    except Exception as exc:  # noqa: BLE001
        fail(f"generated Python does not execute: {type(exc).__name__}")
        return
    other = ns.get("Described")
    if other is None or other.__doc__ != desc or other.description != desc:
        fail(f"docstring of the generated class is {getattr(other, '__doc__', None)!r}, description {getattr(other, 'description', None)!r}")
        return
    stats["descriptions-ok"] = stats.get("descriptions-ok", 0) + 1


def _resolve(doc, node):
    while isinstance(node, dict) and "$ref" in node:
        name = node["$ref"].rsplit("/", 1)[-1]
        node = doc.get("definitions", {}).get(name)
    return node


def check_description_twins(d1, d2, place, out, stats):
    """two object schemas with one title, alike except for their descriptions (d2 may be absent)"""
    def obj(d):
        s = {"type": "object", "title": "Address", "properties": {"street": {"type": "string"}}}
        if d is not None:
            s["description"] = d
        return s
    if place == "properties":
        schema = {"type": "object", "title": "Outer", "properties": {"first": obj(d1), "second": obj(d2)}}
        pick = lambda el: (el.properties["first"].element, el.properties["second"].element)
        jpick = lambda doc: (doc["properties"]["first"], doc["properties"]["second"])
    elif place == "tuple-items":
        schema = {"type": "array", "items": [obj(d1), obj(d2)]}
        pick = lambda el: (el.items[0], el.items[1])
        jpick = lambda doc: (doc["items"][0], doc["items"][1])
    else:
        schema = {"title": "Outer", "anyOf": [obj(d1), {"type": "array", "items": obj(d2)}]}
        pick = lambda el: (el.elements[0], el.elements[1].items)
        jpick = lambda doc: (doc["anyOf"][0], _resolve(doc, doc["anyOf"][1])["items"])
    case = {"twins": [d1, d2], "place": place, "schema": schema}
    out.note_case(case, True)
    status, el = core.real_parse(schema)
    if status != "ok":
        return
    region = None if all(d is None or safe_description(d) for d in (d1, d2)) else "C07-docstring-quoting"

    def fail(what):
        out.failures.append({"case": case, "what": what, "finding": region})

    want = (d1, d2)
    try:
        got = tuple(getattr(x, "description", None) if isinstance(getattr(x, "description", None), str) else None for x in pick(el))
    except Exception as exc:  # noqa: BLE001
        fail(f"parsed tree has an unexpected shape: {type(exc).__name__}")
        return
    if got != want:
        fail(f"descriptions of the two parsed classes are {got!r}, the schemas say {want!r}")
        return
    try:
        doc = _plain(serialize_json(el))
        jgot = tuple((_resolve(doc, n) or {}).get("description") for n in jpick(doc))
    except Exception as exc:  # noqa: BLE001
        fail(f"cannot read the descriptions back from the JSON serialization: {type(exc).__name__}")
        return
    if jgot != want:
        fail(f"JSON serialization carries descriptions {jgot!r}, the schemas say {want!r}")
        return
    src = serialize_python(el)
    ns = {}
    try:
        exec(compile(src, "<generated>", "exec"), ns)  # noqa: S102
    except Exception as exc:  # noqa: BLE001
        fail(f"generated Python does not execute: {type(exc).__name__}")
        return
    from statham.schema.elements.meta import ObjectMeta
    docs = sorted(str(c.__doc__) for n, c in ns.items() if isinstance(c, ObjectMeta) and n.startswith("Address"))
    if d1 == d2:
        want = (d1,)          # identical twins are one class
    if docs != sorted(str(d) for d in want):
        fail(f"docstrings of the generated classes are {docs!r}, the schemas say {sorted(str(d) for d in want)!r}")
        return
    stats["twins-ok"] = stats.get("twins-ok", 0) + 1


def check_shared_default(kw, d, order, target, out, stats):
    """one schema dict *object* used in two places (what resolving `$ref`s produces); one use sits alone inside a
    composition keyword with a default beside it: the default belongs to that use only"""
    shared = {"type": "string", "maxLength": 9} if target == "leaf" else {"type": "array", "items": {"type": "integer"}}
    wrapped = {kw: [shared], "default": d}
    props = {"plain": shared, "wrapped": wrapped} if order == "plain-first" else {"wrapped": wrapped, "plain": shared}
    schema = {"type": "object", "title": "Outer", "properties": props, "definitions": {"name": shared}}
    case = {"shared_default": {"keyword": kw, "default": core.enc_val(d), "order": order, "target": target}}
    out.note_case(case, True)
    from statham.schema.parser import parse
    try:
        elements = parse(core.copy.deepcopy(schema))       # deepcopy keeps the sharing
    except Exception:  # noqa: BLE001
        return
    root = elements[0]
    plain, wr = root.properties["plain"].element, root.properties["wrapped"].element
    from statham.schema.constants import NotPassed
    want = core.enc_val(d)

    def fail(what):
        out.failures.append({"case": case, "what": what, "finding": None})

    if not isinstance(getattr(plain, "default", NotPassed()), NotPassed):
        fail(f"the default {d!r} written beside {kw} leaked to the other user of the shared schema (default {plain.default!r})")
        return
    for extra in elements[1:]:
        if not isinstance(getattr(extra, "default", NotPassed()), NotPassed):
            fail(f"the default {d!r} leaked to the definition itself")
            return
    found = find_defaults(core.dump_elem(wr))
    if [v for _, v in found] != [want]:
        fail(f"the wrapped use carries defaults {found}, expected exactly {want}")
        return
    doc = _plain(serialize_json(*elements))
    jd = json_defaults(doc)
    if [v for _, v in jd] != [want]:
        fail(f"JSON serialization carries defaults {jd}, expected exactly one: {want}")
        return
    stats["shared-default-ok"] = stats.get("shared-default-ok", 0) + 1


def check_shared_node(shape, d, out, stats):
    """one schema dict *object* that carries its own default, reached three times in one `parse` (two properties and a
    definition — what resolving `$ref`s produces): every use carries the default"""
    from statham.schema.parser import parse
    shared = SHAPES[shape](d)
    schema = {"type": "object", "title": "Outer", "properties": {"first": shared, "second": shared}, "definitions": {"name": shared}}
    case = {"shared_node": {"shape": shape, "default": core.enc_val(d)}}
    out.note_case(case, True)
    doc = core.copy.deepcopy(schema)                       # deepcopy keeps the sharing
    try:
        elements = parse(doc)
    except Exception:  # noqa: BLE001
        return
    want = core.enc_val(d)
    uses = {"first": elements[0].properties["first"].element, "second": elements[0].properties["second"].element}
    if len(elements) > 1:
        uses["definition"] = elements[1]
    if shape == "reduces-to-nothing":
        return
    dumps = {k: core.dump_elem(e) for k, e in uses.items()}
    for k, dump in dumps.items():
        top = dump.get("kw", {}).get("default", "<none>")
        if top != want:
            out.failures.append({"case": case, "what": f"use {k!r} of the shared schema carries default {top!r}, expected {want!r} "
                                 f"(uses: { {n: x.get('kw', {}).get('default', '<none>') for n, x in dumps.items()} })", "finding": None})
            return
    stats["shared-node-ok"] = stats.get("shared-node-ok", 0) + 1


def run(ctx, scale=1.0):
    rng = random.Random(ctx["seed"] + 7)
    out = Outcome()
    out.rule = ("every default of the pool (7 falsy + 9 truthy + random JSON values) x 15 schema shapes x 5 positions; every description of the "
                "whitespace / hostile / random pools on an object schema; pairs of equally titled, equally shaped objects differing only in "
                "their description (3 places); a default beside a one-member composition whose member object is shared with another place "
                "(3 keywords x 8 defaults x 2 orders x 2 targets); a case is one (shape, position, default), one description, one pair or one sharing; "
                "all non-trivial; distinct by SHA-256")
    stats = {}
    drv = core.Driver()
    try:
        sg = SchemaGen(rng)
        extra = [sg.json_value(2) for _ in range(int((12 if ctx["tier"] == "quick" else 200) * scale))]
        for d in FALSY + TRUTHY + extra:
            for shape in SHAPES:
                for position in POSITIONS:
                    check_default(drv, shape, position, d, out, stats)
                    if isinstance(d, (dict, list)):
                        check_default(drv, shape, position, d, out, stats, used=True)
        descs = list(WHITESPACE_DESCRIPTIONS) + HOSTILE_DESCRIPTIONS
        alphabet = "ab \n\t\"'\\xnu0{}é✓\r"
        for _ in range(int((150 if ctx["tier"] == "quick" else 5000) * scale)):
            descs.append("".join(rng.choice(alphabet) for _ in range(rng.randint(1, 8))))
        if ctx["tier"] == "thorough":
            descs += [chr(cp) for cp in range(1, 0x3000) if not 0xD800 <= cp <= 0xDFFF]
        for desc in descs:
            if not core.has_surrogate(desc):
                check_description(desc, out, stats)
        # equally titled, equally shaped objects that differ in their description only
        pool = sorted({d for d in WHITESPACE_DESCRIPTIONS + ["First address.", "Second address.", "x"] if safe_description(d)})
        for place in ("properties", "tuple-items", "nested"):
            for _ in range(int((12 if ctx["tier"] == "quick" else 300) * scale)):
                d1, d2 = rng.sample(pool, 2)
                check_description_twins(d1, rng.choice([d2, d2, None]), place, out, stats)
                if rng.random() < 0.3:
                    check_description_twins(None, d2, place, out, stats)
        # a default beside a one-member composition whose member is shared with another place
        for kw in ("allOf", "anyOf", "oneOf"):
            for d in FALSY[:4] + TRUTHY[:4]:
                for order in ("plain-first", "wrapped-first"):
                    for target in ("leaf", "array"):
                        check_shared_default(kw, d, order, target, out, stats)
        # a schema node with its own default, shared by several users
        for shape in SHAPES:
            for d in FALSY[:3] + TRUTHY[:3]:
                check_shared_node(shape, d, out, stats)
    finally:
        drv.close()
    out.stats = stats
    return out


def search(ctx, reason):
    sub = dict(ctx)
    sub["seed"] = ctx["seed"] + 122949829
    found = run(sub, scale=2.0 if ctx["tier"] == "quick" else 1.0)
    fresh = [f for f in found.failures if f.get("finding") is None]
    return fresh[0] if fresh else None


def _replay_case(case):
    out, stats = Outcome(), {}
    drv = core.Driver()
    try:
        if "twins" in case:
            check_description_twins(case["twins"][0], case["twins"][1], case["place"], out, stats)
        elif "shared_node" in case:
            from harness import dsl as _dsl
            check_shared_node(case["shared_node"]["shape"], _dsl.dec_val(case["shared_node"]["default"]), out, stats)
        elif "shared_default" in case:
            sd = case["shared_default"]
            from harness import dsl as _dsl
            check_shared_default(sd["keyword"], _dsl.dec_val(sd["default"]), sd["order"], sd["target"], out, stats)
        elif "description" in case:
            check_description(case["description"], out, stats)
        else:
            from harness import dsl
            check_default(drv, case["shape"], case["position"], dsl.dec_val(case["default"]), out, stats, used=bool(case.get("used_before_inspection")))
    finally:
        drv.close()
    return out


def replay_finding(finding):
    return bool(_replay_case(finding["witness"]).failures)


def replay(payload):
    case = payload.get("failure", {}).get("case")
    return True if not case else not _replay_case(case).failures
