"""C08 — validation is pure and repeatable.

Correspondence: heap state-diff around every call (everything reachable from the element tree,
private attributes included, plus the library's module state), the input value, and the model's
view of the tree (`dump_elem`) before and after; results of repeated calls.  Oracle: equality
with a fresh copy, `serialize_json` / `serialize_python` text before and after.

Ambient family: the statement quantifies over every validation call, wherever it is made.  What a
call "gives" is whatever comes back to the caller - a result, a rejection, or anything else that
escapes - and that depends on the process the caller runs in: with warnings escalated to errors
(`-W error`, pytest `filterwarnings = error`) a warning the library emits IS the verdict of the call.
So histories are also run under that regime (one regime per history, every value repeated, so that
every call is compared with an identical earlier call made under identical ambient conditions), on
trees rich in the keywords whose checkers live in module-level registries (`format` with names from
an open vocabulary: registered, well known but unregistered, and never seen before in the process).
The family runs before everything else so that its first calls are the first calls of the process."""
import copy
import random
import warnings

from harness import core, dsl, gen, statediff
from harness.framework import Outcome
from harness.gen import SchemaGen, ValueGen

ID = "C08"
TIE_MODULES = ["StathamModel.Tie"]
ASSUMPTIONS = [
    "`_Property.parent` / `_PropertyDict._parent` identities are not compared (they feed error messages only)",
    "values are JSON data (dict/list/str/int/float/bool/None)",
]
N_CASES = {"quick": 500, "thorough": 15000}


def safe(fn, *a, **k):
    try:
        return ("ok", fn(*a, **k))
    except Exception as exc:  # noqa: BLE001
        return ("exc", type(exc).__name__)


def observables(el):
    from statham.serializers import serialize_json, serialize_python
    return {
        "json": safe(lambda: core.enc_val(_plain(serialize_json(el)))),
        "python": safe(lambda: serialize_python(el)),
        "repr": safe(lambda: repr(el)),
    }


def _plain(x):
    if isinstance(x, dict):
        return {k: _plain(v) for k, v in x.items()}
    if isinstance(x, (list, tuple)):
        return [_plain(v) for v in x]
    return x


def dump_to_schema(d):
    """A rough schema for value generation only."""
    out = {}
    kw = d.get("kw", {})
    tmap = {"String": "string", "Integer": "integer", "Number": "number", "Boolean": "boolean", "Null": "null", "Array": "array", "Object": "object"}
    if d["cls"] in tmap:
        out["type"] = tmap[d["cls"]]
    for k in ("minimum", "maximum", "minLength", "maxLength", "minItems", "maxItems"):
        if k in kw:
            out[k] = dsl.dec_val(kw[k])
    if "const" in kw:
        out["const"] = dsl.dec_val(kw["const"])
    if "enum" in kw:
        out["enum"] = [dsl.dec_val(x) for x in kw["enum"]]
    if kw.get("itemsKind") == "single":
        out["items"] = dump_to_schema(d["items"][0])
    elif kw.get("itemsKind") == "tuple":
        out["items"] = [dump_to_schema(x) for x in d.get("items", [])]
    if "props" in d:
        out["properties"] = {(k.get("source") or k["name"]): dump_to_schema(s) for k, s in d["props"]}
        out["required"] = [(k.get("source") or k["name"]) for k, _ in d["props"] if k.get("required")]
    if "required" in kw:
        out["required"] = list(dict.fromkeys(out.get("required", []) + kw["required"]))
    if d["cls"] in ("AnyOf", "OneOf", "AllOf"):
        out[d["cls"][0].lower() + d["cls"][1:]] = [dump_to_schema(x) for x in d["elements"]]
    return out


def ambient_call(el, v, regime):
    """One validation call under an ambient warnings regime.  "ignore": `core.real_call` (warnings silenced).
    "error": warnings escalated to errors, as under `-W error`; the outcome has the shape of `core.real_call`'s
    (so `ok` / `reject` outcomes stay comparable with the model), a warning that escapes is the outcome
    `{"r": "warning", ...}`."""
    if regime == "ignore":
        return core.real_call(el, v)
    from statham.schema.exceptions import ValidationError
    given = v if isinstance(v, core.NotPassed) else copy.deepcopy(v)
    try:
        with warnings.catch_warnings():
            warnings.simplefilter("error")
            res = el(core.NP) if isinstance(v, core.NotPassed) else el(given)
        real = {"r": "ok", "v": core.canon_rval(res)}
    except Warning as exc:
        real = {"r": "warning", "category": type(exc).__name__, "msg": str(exc)[:200]}
    except ValidationError:
        real = {"r": "reject"}
    except TypeError as exc:
        real = {"r": "typeError", "msg": str(exc)[:200]}
    except (OverflowError, ZeroDivisionError) as exc:
        real = {"r": "crash", "exc": type(exc).__name__}
    except RecursionError:
        real = {"r": "recursion"}
    except Exception as exc:  # noqa: BLE001 - every other escaping exception is an observation
        real = {"r": "exc", "exc": type(exc).__name__, "msg": str(exc)[:200]}
    if not isinstance(v, core.NotPassed):
        try:
            same = core._same_value(given, v)  # pylint: disable=protected-access
        except Exception:  # noqa: BLE001
            same = False
        if not same:
            real["input_altered"] = True
    return real


def check_tree(drv, el, dump, values, out, stats, origin, regime="ignore", repeat=3):
    """Run the purity checks on one element tree with a sequence of values: the values, then the first `repeat`
    of them again (None: all of them), every call made under the ambient warnings regime `regime`."""
    fresh = safe(dsl.build, dump)
    eq0 = fresh[0] == "ok" and (el == fresh[1])
    snap0 = statediff.snapshot(el)
    mod0 = statediff.module_state()
    obs0 = observables(el)
    enc_vals = []
    for v in values:
        try:
            enc_vals.append(core.enc_arg(v))
        except (TypeError, ValueError):
            enc_vals.append(None)
    model = None
    if all(e is not None for e in enc_vals) and not core.outside_additional_properties_model(dump):
        pats, fmts = core.elem_patterns_formats(el)
        texts = set()
        for v in values:
            if not isinstance(v, core.NotPassed):
                core.all_strings(v, texts)
        core.all_strings(dump, texts)
        rep = drv.ask({"op": "elem_call", "elem": dump, "args": enc_vals, "tables": core.make_tables(pats, fmts, sorted(texts))})
        if "error" not in rep:
            model = rep["results"]
        else:
            stats["driver-error"] = stats.get("driver-error", 0) + 1
    seq = list(values) + list(values[:repeat])
    results = {}
    for idx, v in enumerate(seq):
        case = {"origin": origin, "element": dump, "values": [core.enc_arg(x) if not isinstance(x, core.NotPassed) else {"np": 1} for x in seq[:idx + 1]]}
        if regime != "ignore":
            case["regime"] = regime
        vcopy = copy.deepcopy(v)
        real = ambient_call(el, v, regime)
        out.note_case({"element": dump, "value": case["values"][-1]}, True)
        stats["verdict-" + real["r"]] = stats.get("verdict-" + real["r"], 0) + 1
        if real.pop("input_altered", False) or (not isinstance(v, core.NotPassed) and core.enc_val(v) != core.enc_val(vcopy)):
            out.failures.append({"case": case, "what": "the input value was modified by validation", "finding": None})
        snap = statediff.snapshot(el)
        if snap != snap0:
            out.failures.append({"case": case, "what": "element tree state changed: " + "; ".join(statediff.diff(snap0, snap)[:3]), "finding": None})
            snap0 = snap
        mod = statediff.module_state()
        if mod != mod0:
            out.failures.append({"case": case, "what": "library module state changed", "finding": None})
            mod0 = mod
        key = repr(case["values"][-1])
        if key in results and results[key] != real:
            where = "" if regime == "ignore" else f" (both calls with warnings escalated to errors, regime {regime!r})"
            out.failures.append({"case": case, "what": f"repeated call differs: {results[key]} then {real}" + where, "finding": None})
        results.setdefault(key, real)
        if model is not None and idx < len(values) and model[idx]["r"] != "crash" and real["r"] in ("ok", "reject") and model[idx] != real:
            out.disagreements.append({"what": "call result (DSL tree)", "impl": real, "model": model[idx], **case})
    out.traces_validated += 1
    try:
        after = core.dump_elem(el)
    except Exception as exc:  # noqa: BLE001 - the tree could be dumped before the calls (that is where `dump` comes from)
        after = {"undumpable": f"{type(exc).__name__}: {exc}"[:200]}
    case = {"origin": origin, "element": dump, "values": [core.enc_arg(x) if not isinstance(x, core.NotPassed) else {"np": 1} for x in seq]}
    if regime != "ignore":
        case["regime"] = regime
    if after != dump:
        what = "the element's configuration changed (dump before != dump after)"
        if "undumpable" in after:
            what = "the element's configuration changed: it can no longer be dumped (" + after["undumpable"] + ")"
        out.failures.append({"case": case, "what": what, "finding": None})
    obs1 = observables(el)
    for k in obs0:
        if obs0[k] != obs1[k]:
            out.failures.append({"case": case, "what": f"{k} serialization changed after validation", "finding": None})
    if eq0 and not (el == fresh[1]):
        out.failures.append({"case": case, "what": "element no longer equals a fresh copy", "finding": None})


# format names: the two the library registers, names JSON Schema defines but the library has no checker for, and
# (built in `format_name`) names nobody has heard of - the keyword takes any string
REGISTERED_FORMATS = ["uuid", "date-time"]
WELL_KNOWN_FORMATS = ["hostname", "email", "ipv4", "ipv6", "uri", "uri-reference", "date", "time", "regex",
                      "json-pointer", "idn-email", "iri", "uri-template"]
N_AMBIENT = {"quick": 60, "thorough": 1500}
REGIMES = ["error", "error", "error", "ignore"]


def format_name(rng):
    k = rng.random()
    if k < 0.15:
        return rng.choice(REGISTERED_FORMATS)
    if k < 0.45:
        return rng.choice(WELL_KNOWN_FORMATS)
    if k < 0.75:
        return rng.choice(WELL_KNOWN_FORMATS + ["x"]) + "-" + "".join(rng.choice("abcdefghijklmnopqrstuvwxyz0123456789") for _ in range(rng.randint(1, 6)))
    return "".join(rng.choice("abcdefghijklmnopqrstuvwxyz-_ 0123456789é") for _ in range(rng.randint(1, 10)))


def format_leaf(rng):
    s = rng.choice([{"type": "string"}, {"type": "string"}, {}, {"type": ["string", "null"]}, {"type": ["integer", "string"]}])
    s = dict(s)
    s["format"] = format_name(rng)
    k = rng.random()
    if k < 0.2:
        s["minLength"] = rng.choice([0, 1, 2])
    elif k < 0.3:
        s["maxLength"] = rng.choice([3, 10, 40])
    elif k < 0.4:
        s["pattern"] = rng.choice(["^a", ".", "[a-z]"])
    return s


def format_tree(rng, depth, titles):
    """A schema in which a string can reach a `format` checker through every kind of position a sub-schema can be in."""
    if depth <= 0:
        return format_leaf(rng)
    sub = lambda: format_tree(rng, depth - rng.choice([1, 1, 2]), titles)  # noqa: E731
    other = lambda: rng.choice([{"type": "integer", "minimum": 1}, {"type": "null"}, {"type": "boolean"}, {"type": "string", "maxLength": 2},  # noqa: E731
                                format_leaf(rng)])

    def title():
        titles[0] += 1
        return f"Amb{titles[0]}"

    shape = rng.choice(["leaf", "items", "items", "tuple", "contains", "props", "props", "addProps", "patProps", "propNames",
                        "deps", "anyOf", "oneOf", "allOf", "not"])
    if shape == "leaf":
        return format_leaf(rng)
    if shape == "items":
        s = {"type": "array", "items": sub()}
        if rng.random() < 0.5:
            s["minItems"] = 1
        return s
    if shape == "tuple":
        s = {"type": "array", "items": [sub(), other()]}
        if rng.random() < 0.5:
            s["additionalItems"] = format_leaf(rng)
        return s
    if shape == "contains":
        return {"type": "array", "contains": sub()}
    if shape == "props":
        names = rng.sample(gen.PROP_NAMES, rng.choice([1, 2, 3]))
        s = {"type": "object", "title": title(), "properties": {names[0]: sub()}}
        for n in names[1:]:
            s["properties"][n] = other()
        if rng.random() < 0.6:
            s["required"] = [names[0]]
        return s
    if shape == "addProps":
        return {"type": "object", "title": title(), "additionalProperties": sub()}
    if shape == "patProps":
        return {"type": "object", "title": title(), "patternProperties": {rng.choice(["^a", "b$", "."]): sub()}}
    if shape == "propNames":
        return {"type": "object", "title": title(), "propertyNames": format_leaf(rng)}
    if shape == "deps":
        return {"type": "object", "title": title(), "dependencies": {rng.choice(["a", "b"]): sub()}}
    if shape in ("anyOf", "oneOf", "allOf"):
        members = [sub()] + [other() for _ in range(rng.choice([0, 1, 2]))]
        rng.shuffle(members)
        return {shape: members}
    return {"not": sub()}


def sprinkle_formats(rng, schema):
    """Give the string-constraining sub-schemas of a generated schema formats from the open vocabulary (in place)."""
    count = 0
    if isinstance(schema, dict):
        t = schema.get("type")
        stringy = t == "string" or (isinstance(t, list) and "string" in t) or any(k in schema for k in ("minLength", "maxLength", "pattern", "format"))
        if "format" in schema or (stringy and rng.random() < 0.7) or (t is None and rng.random() < 0.1):
            schema["format"] = format_name(rng)
            count += 1
        for key, v in list(schema.items()):
            if key in ("items", "additionalItems", "contains", "additionalProperties", "propertyNames", "not"):
                if isinstance(v, list):
                    count += sum(sprinkle_formats(rng, x) for x in v)
                else:
                    count += sprinkle_formats(rng, v)
            elif key in ("anyOf", "oneOf", "allOf") and isinstance(v, list):
                count += sum(sprinkle_formats(rng, x) for x in v)
            elif key in ("properties", "patternProperties", "dependencies") and isinstance(v, dict):
                count += sum(sprinkle_formats(rng, x) for x in v.values())
    return count


def ambient_family(ctx, rng, drv, sg, vg, out, stats, n):
    """Histories under an ambient warnings regime on format-rich trees; every value is validated (at least) twice."""
    titles = [0]
    for i in range(n):
        if i % 2 == 0:
            schema = format_tree(rng, rng.choice([1, 2, 2, 3]), titles)
            origin = "ambient-directed"
        else:
            schema = sg.schema()
            if not sprinkle_formats(rng, schema):
                schema = {"anyOf": [schema, format_leaf(rng)]} if rng.random() < 0.5 else {"type": "array", "items": format_leaf(rng)}
            origin = "ambient-generated"
        status, el = core.real_parse(schema)
        if status != "ok":
            stats["ambient-parse-" + status] = stats.get("ambient-parse-" + status, 0) + 1
            continue
        dump = core.dump_elem(el)
        values = vg.values(schema, 7) + [rng.choice(gen.STRINGS), core.NP]
        regime = rng.choice(REGIMES)
        stats[origin] = stats.get(origin, 0) + 1
        stats["ambient-regime-" + regime] = stats.get("ambient-regime-" + regime, 0) + 1
        _, fmts = core.elem_patterns_formats(el)
        for f in fmts:
            kind = "registered" if f in REGISTERED_FORMATS else "well-known" if f in WELL_KNOWN_FORMATS else "novel"
            stats["ambient-format-" + kind] = stats.get("ambient-format-" + kind, 0) + 1
        sub = {}
        check_tree(drv, el, dump, values, out, sub, origin, regime=regime, repeat=None)
        for k, v in sub.items():
            # verdicts of this family are counted apart: `warning` is a verdict only a non-default regime can give
            stats["ambient-" + k] = stats.get("ambient-" + k, 0) + v


def run(ctx, scale=1.0):
    rng = random.Random(ctx["seed"] + 8)
    out = Outcome()
    out.rule = ("element trees: half parsed from generated schemas, half built through the DSL from generated dumps (explicit required "
                "lists next to required properties, renamed properties, shared shapes); 8 values + 3 repeats per tree; a case is one call in "
                "its history; all are non-trivial; distinct by SHA-256 of (element dump, value); before them the ambient family: trees "
                "with `format` names from an open vocabulary at every sub-schema position (half assembled, half generated schemas with "
                "formats sprinkled in), 9 values each validated twice, 3 of 4 histories with warnings escalated to errors")
    stats = {}
    drv = core.Driver()
    try:
        sg, vg, dg = SchemaGen(rng), ValueGen(rng), dsl.DumpGen(rng)
        # first of all (its calls must be able to be the first of their kind in the process)
        ambient_family(ctx, rng, drv, sg, vg, out, stats, int(N_AMBIENT[ctx["tier"]] * scale))
        n = int(N_CASES[ctx["tier"]] * scale)
        for i in range(n):
            if i % 2 == 0:
                schema = sg.schema()
                status, el = core.real_parse(schema)
                if status != "ok":
                    continue
                dump = core.dump_elem(el)
                values = vg.values(schema, 8) + [core.NP]
                origin = "parsed"
            else:
                dump = dg.dump(3)
                el = dsl.build(dump)
                schema = dump_to_schema(dump)
                values = vg.values(schema, 8) + [core.NP]
                origin = "dsl"
            stats[origin] = stats.get(origin, 0) + 1
            check_tree(drv, el, dump, values, out, stats, origin)
        # the shape of the repaired defect: explicit required next to required properties, class and subclass
        from statham.schema.elements import Element, Object
        from statham.schema.property import Property
        el = Element(required=["a"], properties={"b": Property(Element(), required=True)})
        check_tree(drv, el, core.dump_elem(el), [{"a": 1, "b": 2}, {"a": 1}, {}, {"b": 1}], out, stats, "witness-F01")
    finally:
        drv.close()
    out.stats = stats
    return out


def search(ctx, reason):
    sub = dict(ctx)
    sub["seed"] = ctx["seed"] + 15485863
    found = run(sub, scale=3.0 if ctx["tier"] == "quick" else 1.0)
    return found.failures[0] if found.failures else None


def replay_finding(finding):
    w = finding.get("witness")
    if not w or "element" not in w:
        return False
    el = dsl.build(w["element"])
    out, stats = Outcome(), {}
    drv = core.Driver()
    try:
        vals = [core.NP if v == {"np": 1} else dsl.dec_val(v) for v in w["values"]]
        check_tree(drv, el, w["element"], vals, out, stats, "replay", regime=w.get("regime", "ignore"))
    finally:
        drv.close()
    return bool(out.failures)


def replay(payload):
    case = payload.get("failure", {}).get("case")
    if not case:
        return True
    return not replay_finding({"witness": {"element": case["element"], "values": case["values"], "regime": case.get("regime", "ignore")}})
