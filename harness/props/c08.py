"""C08 — validation is pure and repeatable.

Correspondence: heap state-diff around every call (everything reachable from the element tree,
private attributes included, plus the library's module state), the input value, and the model's
view of the tree (`dump_elem`) before and after; results of repeated calls.  Oracle: equality
with a fresh copy, `serialize_json` / `serialize_python` text before and after."""
import copy
import random

from harness import core, dsl, statediff
from harness.framework import Outcome
from harness.gen import SchemaGen, ValueGen

ID = "C08"
TIE_MODULES = ["StathamModel.Tie"]
ASSUMPTIONS = [
    "`_Property.parent` / `_PropertyDict._parent` identities are not compared (they feed error messages only)",
    "values are JSON data (dict/list/str/int/float/bool/None)",
]
N_CASES = {"quick": 500, "thorough": 15000}


def safe(fn, *a, **k):
    try:
        return ("ok", fn(*a, **k))
    except Exception as exc:  # noqa: BLE001
        return ("exc", type(exc).__name__)


def observables(el):
    from statham.serializers import serialize_json, serialize_python
    return {
        "json": safe(lambda: core.enc_val(_plain(serialize_json(el)))),
        "python": safe(lambda: serialize_python(el)),
        "repr": safe(lambda: repr(el)),
    }


def _plain(x):
    if isinstance(x, dict):
        return {k: _plain(v) for k, v in x.items()}
    if isinstance(x, (list, tuple)):
        return [_plain(v) for v in x]
    return x


def dump_to_schema(d):
    """A rough schema for value generation only."""
    out = {}
    kw = d.get("kw", {})
    tmap = {"String": "string", "Integer": "integer", "Number": "number", "Boolean": "boolean", "Null": "null", "Array": "array", "Object": "object"}
    if d["cls"] in tmap:
        out["type"] = tmap[d["cls"]]
    for k in ("minimum", "maximum", "minLength", "maxLength", "minItems", "maxItems"):
        if k in kw:
            out[k] = dsl.dec_val(kw[k])
    if "const" in kw:
        out["const"] = dsl.dec_val(kw["const"])
    if "enum" in kw:
        out["enum"] = [dsl.dec_val(x) for x in kw["enum"]]
    if kw.get("itemsKind") == "single":
        out["items"] = dump_to_schema(d["items"][0])
    elif kw.get("itemsKind") == "tuple":
        out["items"] = [dump_to_schema(x) for x in d.get("items", [])]
    if "props" in d:
        out["properties"] = {(k.get("source") or k["name"]): dump_to_schema(s) for k, s in d["props"]}
        out["required"] = [(k.get("source") or k["name"]) for k, _ in d["props"] if k.get("required")]
    if "required" in kw:
        out["required"] = list(dict.fromkeys(out.get("required", []) + kw["required"]))
    if d["cls"] in ("AnyOf", "OneOf", "AllOf"):
        out[d["cls"][0].lower() + d["cls"][1:]] = [dump_to_schema(x) for x in d["elements"]]
    return out


def check_tree(drv, el, dump, values, out, stats, origin):
    """Run the purity checks on one element tree with a sequence of values."""
    fresh = safe(dsl.build, dump)
    eq0 = fresh[0] == "ok" and (el == fresh[1])
    snap0 = statediff.snapshot(el)
    mod0 = statediff.module_state()
    obs0 = observables(el)
    enc_vals = []
    for v in values:
        try:
            enc_vals.append(core.enc_arg(v))
        except (TypeError, ValueError):
            enc_vals.append(None)
    model = None
    if all(e is not None for e in enc_vals):
        pats, fmts = core.elem_patterns_formats(el)
        texts = set()
        for v in values:
            if not isinstance(v, core.NotPassed):
                core.all_strings(v, texts)
        core.all_strings(dump, texts)
        rep = drv.ask({"op": "elem_call", "elem": dump, "args": enc_vals, "tables": core.make_tables(pats, fmts, sorted(texts))})
        if "error" not in rep:
            model = rep["results"]
        else:
            stats["driver-error"] = stats.get("driver-error", 0) + 1
    seq = list(values) + list(values[:3])
    results = {}
    for idx, v in enumerate(seq):
        case = {"origin": origin, "element": dump, "values": [core.enc_arg(x) if not isinstance(x, core.NotPassed) else {"np": 1} for x in seq[:idx + 1]]}
        vcopy = copy.deepcopy(v)
        real = core.real_call(el, v)
        out.note_case({"element": dump, "value": case["values"][-1]}, True)
        stats["verdict-" + real["r"]] = stats.get("verdict-" + real["r"], 0) + 1
        if real.pop("input_altered", False) or (not isinstance(v, core.NotPassed) and core.enc_val(v) != core.enc_val(vcopy)):
            out.failures.append({"case": case, "what": "the input value was modified by validation", "finding": None})
        snap = statediff.snapshot(el)
        if snap != snap0:
            out.failures.append({"case": case, "what": "element tree state changed: " + "; ".join(statediff.diff(snap0, snap)[:3]), "finding": None})
            snap0 = snap
        mod = statediff.module_state()
        if mod != mod0:
            out.failures.append({"case": case, "what": "library module state changed", "finding": None})
            mod0 = mod
        key = repr(case["values"][-1])
        if key in results and results[key] != real:
            out.failures.append({"case": case, "what": f"repeated call differs: {results[key]} then {real}", "finding": None})
        results.setdefault(key, real)
        if model is not None and idx < len(values) and model[idx]["r"] != "crash" and real["r"] in ("ok", "reject") and model[idx] != real:
            out.disagreements.append({"what": "call result (DSL tree)", "impl": real, "model": model[idx], **case})
    out.traces_validated += 1
    after = core.dump_elem(el)
    case = {"origin": origin, "element": dump, "values": [core.enc_arg(x) if not isinstance(x, core.NotPassed) else {"np": 1} for x in seq]}
    if after != dump:
        out.failures.append({"case": case, "what": "the element's configuration changed (dump before != dump after)", "finding": None})
    obs1 = observables(el)
    for k in obs0:
        if obs0[k] != obs1[k]:
            out.failures.append({"case": case, "what": f"{k} serialization changed after validation", "finding": None})
    if eq0 and not (el == fresh[1]):
        out.failures.append({"case": case, "what": "element no longer equals a fresh copy", "finding": None})


def run(ctx, scale=1.0):
    rng = random.Random(ctx["seed"] + 8)
    out = Outcome()
    out.rule = ("element trees: half parsed from generated schemas, half built through the DSL from generated dumps (explicit required "
                "lists next to required properties, renamed properties, shared shapes); 8 values + 3 repeats per tree; a case is one call in "
                "its history; all are non-trivial; distinct by SHA-256 of (element dump, value)")
    stats = {}
    drv = core.Driver()
    try:
        sg, vg, dg = SchemaGen(rng), ValueGen(rng), dsl.DumpGen(rng)
        n = int(N_CASES[ctx["tier"]] * scale)
        for i in range(n):
            if i % 2 == 0:
                schema = sg.schema()
                status, el = core.real_parse(schema)
                if status != "ok":
                    continue
                dump = core.dump_elem(el)
                values = vg.values(schema, 8) + [core.NP]
                origin = "parsed"
            else:
                dump = dg.dump(3)
                el = dsl.build(dump)
                schema = dump_to_schema(dump)
                values = vg.values(schema, 8) + [core.NP]
                origin = "dsl"
            stats[origin] = stats.get(origin, 0) + 1
            check_tree(drv, el, dump, values, out, stats, origin)
        # the shape of the repaired defect: explicit required next to required properties, class and subclass
        from statham.schema.elements import Element, Object
        from statham.schema.property import Property
        el = Element(required=["a"], properties={"b": Property(Element(), required=True)})
        check_tree(drv, el, core.dump_elem(el), [{"a": 1, "b": 2}, {"a": 1}, {}, {"b": 1}], out, stats, "witness-F01")
    finally:
        drv.close()
    out.stats = stats
    return out


def search(ctx, reason):
    sub = dict(ctx)
    sub["seed"] = ctx["seed"] + 15485863
    found = run(sub, scale=3.0 if ctx["tier"] == "quick" else 1.0)
    return found.failures[0] if found.failures else None


def replay_finding(finding):
    w = finding.get("witness")
    if not w or "element" not in w:
        return False
    el = dsl.build(w["element"])
    out, stats = Outcome(), {}
    drv = core.Driver()
    try:
        vals = [core.NP if v == {"np": 1} else dsl.dec_val(v) for v in w["values"]]
        check_tree(drv, el, w["element"], vals, out, stats, "replay")
    finally:
        drv.close()
    return bool(out.failures)


def replay(payload):
    case = payload.get("failure", {}).get("case")
    if not case:
        return True
    return not replay_finding({"witness": {"element": case["element"], "values": case["values"]}})
