"""C11 — class declaration order is a complete topological order; cycles are refused.

Correspondence: the exact sequence `orderer` yields vs the Lean model (`ordererGraph`) on random
class graphs (chains, diamonds, shared leaves, several roots, self- and mutual cycles) with every
dependency placed in a random keyword position; on element trees `ordererTree`.
Oracle: the four clauses checked directly on the real output (every reachable class exactly once,
after everything it depends on; cyclic => SchemaParseError; termination under a time limit).
Aliased element graphs: the non-object elements a dependency passes through (arrays, keyword-holding elements, anyOf/oneOf/allOf,
not) are nodes of their own, so one such instance can be referred to from several places (what `$ref` produces) and can lie on a
reference loop, with or without a class on it; same correspondence, same four clauses against reachability in the graph built.
Sibling sub-schemas: a dependency rarely sits alone under its keyword - the same graphs with class-free sub-schemas of every kind
(`false`, `true`, typed, array, composition) put before / after / around every dependency in the same dict or list and under the
holder's other keywords; they add no class and no edge, so the ground truth is unchanged.
How a class comes to be: by a metaclass call, by a `class` statement in a factory with the name assigned afterwards, by a metaclass
call under a common name renamed afterwards, and out of the parser (JSON schemas with colliding titles - the parser's `Item`,
`Item_1` - shared sub-schemas that it merges into one class, `false` / `true` sub-schemas); the statement speaks about classes, and
the orderer's documented assumption is only that their *names* differ."""
import copy
import random
import re
import signal

from statham.schema.elements import AllOf, AnyOf, Array, Element, Not, Nothing, Null, Object, OneOf, String
from statham.schema.constants import NotPassed
from statham.schema.parser import parse
from statham.schema.elements.meta import ObjectClassDict, ObjectMeta
from statham.schema.exceptions import SchemaParseError
from statham.schema.property import Property
from statham.serializers.orderer import get_object_classes, orderer

from harness import core
from harness.framework import Outcome

ID = "C11"
TIE_MODULES = ["StathamModel.Tie"]
PROOF_MODULES = ['StathamModel.Lemmas.ReachAdequate', 'StathamModel.Lemmas.TreeGraph']
ASSUMPTIONS = ["class names are unique within a graph (documented assumption of the orderer)"]
N_GRAPHS = {"quick": 600, "thorough": 20000}
POSITIONS = ["property", "items", "tuple-items", "additionalItems", "contains", "patternProperties", "additionalProperties",
             "propertyNames", "dependencies", "anyOf", "oneOf", "allOf", "not", "nested"]


class Timeout(Exception):
    pass


def _alarm(_signum, _frame):
    raise Timeout()


def wire(rng, classes, u, v, position, counter):
    """Make class u depend on class v through `position` (by mutation, so cycles are possible)."""
    U, V = classes[u], classes[v]
    key = f"e{counter}"
    plain = position.startswith("plain:")      # same key for every such edge, no extras: lets two classes have identical bodies
    if plain:
        position, key = position[6:], "k"
    if position == "property":
        U.properties[key] = Property(V)
    elif position == "items":
        U.properties[key] = Property(Array(V))
    elif position == "tuple-items":
        U.properties[key] = Property(Array([Element(), V]))
    elif position == "additionalItems":
        # beside tuple items, beside a single item schema, and on its own (the keyword is held and printed in all three)
        form = counter % 3
        if form == 0:
            U.properties[key] = Property(Element(items=[Element()], additionalItems=V))
        elif form == 1:
            U.properties[key] = Property(Array(Element(), additionalItems=V))
        else:
            U.properties[key] = Property(Element(additionalItems=V))
    elif position == "contains":
        U.properties[key] = Property(Element(contains=V))
    elif position == "patternProperties":
        pp = U.patternProperties if isinstance(U.patternProperties, dict) else {}
        U.patternProperties = {**pp, "^" + key: V}
    elif position == "additionalProperties":
        if isinstance(U.additionalProperties, bool):
            U.additionalProperties = V
        else:
            U.properties[key] = Property(Element(additionalProperties=V))
    elif position == "propertyNames":
        U.properties[key] = Property(Element(propertyNames=V))
    elif position == "dependencies":
        dd = U.dependencies if isinstance(U.dependencies, dict) else {}
        U.dependencies = {**dd, key: V, key + "n": ["x"]}
    elif position == "anyOf":
        U.properties[key] = Property(AnyOf(V, Element()))
    elif position == "oneOf":
        U.properties[key] = Property(OneOf(Element(), V))
    elif position == "allOf":
        U.properties[key] = Property(AllOf(V))
    elif position == "not":
        U.properties[key] = Property(Not(V))
    else:  # nested several levels deep
        U.properties[key] = Property(Array(AnyOf(Element(properties={"z": Property(Not(Array([V])))}), Element())))
    # a JSON property may be *named* like the keyword the dependency sits under: the traversal must still read the keyword
    # (decided by the edge's number, not by the PRNG, so that a recorded graph replays exactly)
    if plain:
        return
    if position in ("patternProperties", "additionalProperties", "propertyNames", "dependencies") and counter % 2 == 0:
        U.properties[position] = Property(Element())
    elif counter % 7 == 3:
        names = ["properties", "items", "default", "required", "elements", "element", "contains"]
        U.properties[names[counter % len(names)]] = Property(Element())


def own_children(el, seen=None):
    """Independent walker: every element strictly below `el`, not descending below classes twice."""
    out = []
    stack = [el]
    seen = set()
    first = True
    while stack:
        x = stack.pop()
        if id(x) in seen:
            continue
        seen.add(id(x))
        if not first:
            out.append(x)
        first = False
        subs = []
        for name in ("items", "additionalItems", "contains", "additionalProperties", "propertyNames", "element"):
            v = getattr(x, name, None)
            if isinstance(v, Element):
                subs.append(v)
            elif isinstance(v, list):
                subs += [i for i in v if isinstance(i, Element)]
        props = getattr(x, "properties", None)
        if isinstance(props, dict):
            subs += [p.element for p in props.values()]
        for name in ("patternProperties", "dependencies"):
            v = getattr(x, name, None)
            if isinstance(v, dict):
                subs += [i for i in v.values() if isinstance(i, Element)]
        v = getattr(x, "elements", None)
        if isinstance(v, list):
            subs += [i for i in v if isinstance(i, Element)]
        stack.extend(subs)
    return out


def direct_class_children(cls):
    """nearest descendant classes (independent of get_children)"""
    out, stack, seen = [], [cls], {id(cls)}
    while stack:
        x = stack.pop()
        for sub in _subs(x):
            if id(sub) in seen:
                if isinstance(sub, ObjectMeta) and sub is cls and sub.__name__ not in out:
                    out.append(sub.__name__)
                continue
            seen.add(id(sub))
            if isinstance(sub, ObjectMeta):
                if sub.__name__ not in out:
                    out.append(sub.__name__)
            else:
                stack.append(sub)
    return out


def _subs(x):
    subs = []
    for name in ("items", "additionalItems", "contains", "additionalProperties", "propertyNames", "element"):
        v = getattr(x, name, None)
        if isinstance(v, Element):
            subs.append(v)
        elif isinstance(v, list):
            subs += [i for i in v if isinstance(i, Element)]
    props = getattr(x, "properties", None)
    if isinstance(props, dict):
        subs += [p.element for p in props.values()]
    for name in ("patternProperties", "dependencies"):
        v = getattr(x, name, None)
        if isinstance(v, dict):
            subs += [i for i in v.values() if isinstance(i, Element)]
    v = getattr(x, "elements", None)
    if isinstance(v, list):
        subs += [i for i in v if isinstance(i, Element)]
    return subs


def run_orderer(roots, objs=None):
    old = signal.signal(signal.SIGALRM, _alarm)
    signal.alarm(5)
    got = []
    try:
        # stepped one class at a time, the way a consumer that writes declarations as they arrive sees it
        for c in orderer(*roots):
            got.append(c.__name__)
            if objs is not None:
                objs.append(c)
        return {"r": "ok", "order": got}
    except SchemaParseError:
        return {"r": "unresolvable", **({"yielded_before_error": got} if got else {})}
    except Timeout:
        return {"r": "timeout"}
    except RecursionError:
        return {"r": "recursion"}
    except Exception as exc:  # noqa: BLE001
        return {"r": "exc:" + type(exc).__name__}
    finally:
        signal.alarm(0)
        signal.signal(signal.SIGALRM, old)


# ---------------------------------------------------------------------------------------------------------------------------
# How a class comes to be. The orderer's documented assumption is that class *names* (`__name__`) are unique; nothing is promised
# about `__qualname__`, the defining scope, or the name the class had when it was created.
MADE = ["meta", "template", "renamed"]


def _from_template(name):
    class Template(Object):
        pass
    Template.__name__ = name            # named after creation: every such class shares one __qualname__
    return Template


def make_classes(n, made=None):
    if made in (None, "meta"):
        return [ObjectMeta(f"C{i}", (Object,), ObjectClassDict()) for i in range(n)]
    if made == "template":
        return [_from_template(f"C{i}") for i in range(n)]
    if made == "renamed":               # created under a common name, renamed afterwards (what the parser does on a title clash)
        classes = [ObjectMeta("Model", (Object,), ObjectClassDict()) for i in range(n)]
        for i, c in enumerate(classes):
            c.__name__ = f"C{i}"
        return classes
    raise ValueError(made)


# ---------------------------------------------------------------------------------------------------------------------------
# Sibling sub-schemas: class-free elements of every kind beside the dependencies
SIBLING_KINDS = ["false", "true", "string", "null", "array", "composition"]
SIBLING_WHERE = ["before", "after", "around"]


def make_sibling(kind):
    if kind == "false":
        return Nothing()
    if kind == "true":
        return Element()
    if kind == "string":
        return String()
    if kind == "null":
        return Null()
    if kind == "array":
        return Array(String())
    if kind == "composition":
        return AnyOf(String(), Nothing())
    raise ValueError(kind)


def _around_dict(d, kind, where, wrap, prefix):
    """Rebuild dict `d` in place with a sibling entry in front of and/or behind what it holds."""
    held = list(d.items())
    d.clear()
    if where in ("before", "around"):
        d[prefix + "sb"] = wrap(make_sibling(kind))
    for k, v in held:
        d[k] = v
    if where in ("after", "around"):
        d[prefix + "sa"] = wrap(make_sibling(kind))


def _around_list(lst, kind, where):
    if where in ("before", "around"):
        lst.insert(0, make_sibling(kind))
    if where in ("after", "around"):
        lst.append(make_sibling(kind))


def add_siblings(starts, kind, where):
    """Put class-free sibling elements of `kind` beside everything held by every element reachable from `starts` (classes and
    non-object elements alike): in front of / behind the entries of each dict- or list-valued keyword in use, and under the
    element's keywords that are not in use. Values already held are never replaced, so no class and no dependency is added or lost."""
    todo, seen, found = list(starts), set(), []
    while todo:
        x = todo.pop()
        if id(x) in seen:
            continue
        seen.add(id(x))
        found.append(x)
        todo.extend(_subs(x))
    fresh = lambda e: e                                                    # noqa: E731
    for x in found:
        props = getattr(x, "properties", None)
        if isinstance(props, dict) and (props or isinstance(x, ObjectMeta)):
            _around_dict(props, kind, where, Property, "")
        for name, prefix in (("patternProperties", "^"), ("dependencies", "")):
            v = getattr(x, name, None)
            if isinstance(v, dict):
                _around_dict(v, kind, where, fresh, prefix)
            elif isinstance(v, NotPassed) and not isinstance(x, (AnyOf, OneOf, AllOf, Not)):
                setattr(x, name, {prefix + "so": make_sibling(kind)})
        for name in ("items", "elements"):
            v = getattr(x, name, None)
            if isinstance(v, list):
                _around_list(v, kind, where)
        if isinstance(x, (AnyOf, OneOf, AllOf, Not)):
            continue
        for name in ("items", "contains", "propertyNames"):
            if isinstance(getattr(x, name, None), NotPassed) and not (name != "propertyNames" and isinstance(x, ObjectMeta)):
                setattr(x, name, make_sibling(kind))


def count_siblings(stats, siblings, made, prefix=""):
    if siblings:
        key = f"{prefix}siblings-{siblings[0]}-{siblings[1]}"
        stats[key] = stats.get(key, 0) + 1
    if made not in (None, "meta"):
        key = f"{prefix}classes-made-{made}"
        stats[key] = stats.get(key, 0) + 1


def check_graph(drv, n, edges, positions, root_ids, out, stats, rng, siblings=None, made=None):
    classes = make_classes(n, made)
    for k, ((u, v), pos) in enumerate(zip(edges, positions)):
        wire(rng, classes, u, v, pos, k)
    if siblings:
        add_siblings(classes, siblings[0], siblings[1])
    roots = [classes[i] for i in root_ids]
    case = {"classes": n, "edges": [[u, v, p] for (u, v), p in zip(edges, positions)], "roots": root_ids}
    if siblings:
        case["siblings"] = list(siblings)
    if made not in (None, "meta"):
        case["made"] = made
    count_siblings(stats, siblings, made)
    real = run_orderer(roots)
    # ground truth, computed by the harness on the graph it built
    adj = {i: sorted({v for (u, v) in edges if u == i}) for i in range(n)}
    reach = set()
    stack = list(root_ids)
    while stack:
        x = stack.pop()
        if x in reach:
            continue
        reach.add(x)
        stack.extend(adj[x])

    def on_cycle(i):
        seen, st = set(), list(adj[i])
        while st:
            x = st.pop()
            if x == i:
                return True
            if x not in seen:
                seen.add(x)
                st.extend(adj[x])
        return False
    cyclic = any(on_cycle(i) for i in reach)
    out.note_case(case, len(edges) >= 2)
    stats["cyclic" if cyclic else "acyclic"] = stats.get("cyclic" if cyclic else "acyclic", 0) + 1
    # model
    try:
        order = [c.__name__ for c in get_object_classes(*roots)]
    except Exception:  # noqa: BLE001
        order = [f"C{i}" for i in root_ids]
    model_edges = [[f"C{i}", direct_class_children(classes[i])] for i in range(n)]
    rep = drv.ask({"op": "order_graph", "order": order, "edges": model_edges})
    if "error" not in rep:
        out.traces_validated += 1
        if rep != real:
            out.disagreements.append({"what": "declaration order", "impl": real, "model": rep, **case})
    # oracle
    if real["r"] in ("timeout", "recursion") or real["r"].startswith("exc:"):
        out.failures.append({"case": case, "what": f"orderer ended with {real['r']}", "finding": None})
        return
    if cyclic:
        if real["r"] != "unresolvable":
            out.failures.append({"case": case, "what": f"cyclic dependencies but orderer returned {real}", "finding": None})
        elif real.get("yielded_before_error"):
            out.failures.append({"case": case, "what": f"cyclic dependencies: a partial order {real['yielded_before_error']} was yielded before the schema-parse error", "finding": None})
        return
    if real["r"] != "ok":
        out.failures.append({"case": case, "what": "acyclic graph refused as unresolvable", "finding": None})
        return
    names = real["order"]
    want = {f"C{i}" for i in reach}
    if len(names) != len(set(names)):
        out.failures.append({"case": case, "what": f"a class is yielded twice: {names}", "finding": None})
    elif set(names) != want:
        out.failures.append({"case": case, "what": f"yielded {sorted(names)}, reachable classes are {sorted(want)}", "finding": None})
    else:
        pos = {nm: i for i, nm in enumerate(names)}
        for (u, v) in edges:
            if u in reach and pos[f"C{v}"] > pos[f"C{u}"]:
                out.failures.append({"case": case, "what": f"C{u} is declared before C{v}, which it depends on", "finding": None})
                break


# ---------------------------------------------------------------------------------------------------------------------------
# Aliased element graphs: non-object elements as shared nodes of the graph
WRAPPER_KINDS = ["array", "element", "anyOf", "oneOf", "allOf", "not"]
WRAPPER_POSITIONS = {
    "array": ["items", "tuple-items", "additionalItems", "contains"],
    "element": ["items", "tuple-items", "additionalItems", "contains", "property", "patternProperties", "additionalProperties",
                "propertyNames", "dependencies"],
    "anyOf": ["elements"], "oneOf": ["elements"], "allOf": ["elements"], "not": ["element"],
}
SINGLE_SLOTS = ("items", "additionalItems", "contains", "additionalProperties", "propertyNames", "element")
N_ALIASED = {"quick": 400, "thorough": 12000}


def make_wrapper(kind):
    """A non-object element with nothing of interest below it yet (children are attached by mutation, so loops are possible)."""
    if kind == "array":
        return Array(Element())
    if kind == "element":
        return Element()
    if kind == "not":
        return Not(Element())
    return {"anyOf": AnyOf, "oneOf": OneOf, "allOf": AllOf}[kind](Element())


def attach(W, V, position, counter, slots):
    """Put element V directly below the non-object element W at `position`. `slots` records what each keyword of W holds, as the
    harness set it (a single-valued keyword set twice keeps the last value): this, not a walk of W, is the ground truth."""
    key = f"e{counter}"
    if position == "items":
        W.items = V
        slots["items"] = [V]
        slots.pop("tuple-items", None)
    elif position == "tuple-items":
        if isinstance(W.items, list):
            W.items.append(V)
        else:
            W.items = [Element(), V]
            slots.pop("items", None)
        slots.setdefault("tuple-items", []).append(V)
    elif position in ("additionalItems", "contains", "additionalProperties", "propertyNames", "element"):
        setattr(W, position, V)
        slots[position] = [V]
    elif position == "elements":
        W.elements.append(V)
        slots.setdefault("elements", []).append(V)
    elif position == "property":
        if isinstance(W.properties, dict):
            W.properties[key] = Property(V)
        else:
            W.properties = {key: Property(V)}
        slots.setdefault("property", []).append(V)
    elif position == "patternProperties":
        pp = W.patternProperties if isinstance(W.patternProperties, dict) else {}
        W.patternProperties = {**pp, "^" + key: V}
        slots.setdefault("patternProperties", []).append(V)
    elif position == "dependencies":
        dd = W.dependencies if isinstance(W.dependencies, dict) else {}
        W.dependencies = {**dd, key: V, key + "n": ["x"]}
        slots.setdefault("dependencies", []).append(V)
    else:
        raise ValueError(position)


def check_aliased(drv, n, kinds, links, root_ids, out, stats, siblings=None, made=None):
    """Nodes 0..n-1 are classes C0.., nodes n.. are non-object elements of the given kinds; a link [s, d, position] puts node d
    below node s (a class source goes through `wire`, i.e. any of the 14 positions, possibly behind fresh elements of its own;
    a non-object source holds d directly under one of its own keywords). Roots may be classes or non-object elements."""
    classes = make_classes(n, made)
    nodes = classes + [make_wrapper(k) for k in kinds]
    total = len(nodes)
    slots = {i: {} for i in range(n, total)}
    class_links = []
    for k, (s, d, pos) in enumerate(links):
        if s < n:
            wire(None, nodes, s, d, pos, k)
            class_links.append((s, d))
        else:
            attach(nodes[s], nodes[d], pos, k, slots[s])
    if siblings:
        add_siblings(nodes, siblings[0], siblings[1])       # after the last link: nothing the harness attached is replaced
    index = {id(x): i for i, x in enumerate(nodes)}
    edges = set(class_links)
    for s, held in slots.items():
        for values in held.values():
            edges.update((s, index[id(v)]) for v in values)
    adj = {i: sorted(d for (s, d) in edges if s == i) for i in range(total)}

    def below(i):
        """nodes reachable from node i by one or more links"""
        seen, st = set(), list(adj[i])
        while st:
            x = st.pop()
            if x not in seen:
                seen.add(x)
                st.extend(adj[x])
        return seen
    under = {i: below(i) for i in range(total)}
    reach = {i for i in root_ids if i < n}
    for r in root_ids:
        reach |= {x for x in under[r] if x < n}
    deps = {i: {x for x in under[i] if x < n} for i in reach}
    cyclic = any(i in deps[i] for i in reach)
    roots = [nodes[i] for i in root_ids]
    case = {"family": "aliased", "classes": n, "wrappers": list(kinds), "links": [list(l) for l in links], "roots": list(root_ids)}
    if siblings:
        case["siblings"] = list(siblings)
    if made not in (None, "meta"):
        case["made"] = made
    count_siblings(stats, siblings, made, "aliased-")
    out.note_case(case, len(links) >= 2)

    def count(name):
        stats[name] = stats.get(name, 0) + 1
    count("aliased-graphs")
    count("aliased-cyclic" if cyclic else "aliased-acyclic")
    referrers = {i: {s for (s, d) in edges if d == i} for i in range(n, total)}
    shared = [i for i in range(n, total) if len(referrers[i]) >= 2 and (i in root_ids or any(i in under[r] for r in root_ids))]
    looped = [i for i in range(n, total) if i in under[i]]
    if shared:
        count("aliased-one-instance-with-several-referrers")
    if looped:
        count("aliased-non-object-element-on-a-reference-loop")
        if not cyclic and any(i in root_ids or any(i in under[r] for r in root_ids) for i in looped):
            count("aliased-reachable-loop-without-a-class-on-it")
    if any(i in looped and any(s not in under[i] for s in referrers[i]) for i in shared):
        count("aliased-loop-element-also-referred-to-from-outside-the-loop")
    if any(r >= n for r in root_ids):
        count("aliased-non-object-root")
    for s, d, pos in links:
        count("alias-pos-" + ("class" if s < n else kinds[s - n]) + "." + pos)

    real = run_orderer(roots)
    # model: the class graph an independent walk finds in the objects built
    try:
        order = [c.__name__ for c in get_object_classes(*roots)]
    except Exception:  # noqa: BLE001
        order = [f"C{i}" for i in root_ids if i < n]
    model_edges = [[f"C{i}", direct_class_children(classes[i])] for i in range(n)]
    rep = drv.ask({"op": "order_graph", "order": order, "edges": model_edges})
    if "error" not in rep:
        out.traces_validated += 1
        if rep != real:
            out.disagreements.append({"what": "declaration order (aliased element graph)", "impl": real, "model": rep, **case})
    # oracle: the statement's clauses against reachability in the graph as built
    if real["r"] in ("timeout", "recursion") or real["r"].startswith("exc:"):
        out.failures.append({"case": case, "what": f"orderer ended with {real['r']}", "finding": None})
        return
    if cyclic:
        on = sorted(f"C{i}" for i in reach if i in deps[i])
        if real["r"] != "unresolvable":
            out.failures.append({"case": case, "what": f"classes {on} depend on themselves but orderer returned {real}", "finding": None})
        elif real.get("yielded_before_error"):
            out.failures.append({"case": case, "what": f"cyclic dependencies: a partial order {real['yielded_before_error']} was yielded before the schema-parse error", "finding": None})
        return
    if real["r"] != "ok":
        out.failures.append({"case": case, "what": "no class depends on itself, yet the graph was refused as unresolvable", "finding": None})
        return
    names = real["order"]
    want = {f"C{i}" for i in reach}
    if len(names) != len(set(names)):
        out.failures.append({"case": case, "what": f"a class is yielded twice: {names}", "finding": None})
    elif set(names) != want:
        out.failures.append({"case": case, "what": f"yielded {sorted(names)}, reachable classes are {sorted(want)}", "finding": None})
    else:
        pos = {nm: i for i, nm in enumerate(names)}
        for u in sorted(reach):
            late = sorted(v for v in deps[u] if pos[f"C{v}"] > pos[f"C{u}"])
            if late:
                out.failures.append({"case": case, "what": f"C{u} is declared before C{late[0]}, which it depends on; order {names}", "finding": None})
                break


# ---------------------------------------------------------------------------------------------------------------------------
# Classes out of the parser: the same acyclic class graphs written as a JSON schema document and parsed. A class used from several
# places is written out in each place (the parser merges equal object schemas into one class); titles come from a small pool, so
# different object schemas share a title and the parser renames the later ones; each class carries a marker property `m<i>` of its
# own, which keeps different nodes different and lets the oracle tell which node a yielded class is without looking at its name.
N_PARSED = {"quick": 250, "thorough": 6000}
TITLE_POOL = ["Item", "Node", "Thing"]
MARKER = re.compile(r"^m(\d+)$")


def json_sibling(kind):
    return copy.deepcopy({"false": False, "true": True, "string": {"type": "string"}, "null": {"type": "null"},
                          "array": {"type": "array", "items": {"type": "string"}},
                          "composition": {"anyOf": [{"type": "string"}, False]}}[kind])


def json_wire(S, sub, position, key):
    """Make object schema S depend on object schema `sub` through `position`."""
    P = S["properties"]
    if position == "property":
        P[key] = sub
    elif position == "items":
        P[key] = {"type": "array", "items": sub}
    elif position == "tuple-items":
        P[key] = {"type": "array", "items": [{}, sub]}
    elif position == "additionalItems":
        P[key] = {"type": "array", "items": [{}], "additionalItems": sub}
    elif position == "contains":
        P[key] = {"contains": sub}
    elif position == "patternProperties":
        S.setdefault("patternProperties", {})["^" + key] = sub
    elif position == "additionalProperties":
        if "additionalProperties" not in S:
            S["additionalProperties"] = sub
        else:
            P[key] = {"additionalProperties": sub}
    elif position == "propertyNames":
        P[key] = {"propertyNames": sub}
    elif position == "dependencies":
        S.setdefault("dependencies", {}).update({key: sub, key + "n": ["x"]})
    elif position in ("anyOf", "oneOf"):
        P[key] = {position: [sub, {"type": "string"}] if position == "anyOf" else [{"type": "integer"}, sub]}
    elif position == "allOf":
        P[key] = {"allOf": [sub]}
    elif position == "not":
        P[key] = {"not": sub}
    else:
        P[key] = {"type": "array", "items": {"anyOf": [{"properties": {"z": {"not": {"type": "array", "items": [sub]}}}}, {"type": "integer"}]}}


def json_siblings(schema, kind, where):
    """The JSON counterpart of add_siblings: sibling sub-schemas in front of / behind the entries of every dict- or list-valued
    schema keyword in the document."""
    if not isinstance(schema, dict):
        return
    for name in ("properties", "patternProperties", "dependencies", "definitions"):
        d = schema.get(name)
        if isinstance(d, dict):
            for v in list(d.values()):
                json_siblings(v, kind, where)
            if name != "definitions":
                prefix = "^" if name == "patternProperties" else ""
                _around_dict(d, kind, where, lambda e: json_sibling(kind), prefix)
    for name in ("items", "anyOf", "oneOf", "allOf"):
        v = schema.get(name)
        if isinstance(v, list):
            for x in v:
                json_siblings(x, kind, where)
            if where in ("before", "around"):
                v.insert(0, json_sibling(kind))
            if where in ("after", "around"):
                v.append(json_sibling(kind))
        else:
            json_siblings(v, kind, where)
    for name in ("additionalItems", "contains", "additionalProperties", "propertyNames", "not"):
        json_siblings(schema.get(name), kind, where)


def guarded(fn):
    """Run a library call under the watchdog."""
    old = signal.signal(signal.SIGALRM, _alarm)
    signal.alarm(5)
    try:
        return {"r": "ok", "value": fn()}
    except Timeout:
        return {"r": "timeout"}
    except RecursionError:
        return {"r": "recursion"}
    except Exception as exc:  # noqa: BLE001
        return {"r": "exc:" + type(exc).__name__}
    finally:
        signal.alarm(0)
        signal.signal(signal.SIGALRM, old)


def check_parsed(drv, n, titles, edges, root_ids, out, stats, siblings=None):
    """Nodes 0..n-1 are object schemas titled titles[i]; an edge [u, v, position] with u < v puts schema v below schema u; the first
    root is the document, further roots are its `definitions`."""
    def count(name):
        stats[name] = stats.get(name, 0) + 1

    def node(i):
        S = {"type": "object", "title": titles[i], "properties": {f"m{i}": {"type": "string"}}}
        for k, (u, v, pos) in enumerate(edges):
            if u == i:
                json_wire(S, node(v), pos, f"e{k}")
        return S
    document = node(root_ids[0])
    if len(root_ids) > 1:
        document["definitions"] = {f"r{j}": node(r) for j, r in enumerate(root_ids[1:])}
    if siblings:
        json_siblings(document, siblings[0], siblings[1])
    case = {"family": "parsed", "classes": n, "titles": list(titles), "edges": [list(e) for e in edges], "roots": list(root_ids)}
    if siblings:
        case["siblings"] = list(siblings)
    out.note_case(case, len(edges) >= 2)
    count("parsed-graphs")
    count_siblings(stats, siblings, None, "parsed-")
    adj = {i: sorted({v for (u, v, _) in edges if u == i}) for i in range(n)}

    def below(i):
        seen, st = set(), list(adj[i])
        while st:
            x = st.pop()
            if x not in seen:
                seen.add(x)
                st.extend(adj[x])
        return seen
    reach = set(root_ids)
    for r in root_ids:
        reach |= below(r)
    if len({titles[i] for i in reach}) < len(reach):
        count("parsed-reachable-classes-sharing-a-title")
    if any(sum(1 for (u, v, _) in edges if v == i and u in reach) + (i in root_ids) >= 2 for i in reach):
        count("parsed-class-written-out-in-several-places")
    parsed = guarded(lambda: parse(document))
    if parsed["r"] != "ok":
        count("parsed-not-an-input:parse-" + parsed["r"])          # the parser is other properties' business
        return
    roots = [r for r in parsed["value"] if isinstance(r, Element)]
    # what was built, by the independent walker; the orderer's assumption (different classes, different names) is checked, not assumed
    found = {}
    for x in roots + [c for r in roots for c in own_children(r)]:
        if isinstance(x, ObjectMeta):
            found.setdefault(id(x), x)
    marks = {}
    for key, cls in found.items():
        ms = [int(MARKER.match(k).group(1)) for k in cls.properties if MARKER.match(k)]
        marks[key] = ms[0] if len(ms) == 1 else None
    names = [c.__name__ for c in found.values()]
    if len(set(names)) != len(names) or None in marks.values() or sorted(marks.values()) != sorted(reach):
        count("parsed-not-an-input:classes-built-are-not-the-graph-written")
        return
    if any("_" in nm for nm in names):
        count("parsed-with-a-class-renamed-by-the-parser")
    objs = []
    real = run_orderer(roots, objs)
    by_name = {c.__name__: marks[id(c)] for c in found.values()}
    try:
        order = [c.__name__ for c in get_object_classes(*roots)]
    except Exception:  # noqa: BLE001
        order = [c.__name__ for c in roots if isinstance(c, ObjectMeta)]
    model_edges = [[c.__name__, direct_class_children(c)] for c in found.values()]
    rep = drv.ask({"op": "order_graph", "order": order, "edges": model_edges})
    if "error" not in rep:
        out.traces_validated += 1
        if rep != real:
            out.disagreements.append({"what": "declaration order (parsed document)", "impl": real, "model": rep, **case})
    if real["r"] != "ok":
        what = "acyclic graph refused as unresolvable" if real["r"] == "unresolvable" else f"orderer ended with {real['r']}"
        out.failures.append({"case": case, "what": what + f" (classes {sorted(names)})", "finding": None})
        return
    got = [marks.get(id(c)) for c in objs]
    shown = [f"{c.__name__}=node{marks.get(id(c))}" for c in objs]
    if len(got) != len(set(got)) or len(real["order"]) != len(set(real["order"])):
        out.failures.append({"case": case, "what": f"a class is yielded twice: {shown}", "finding": None})
    elif set(got) != reach:
        missing = sorted(nm for nm, i in by_name.items() if i not in got)
        out.failures.append({"case": case, "what": f"yielded {shown}; reachable classes never yielded: {missing}", "finding": None})
    else:
        pos = {i: k for k, i in enumerate(got)}
        for (u, v, _) in edges:
            if u in reach and pos[v] > pos[u]:
                out.failures.append({"case": case, "what": f"node {u} is declared before node {v}, which it depends on: {shown}", "finding": None})
                break


def random_parsed(rng):
    n = rng.randint(1, 6)
    edges = []
    for _ in range(rng.randint(0, min(2 * n, 8))):
        u, v = rng.randrange(n), rng.randrange(n)
        if u == v:
            continue
        u, v = min(u, v), max(u, v)
        if (u, v) not in [(a, b) for a, b, _ in edges]:
            edges.append((u, v, rng.choice(POSITIONS)))
    style = rng.randrange(3)                                   # all titles different / a small pool / one title for all
    titles = [f"K{i}" if style == 0 else (rng.choice(TITLE_POOL) if style == 1 else "Item") for i in range(n)]
    roots = rng.sample(range(n), rng.choice([1, 1, 2, min(3, n)]) if n > 1 else 1)
    return n, titles, edges, roots


def random_siblings(rng, p):
    return [rng.choice(SIBLING_KINDS), rng.choice(SIBLING_WHERE)] if rng.random() < p else None


def pick_position(rng, kinds, n, s, used):
    """A keyword position for a link leaving node s; a single-valued keyword of a non-object element is not given twice
    if another position is free."""
    if s < n:
        return rng.choice(POSITIONS)
    options = WRAPPER_POSITIONS[kinds[s - n]]
    free = [p for p in options if not (p in SINGLE_SLOTS and (s, p) in used)
            and not (p == "items" and (s, "tuple-items") in used) and not (p == "tuple-items" and (s, "items") in used)]
    pos = rng.choice(free or options)
    used.add((s, pos))
    return pos


def random_aliased(rng, mode):
    """mode 0: no reference loop at all (sharing only); 1: arbitrary links (class cycles, loops through shared elements);
    2: loops among the non-object elements only, classes strictly layered around them (self-containing structures, no class cycle)."""
    n, w = rng.randint(1, 5), rng.randint(1, 4)
    if mode == 2:
        n, w = max(n, 2), max(w, 2)                           # room for a loop entered at two places and a class on either side
    total = n + w
    kinds = [rng.choice(WRAPPER_KINDS) for _ in range(w)]
    rank = list(range(total))
    rng.shuffle(rank)
    upper = {i for i in range(n) if rng.random() < 0.5}      # mode 2: classes above the non-object block; the rest lie below it
    links, used, have = [], set(), set()
    for _ in range(rng.randint(1 if mode != 2 else total, min(2 * total, 14))):
        s, d = rng.randrange(total), rng.randrange(total)
        if mode == 2 and rng.random() < 0.3:                  # links inside the non-object block: that is where the loops are
            s, d = rng.randrange(n, total), rng.randrange(n, total)
        elif rng.random() < 0.5:                              # favour links that touch a non-object element
            if rng.random() < 0.5:
                s = rng.randrange(n, total)
            else:
                d = rng.randrange(n, total)
        if mode == 0:
            if s == d:
                continue
            if rank[s] > rank[d]:
                s, d = d, s
        elif mode == 2:
            layer = lambda i: 1 if i >= n else (0 if i in upper else 2)   # noqa: E731
            if layer(s) > layer(d):
                s, d = d, s
            if layer(s) == layer(d) and layer(s) != 1:
                if s == d:
                    continue
                if rank[s] > rank[d]:
                    s, d = d, s
        if (s, d) in have and rng.random() < 0.8:
            continue
        have.add((s, d))
        links.append([s, d, pick_position(rng, kinds, n, s, used)])
    roots = []
    for _ in range(rng.choice([1, 1, 2, 3])):
        r = rng.randrange(n) if rng.random() < 0.8 else rng.randrange(total)
        if mode == 2 and upper and rng.random() < 0.6:
            r = rng.choice(sorted(upper))
        if r not in roots:
            roots.append(r)
    return n, kinds, links, roots


def aliased_version(rng, n, edges, kind):
    """The class graph `edges` with every dependency on a class going through ONE non-object element of `kind` standing in front of
    that class: all classes that depend on it refer to the same instance."""
    targets = sorted({v for (_, v) in edges})
    front = {v: n + i for i, v in enumerate(targets)}
    used = set()
    links = [[front[v], v, pick_position(rng, [kind] * len(targets), n, front[v], used)] for v in targets]
    links += [[u, front[v], rng.choice(POSITIONS)] for (u, v) in edges]
    return [kind] * len(targets), links


def random_graph(rng, n, cyclic_ok):
    edges = []
    m = rng.randint(0, min(2 * n, 12))
    for _ in range(m):
        u, v = rng.randrange(n), rng.randrange(n)
        if not cyclic_ok:
            if u == v:
                continue
            u, v = min(u, v), max(u, v)   # edges go "up": acyclic
        if (u, v) not in edges:
            edges.append((u, v))
    return edges


def run(ctx, scale=1.0):
    rng = random.Random(ctx["seed"] + 11)
    out = Outcome()
    out.rule = ("class graphs on 1-8 classes with 0-12 dependency edges, each placed in one of 14 keyword positions (incl. nested several "
                "levels deep), 1-3 roots; half forced acyclic, half arbitrary (self-, mutual and long cycles occur); thorough adds all graphs "
                "on <= 3 classes x all positions; aliased element graphs: 1-5 classes + 1-4 non-object elements (array / keyword-holding element / "
                "anyOf / oneOf / allOf / not) as nodes of their own, 1-14 links between any two nodes (one instance referred to from several "
                "places, reference loops with and without a class on them; a third loop-free, a third arbitrary, a third with loops among the "
                "non-object elements only), 1-3 roots of either sort, and the fixed shapes with every class behind one shared element; "
                "in ~30% of the graphs of either family class-free sibling sub-schemas (false / true / string / null / array / composition) "
                "before / after / around everything every element holds, and in ~30% classes named after creation (class statement in a "
                "factory, or metaclass call under a common name, then __name__ assigned); fixed shapes x sibling kind x side; "
                "parsed documents: acyclic graphs on 1-6 object schemas with 0-8 edges in any of the 14 positions written as JSON (a shared "
                "class written out at every use), titles all different / from a pool of 3 / all the same, 1-3 roots (document + definitions), "
                "~40% with sibling sub-schemas, parsed by the real parser, classes identified by a marker property; "
                "a case is one graph; non-trivial = at least 2 edges; distinct by SHA-256")
    stats = {}
    drv = core.Driver()
    try:
        for i in range(int(N_GRAPHS[ctx["tier"]] * scale)):
            n = rng.randint(1, 8)
            edges = random_graph(rng, n, cyclic_ok=(i % 2 == 1))
            positions = [rng.choice(POSITIONS) for _ in edges]
            roots = rng.sample(range(n), rng.choice([1, 1, 2, min(3, n)]) if n > 1 else 1)
            for p in positions:
                stats["pos-" + p] = stats.get("pos-" + p, 0) + 1
            check_graph(drv, n, edges, positions, roots, out, stats, rng, siblings=random_siblings(rng, 0.3),
                        made=rng.choice(MADE) if rng.random() < 0.3 else None)
        # fixed shapes: chain, diamond, shared leaf, self cycle, mutual cycle below an acyclic root, long cycle
        shapes = [
            (4, [(0, 1), (1, 2), (2, 3)], [0]), (4, [(0, 1), (0, 2), (1, 3), (2, 3)], [0]), (3, [(0, 2), (1, 2)], [0, 1]),
            (1, [(0, 0)], [0]), (3, [(0, 1), (1, 2), (2, 1)], [0]), (5, [(0, 1), (1, 2), (2, 3), (3, 4), (4, 1)], [0]),
            (2, [(0, 1), (1, 0)], [0]), (3, [], [0, 1, 2]),
        ]
        for n, edges, roots in shapes:
            for pos in POSITIONS:
                check_graph(drv, n, edges, [pos] * len(edges), roots, out, stats, rng)
        # the fixed shapes with every kind of sibling sub-schema on every side of the dependencies, and with classes of every making
        for n, edges, roots in shapes:
            for kind in SIBLING_KINDS:
                for where in SIBLING_WHERE:
                    check_graph(drv, n, edges, [rng.choice(POSITIONS) for _ in edges], roots, out, stats, rng, siblings=[kind, where],
                                made=rng.choice(MADE))
            for made in MADE[1:]:
                for pos in rng.sample(POSITIONS, 4):
                    check_graph(drv, n, edges, [pos] * len(edges), roots, out, stats, rng, made=made)
        # two differently named classes with identical bodies, each the only way to a class of its own
        for pos in POSITIONS:
            check_graph(drv, 5, [(0, 1), (0, 2), (1, 3), (2, 4)], ["property", "property", "plain:" + pos, "plain:" + pos], [0], out, stats, rng)
            check_graph(drv, 7, [(0, 1), (0, 2), (1, 3), (2, 4), (3, 5), (4, 6)],
                        ["items", "contains", "plain:" + pos, "plain:" + pos, "plain:" + pos, "plain:" + pos], [0], out, stats, rng)
        # aliased element graphs (non-object elements shared between referrers and on reference loops)
        for i in range(int(N_ALIASED[ctx["tier"]] * scale)):
            n, kinds, links, roots = random_aliased(rng, i % 3)
            check_aliased(drv, n, kinds, links, roots, out, stats, siblings=random_siblings(rng, 0.3),
                          made=rng.choice(MADE) if rng.random() < 0.3 else None)
        # the fixed shapes again, every dependency on a class passing through one shared element in front of it
        for n, edges, roots in shapes:
            if not edges:
                continue
            for kind in WRAPPER_KINDS:
                for _ in range(2):
                    kinds, links = aliased_version(rng, n, edges, kind)
                    check_aliased(drv, n, kinds, links, roots, out, stats)
        # classes out of the parser: documents with colliding titles, shared sub-schemas, sibling sub-schemas
        for i in range(int(N_PARSED[ctx["tier"]] * scale)):
            n, titles, edges, roots = random_parsed(rng)
            check_parsed(drv, n, titles, edges, roots, out, stats, siblings=random_siblings(rng, 0.4))
        for n, edges, roots in shapes:
            if any(u >= v for (u, v) in edges):
                continue
            for titles in ([f"K{i}" for i in range(n)], ["Item"] * n):
                for siblings in [None] + [[kind, "around"] for kind in SIBLING_KINDS]:
                    check_parsed(drv, n, titles, [(u, v, rng.choice(POSITIONS)) for (u, v) in edges], roots, out, stats, siblings=siblings)
        if ctx["tier"] == "thorough":
            import itertools
            for n in (1, 2, 3):
                pairs = [(u, v) for u in range(n) for v in range(n)]
                for k in range(len(pairs) + 1):
                    for es in itertools.combinations(pairs, k):
                        for pos in ("property", "items", "not", "dependencies"):
                            check_graph(drv, n, list(es), [pos] * len(es), [0], out, stats, rng)
    finally:
        drv.close()
    out.stats = stats
    return out


def search(ctx, reason):
    sub = dict(ctx)
    sub["seed"] = ctx["seed"] + 179424673
    found = run(sub, scale=2.0 if ctx["tier"] == "quick" else 1.0)
    return found.failures[0] if found.failures else None


def _replay_case(case):
    out, stats = Outcome(), {}
    drv = core.Driver()
    try:
        if case.get("family") == "aliased":
            check_aliased(drv, case["classes"], case["wrappers"], [tuple(l) for l in case["links"]], case["roots"], out, stats,
                          siblings=case.get("siblings"), made=case.get("made"))
            return out
        if case.get("family") == "parsed":
            check_parsed(drv, case["classes"], case["titles"], [tuple(e) for e in case["edges"]], case["roots"], out, stats,
                         siblings=case.get("siblings"))
            return out
        edges = [(u, v) for u, v, _ in case["edges"]]
        positions = [p for _, _, p in case["edges"]]
        check_graph(drv, case["classes"], edges, positions, case["roots"], out, stats, random.Random(0),
                    siblings=case.get("siblings"), made=case.get("made"))
    finally:
        drv.close()
    return out


def replay_finding(finding):
    return bool(_replay_case(finding["witness"]).failures)


def replay(payload):
    case = payload.get("failure", {}).get("case")
    return True if not case else not _replay_case(case).failures
