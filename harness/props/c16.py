"""C16 — format checking consults exactly the registered checker.

Correspondence: registration/check histories run on the real process-wide registry (saved and
restored around every history) and on the Lean model (`runReg`): the stream of outcomes
(accept / accept-with-warning / reject) must be identical.  Checks go through `String(format=…)`,
`Element(format=…)`, and parsed schemas.  The built-in entries are modelled by their definition
(`uuid.UUID(value)` / `dateutil.parser.parse(value)` does not raise), computed by the harness
directly from the libraries.

Oracle (independent of the model): every checker logs its calls; a string is rejected exactly when
the checker registered *now* under that name was called with that string and returned false; an
unregistered name warns and accepts; non-strings are never handed to a checker.
Built-in clause (exploration, not proof: the parsers are external libraries): canonical UUIDs and
RFC 3339 timestamps produced from the grammars must be accepted.
Vocabulary sweep: "all format names x all values" includes the names some vocabulary gives a meaning to (the JSON Schema drafts, the
OpenAPI format registry, every short string literal of the library's own source) and values at the magnitudes fixed-width
readings care about, checked through elements of the value's own type too (`{"type": "integer", "format": ...}`): for each name, in
each registration state (as the process has it / accept-all checker / reject-all checker), the same oracle.
Ambient warning filters: what the process does with a warning is a condition the statement does not mention, so it holds under every
one of them: histories carry ("ambient", id) steps that change the filters the following checks are made under (everything escalated
to an exception as with `-W error` / pytest's `filterwarnings = error`, only RuntimeWarning / only the library's modules escalated,
other categories escalated, ignored, the de-duplicating default / once / module actions).  Verdicts of registered names and of
non-strings are the same under all of them; an unregistered name is never a rejection: where the filters turn its warning into an
exception that very warning comes out of the call, where they record it it is recorded, where they drop it the value is accepted."""
import ast
import os
import random
import uuid as uuidlib
import warnings

from statham.schema.elements import Element, String
from statham.schema.exceptions import ValidationError
from statham.schema.parser import parse_element
from statham.schema.validation.format import format_checker

from harness import core
from harness.framework import Outcome

ID = "C16"
TIE_MODULES = ["StathamModel.Tie"]
ASSUMPTIONS = ["checkers are total predicates returning bool (a checker that raises propagates its exception: outside the property)",
               "the built-in uuid / date-time checkers are external library calls: their clause is explored from the grammars, not proved"]
N_HIST = {"quick": 400, "thorough": 15000}
N_OVERLAP = {"quick": 150, "thorough": 4000}
SWEEP_HARVESTED = {"quick": 40, "thorough": None}      # how many of the library's own string literals the sweep takes as names (None: all)
N_AMBIENT = {"quick": 200, "thorough": 6000}
SWEEP_ROUNDS = {"quick": 1, "thorough": 8}              # per name and registration state: how many times every stratum of values is visited

NAMES = ["custom", "Custom", "CUSTOM", "email", "e-mail", "", " ", "uuid", "UUID", "Uuid", "date-time", "Date-Time", "date_time", "datetime",
         "uuid ", "ipv4", "x" * 40, "é", "É", "ß", "SS", "ss", "ſ", "K", "K", "k",
         # names that mean something to a formatting / templating layer
         "x-{tenant}-id", "{}", "{0}", "set{", "}", "%s", "%(a)s", "$x", "back\\slash", "quo'te", 'dq"', "new\nline"]
STRINGS = ["", "a", "ab", "abc", "A", "123", "12", "a1", "Abc", "  ", "é", "00000000-0000-0000-0000-000000000000", "2020-01-01T00:00:00Z",
           "not-a-uuid", "2020-13-01T00:00:00Z", "12345678123456781234567812345678", "x" * 50, "\n", "1e5", "true"]
NON_STRINGS = [0, 1, -1, 2.5, True, False, None, [], ["a"], {}, {"a": "b"}, 10 ** 30]

PREDICATES = {
    "yes": lambda s: True,
    "no": lambda s: False,
    "starts-a": lambda s: s.startswith("a"),
    "short": lambda s: len(s) < 3,
    "digits": lambda s: s.isdigit(),
    "upper": lambda s: s[:1].isupper(),
    "nonempty": lambda s: s != "",
}


def lib_uuid(s):
    try:
        uuidlib.UUID(s)
    except (ValueError, TypeError):
        return False
    return True


def lib_datetime(s):
    from dateutil.parser import parse, ParserError
    try:
        parse(s)
    except (ParserError, TypeError, OverflowError):
        return False
    return True


class Logged:
    """A checker that logs every call it receives."""

    def __init__(self, ident, fn, log):
        self.ident, self.fn, self.log = ident, fn, log

    def __call__(self, value):
        res = self.fn(value)
        self.log.append((self.ident, value, res))
        return res


def logged_closure(ident, fn, log):
    """The same as `Logged`, written as a plain function made by a factory: every checker made here shares one code object
    and differs only in what it closes over (how `functools`-free user code usually parametrises checkers)."""
    def checker(value):
        res = fn(value)
        log.append((ident, value, res))
        return res
    return checker


class Flip:
    """Impure checker: alternates its verdict (detects cached verdicts)."""

    def __init__(self):
        self.n = 0

    def __call__(self, value):
        self.n += 1
        return self.n % 2 == 1


# ---- what the process does with warnings while a check is made.  id -> (class, filters installed in this order, the last one
# ---- having precedence).  Classes: "recorded" = the unknown-format warning reaches whoever listens; "escalated" = the filters turn
# ---- it into an exception; "silent" = the filters may drop it (ignore, or the actions that show a warning once per place).
LIBRARY_MODULES = r"statham\."
AMBIENTS = {
    "always": ("recorded", [("always", {})]),
    "error": ("escalated", [("error", {})]),
    "error-runtime": ("escalated", [("always", {}), ("error", {"category": RuntimeWarning})]),
    "error-warning-base": ("escalated", [("ignore", {}), ("error", {"category": Warning})]),
    "error-library-modules": ("escalated", [("always", {}), ("error", {"module": LIBRARY_MODULES})]),
    "error-other-categories": ("recorded", [("always", {}), ("error", {"category": DeprecationWarning}), ("error", {"category": UserWarning}),
                                            ("error", {"category": ResourceWarning})]),
    "error-other-modules": ("recorded", [("always", {}), ("error", {"module": r"harness\.|__main__"})]),
    "error-overridden": ("recorded", [("error", {}), ("always", {"category": RuntimeWarning})]),
    "ignore": ("silent", [("ignore", {})]),
    "ignore-runtime": ("silent", [("error", {}), ("ignore", {"category": RuntimeWarning})]),
    "default": ("silent", [("default", {})]),
    "once": ("silent", [("once", {})]),
    "module": ("silent", [("module", {})]),
}
AMBIENT_IDS = sorted(AMBIENTS)


def observe(el, value, ambient="always"):
    with warnings.catch_warnings(record=True) as caught:
        for action, kwargs in AMBIENTS[ambient][1]:
            warnings.filterwarnings(action, **kwargs)
        try:
            el(value)
            res = "accept"
        except ValidationError:
            res = "reject"
        except RuntimeWarning as exc:      # the unknown-format warning itself, as an escalating filter delivers it
            res = "warn-raised" if "No validator found for format string" in str(exc) else "exc:RuntimeWarning"
        except Exception as exc:  # noqa: BLE001
            res = "exc:" + type(exc).__name__
    warned = [w for w in caught if issubclass(w.category, RuntimeWarning) and "No validator found for format string" in str(w.message)]
    if res == "accept" and warned:
        res = "accept-warn"
    return res


def make_element(kind, name):
    """The element a check of kind `kind` validates with; name None = the same element without its format keyword (the
    control that tells a rejection on account of the format from one on account of something else)."""
    fmt = {} if name is None else {"format": name}
    if kind == "String":
        return String(**fmt)
    if kind == "Element":
        return Element(**fmt)
    if kind == "parse-string":
        return parse_element({"type": "string", **fmt})
    if kind.startswith("parse-type:"):      # a schema typed with the given JSON type(s)
        types = kind[len("parse-type:"):].split(",")
        return parse_element({"type": types[0] if len(types) == 1 else types, **({"title": "Obj"} if "object" in types else {}), **fmt})
    if kind == "parse-items":               # the format keyword on the items of an array; the value is checked as its only item
        arr = parse_element({"type": "array", "items": dict(fmt)})
        return lambda value: arr([value])
    if kind == "parse-property":            # the format keyword on a property of an object; the value is checked as that property
        obj = parse_element({"type": "object", "title": "Obj", "properties": {"member": dict(fmt)}})
        return lambda value: obj({"member": value})
    return parse_element(fmt)


def json_type(value):
    return ("boolean" if isinstance(value, bool) else "integer" if isinstance(value, int) else "number" if isinstance(value, float)
            else "string" if isinstance(value, str) else "null" if value is None else "array" if isinstance(value, list) else "object")


def kinds_admitting(value):
    """Element kinds whose type (if any) admits `value`: whatever they answer is on account of the format keyword."""
    own = json_type(value)
    other = "integer" if own in ("string", "null") else "string"
    kinds = ["Element", "parse-any", "parse-items", "parse-type:" + own, f"parse-type:{own},null" if own != "null" else "parse-type:null,string",
             f"parse-type:{other},{own}"]
    return kinds + ["String", "parse-string"] if own == "string" else kinds


UNREGISTERED_WANTS = {"recorded": ("accept-warn",), "escalated": ("warn-raised",), "silent": ("accept", "accept-warn")}


def judge(kind, name, value, res, calls, current, saved, ambient="always"):
    """The oracle for ONE check, whatever else is going on around it (other checks in flight in this or another thread
    included - the statement makes no exception for them).  `calls`: the (ident, value, result) calls to logged checkers
    made directly by this check; `current`: name -> (ident, fn | None for a built-in entry) as the history has left it.
    `ambient`: the warning filters the check was made under - they decide how the warning of an unregistered name shows, and
    nothing else.
    Returns (category, [what failed])."""
    whats = []
    under = "" if ambient == "always" else f" [warning filters: {ambient}]"
    if not isinstance(value, str):
        # an element typed as a string rejects it on account of the type; every other kind is made so that its type admits
        # the value: a rejection that disappears when the format keyword is taken away is a rejection on account of the format
        if kind not in ("String", "parse-string") and res != "accept" and (kind in ("Element", "parse-any") or observe(make_element(kind, None), value) == "accept"):
            whats.append(f"non-string {value!r} under format {name!r} ({kind}): {res}{under}")
        if calls:
            whats.append(f"non-string {value!r} was handed to a checker")
        return "non-string", whats
    if name not in current:
        wants = UNREGISTERED_WANTS[AMBIENTS[ambient][0]]
        if res not in wants:
            expected = {"recorded": "acceptance with a warning", "escalated": "the warning itself, raised by the filters, and no rejection",
                        "silent": "acceptance"}[AMBIENTS[ambient][0]]
            whats.append(f"unregistered format {name!r} on {value!r}: {res} (expected {expected}){under}")
        if calls:
            whats.append(f"unregistered format {name!r} consulted checker {calls[0][0]}")
        return "unregistered", whats
    ident, fn = current[name]
    if fn is None:      # built-in entry: decided by the library definition
        want = "accept" if {"uuid": lib_uuid, "date-time": lib_datetime}.get(name, saved.get(name))(value) else "reject"
        if res != want:
            whats.append(f"built-in {name!r} on {value!r}: {res}, the library definition says {want}{under}")
        return "registered-builtin", whats
    if len(calls) != 1 or calls[0][0] != ident or calls[0][1] != value:
        whats.append(f"format {name!r} on {value!r}: expected exactly one call to the current checker {ident}, saw {[(c[0], c[1]) for c in calls]}")
        return "registered-custom", whats
    want = "accept" if calls[0][2] else "reject"
    if res != want:
        whats.append(f"checker {ident} returned {calls[0][2]} for {value!r} but the verdict is {res}{under}")
    return "registered-custom", whats


def run_history(drv, steps, out, stats, label):
    """steps: list of ("register", name, pred_id | "flip") / ("check", kind, name, value) / ("ambient", id): the checks that
    follow are made under the warning filters AMBIENTS[id] (until the next such step; "always" to begin with)."""
    reg = format_checker._callable_register  # pylint: disable=protected-access
    saved = dict(reg)
    log = []
    try:
        initial_names = list(reg)
        current = {}          # name -> (ident, callable) as the oracle tracks it
        table_strings = set(STRINGS)
        for st in steps:
            if st[0] == "check" and isinstance(st[3], str):
                table_strings.add(st[3])
        checkers = {}
        for nm in initial_names:
            fn = {"uuid": lib_uuid, "date-time": lib_datetime}.get(nm, reg[nm])
            checkers["builtin:" + nm] = [[s, bool(fn(s))] for s in sorted(table_strings)]
            current[nm] = ("builtin:" + nm, None)
        for pid, fn in PREDICATES.items():
            checkers[pid] = [[s, bool(fn(s))] for s in sorted(table_strings)]
        model_ops, real_outs, pure = [], [], True
        ambient = "always"
        case = {"label": label, "steps": [list(s) for s in steps]}
        for idx, st in enumerate(steps):
            if st[0] == "ambient":
                ambient = st[1]
                stats["ambient-changes"] = stats.get("ambient-changes", 0) + 1
                continue
            if st[0] == "register":
                _, name, pid = st
                if pid == "flip":
                    pure = False
                    fn = Flip()
                else:
                    fn = PREDICATES[pid]
                ident = f"{pid}#{idx}"
                format_checker.register(name)(Logged(ident, fn, log) if idx % 2 else logged_closure(ident, fn, log))
                current[name] = (ident, fn)
                model_ops.append({"register": name, "checker": pid})
                stats["register"] = stats.get("register", 0) + 1
                stats["re-register"] = stats.get("re-register", 0) + (1 if name in initial_names or any(s[0] == "register" and s[1] == name for s in steps[:idx]) else 0)
                continue
            _, kind, name, value = st
            el = make_element(kind, name)
            before = len(log)
            res = observe(el, value, ambient)
            calls = log[before:]
            # the model knows one way a warning shows (it is there or not): where the filters raise it, that is "there";
            # where they may drop it the streams are not comparable
            real_outs.append("accept-warn" if res == "warn-raised" else res)
            pure = pure and AMBIENTS[ambient][0] != "silent"
            model_ops.append({"check": name, "value": core.enc_val(value)})
            nontrivial = isinstance(value, str) and (ambient != "always" or (name in current and current[name][1] is not None))
            out.note_case({"step": idx, **case}, nontrivial)
            stats[res] = stats.get(res, 0) + 1
            # --- the oracle
            cat, whats = judge(kind, name, value, res, calls, current, saved, ambient)
            stats[cat] = stats.get(cat, 0) + 1
            if ambient != "always":
                for key in ("ambient-" + ambient, f"ambient-{AMBIENTS[ambient][0]}-{cat}", f"ambient-{AMBIENTS[ambient][0]}-{res}"):
                    stats[key] = stats.get(key, 0) + 1
            for what in whats:
                out.failures.append({"case": case, "at_step": idx, "what": what, "finding": None})
        # --- the model, on histories with pure checkers only
        if pure and drv is not None:
            rep = drv.ask({"op": "format_history", "checkers": [[k, v] for k, v in checkers.items()],
                           "initial": [[nm, "builtin:" + nm] for nm in initial_names], "ops": model_ops})
            if "error" in rep:
                stats["driver-error"] = stats.get("driver-error", 0) + 1
            else:
                out.traces_validated += 1
                if rep["outs"] != real_outs:
                    first = next((i for i, (a, b) in enumerate(zip(rep["outs"], real_outs)) if a != b), None)
                    out.disagreements.append({"what": "outcome stream of a registration history", "first_difference_at_check": first,
                                              "impl": real_outs, "model": rep["outs"], **case})
    finally:
        reg.clear()
        reg.update(saved)


def fresh_process_history(steps, out, stats, label):
    """Run one history in a fresh interpreter (nothing has been looked up or registered there yet) and collect what
    its oracle says."""
    import json
    import os
    import subprocess
    import sys
    env = dict(os.environ)
    env["PYTHONPATH"] = os.path.dirname(os.path.dirname(os.path.dirname(os.path.abspath(__file__)))) + ":" + os.environ.get("STATHAM_REPO", "/repo")
    code = ("import json,sys\n"
            "from harness.framework import Outcome\n"
            "from harness.props import c16\n"
            "steps=[tuple(s) for s in json.load(sys.stdin)]\n"
            "out,stats=Outcome(),{}\n"
            "c16.run_history(None, steps, out, stats, 'fresh-process')\n"
            "json.dump({'failures': out.failures, 'stats': stats}, sys.stdout, default=str)\n")
    proc = subprocess.run([sys.executable, "-c", code], input=json.dumps([list(s) for s in steps]), capture_output=True, text=True,
                          env=env, timeout=300, check=False)
    stats["fresh-processes"] = stats.get("fresh-processes", 0) + 1
    if proc.returncode != 0:
        stats["fresh-process-error"] = stats.get("fresh-process-error", 0) + 1
        return
    rep = json.loads(proc.stdout)
    out.note_case({"label": label, "steps": [list(s) for s in steps], "fresh_process": True}, True)
    for f in rep["failures"]:
        f["case"]["fresh_process"] = True
        out.failures.append(f)


# ---- checks that overlap in time: a check that begins while another check is still in flight (in the same thread, because
# ---- the checker itself validates something against a format; or in another thread).  The statement quantifies over all
# ---- values and histories and knows no exception for them: each such check must consult the checker registered under its
# ---- name exactly as a check made in isolation does.

NEST_STRINGS = ["a.b", "a.b.c", "a.1", "a.b.1", "x.", "a..b", "1.a", "aa", "aaa", "abca", "a12", "11a", "Ab.a", ".",
                "00000000-0000-0000-0000-000000000000.a", "a.2020-01-01T00:00:00Z"]
HOWS = ["tail", "after-dot", "half", "length"]
COMBINES = ["and", "lazy-and", "ignore", "only"]
HOLD_TIMEOUT = 5.0


def derive(how, value):
    """The value a nesting checker validates while it is running: always strictly shorter than `value` (so every nest
    terminates, whatever the checkers involved), or a non-string; None = no nested check for this value."""
    if how == "tail":
        return value[1:] if value else None
    if how == "after-dot":
        head, dot, tail = value.partition(".")
        return tail if dot else None
    if how == "half":
        return value[:len(value) // 2] if value else None
    return len(value) if value else None        # "length": a non-string


class Trace:
    """Attributes every checker call to the check that made it: a per-thread stack of the checks in flight."""

    def __init__(self):
        import threading
        self.threading = threading
        self.local = threading.local()
        self.lock = threading.Lock()
        self.records = []
        self.in_flight = []
        self.orphans = []
        self.hold = None

    def stack(self):
        if not hasattr(self.local, "stack"):
            self.local.stack = []
        return self.local.stack

    def check(self, kind, name, value):
        stack = self.stack()
        rec = {"kind": kind, "name": name, "value": value, "calls": [], "depth": len(stack), "res": None,
               "thread": self.threading.current_thread().name}
        with self.lock:
            rec["in_flight"] = [[r["name"], r["thread"]] for r in self.in_flight]
            self.records.append(rec)
            self.in_flight.append(rec)
        stack.append(rec)
        try:
            rec["res"] = observe(make_element(kind, name), value)
        finally:
            stack.pop()
            with self.lock:
                self.in_flight.remove(rec)
        return rec["res"]

    def entered(self, ident, value):
        """A logged checker has been called: note it under the innermost check in flight in this thread, and block here if
        this is the call a concurrent step wants to keep in flight."""
        call = [ident, value, None]
        stack = self.stack()
        (stack[-1]["calls"] if stack else self.orphans).append(call)
        hold = self.hold
        if hold is not None and hold["thread"] is self.threading.current_thread():
            hold["seen"] += 1
            if hold["seen"] == hold["at"] + 1:
                hold["held"] = True
                hold["ready"].set()
                hold["release"].wait(HOLD_TIMEOUT)
        return call


def nesting_checker(trace, ident, base, nest):
    """base(value), combined with the verdict of a nested check `nest` = (target name, element kind, how, combine) made
    while this checker is still running."""
    def checker(value):
        call = trace.entered(ident, value)
        res = bool(base(value))
        if nest is not None:
            target, kind, how, combine = nest
            inner = derive(how, value) if (res or combine != "lazy-and") else None
            if inner is not None:
                ok = trace.check(kind, target, inner) != "reject"
                res = {"and": res and ok, "lazy-and": res and ok, "ignore": res, "only": ok}[combine]
        call[2] = res
        return res
    return checker


def run_overlap_history(steps, out, stats, label):
    """steps: ("register", name, pid) / ("register-nest", name, pid, target, kind, how, combine) / ("check", kind, name, value)
    / ("concurrent", [kind, name, value], [[kind, name, value], ...], hold_at): the first check runs in a second thread
    and is kept in flight inside its hold_at-th checker call while the others are made from this thread.
    The whole history runs under a watchdog: a check that never returns is a failure, not a hang of the harness."""
    import threading
    reg = format_checker._callable_register  # pylint: disable=protected-access
    saved = dict(reg)
    case = {"label": label, "overlap": True, "steps": [list(s) for s in steps]}
    failures, notes, local_stats = [], [], {}

    def bump(key, n=1):
        local_stats[key] = local_stats.get(key, 0) + n

    def body():
        trace = Trace()
        current = {nm: ("builtin:" + nm, None) for nm in reg}
        judged = 0
        for idx, st in enumerate(steps):
            if st[0] in ("register", "register-nest"):
                name, pid = st[1], st[2]
                base = Flip() if pid == "flip" else PREDICATES[pid]
                nest = tuple(st[3:7]) if st[0] == "register-nest" else None
                ident = f"{pid}#{idx}"
                fn = nesting_checker(trace, ident, base, nest)
                format_checker.register(name)(fn)
                current[name] = (ident, fn)
                bump(st[0])
                continue
            if st[0] == "check":
                trace.check(st[1], st[2], st[3])
            else:
                _, holder, inner, hold_at = st
                bump("concurrent-steps")
                hold = {"thread": None, "at": hold_at, "seen": 0, "held": False, "ready": threading.Event(), "release": threading.Event()}

                def helper(holder=holder, hold=hold):
                    try:
                        trace.check(*holder)
                    finally:
                        hold["ready"].set()
                thread = threading.Thread(target=helper, name="second", daemon=True)
                hold["thread"] = thread
                trace.hold = hold
                thread.start()
                try:
                    hold["ready"].wait(2 * HOLD_TIMEOUT)
                    if hold["held"] and thread.is_alive():
                        bump("concurrent-overlap-achieved")
                    for chk in inner:
                        trace.check(*chk)
                finally:
                    hold["release"].set()
                    thread.join(4 * HOLD_TIMEOUT)
                    trace.hold = None
                if thread.is_alive():
                    failures.append({"case": case, "at_step": idx, "what": f"the check of {holder[2]!r} under format {holder[1]!r} in a second thread never returned", "finding": None})
            # --- the oracle, on every check this step has made (the nested and the concurrent ones included)
            recs, judged = trace.records[judged:], len(trace.records)
            for k, rec in enumerate(recs):
                cat, whats = judge(rec["kind"], rec["name"], rec["value"], rec["res"], [tuple(c) for c in rec["calls"]], current, saved)
                bump("overlap-" + cat)
                bump("overlap-" + str(rec["res"]))
                same = [x for x in rec["in_flight"] if x[0] == rec["name"]]
                if rec["depth"]:
                    bump("nested-checks")
                    bump("nested-same-name" if any(x[1] == rec["thread"] for x in same) else "nested-other-name")
                    local_stats["max-nesting-depth"] = max(local_stats.get("max-nesting-depth", 0), rec["depth"])
                if any(x[1] != rec["thread"] for x in rec["in_flight"]):
                    bump("begun-while-another-thread-checks-" + ("same-name" if any(x[1] != rec["thread"] for x in same) else "other-name"))
                if rec["in_flight"]:
                    bump("begun-in-flight-" + cat)
                overlapping = bool(rec["in_flight"]) or len(recs) > 1
                notes.append(({"step": idx, "check": k, **case}, overlapping and cat == "registered-custom"))
                for what in whats:
                    failures.append({"case": case, "at_step": idx,
                                     "check": {"name": rec["name"], "value": rec["value"], "kind": rec["kind"], "nesting_depth": rec["depth"],
                                               "thread": rec["thread"], "in_flight_when_begun": rec["in_flight"]},
                                     "what": what + (f" [begun while checks of {[x[0] for x in rec['in_flight']]} were in flight]" if rec["in_flight"] else ""),
                                     "finding": None})
            if trace.orphans:
                failures.append({"case": case, "at_step": idx, "what": f"a checker was called outside any check: {trace.orphans[:3]}", "finding": None})
                del trace.orphans[:]

    try:
        worker = threading.Thread(target=body, name="first", daemon=True)
        worker.start()
        worker.join(12 * HOLD_TIMEOUT)
        if worker.is_alive():
            failures.append({"case": case, "what": "the history did not finish: a check blocks for ever", "finding": None})
    finally:
        reg.clear()
        reg.update(saved)
    stats["overlap-histories"] = stats.get("overlap-histories", 0) + 1
    for key, n in list(local_stats.items()):
        stats[key] = max(stats.get(key, 0), n) if key.startswith("max-") else stats.get(key, 0) + n
    for noted, nontrivial in list(notes):
        out.note_case(noted, nontrivial)
    out.failures.extend(list(failures))


def random_overlap_history(rng, n_steps):
    names = rng.sample(NAMES, rng.randint(2, 4))

    def a_nest():
        name = rng.choice(names)
        r = rng.random()
        target = name if r < 0.5 else rng.choice(names) if r < 0.85 else rng.choice(NAMES)
        how = rng.choice(HOWS)
        kind = rng.choice(["Element", "parse-any"] if how == "length" else ["String", "Element", "parse-string", "parse-any"])
        pid = rng.choice(list(PREDICATES) + (["flip"] if rng.random() < 0.15 else []))
        return ("register-nest", name, pid, target, kind, how, rng.choice(COMBINES))

    def a_check():
        value = rng.choice(STRINGS + NEST_STRINGS + NEST_STRINGS) if rng.random() < 0.85 else rng.choice(NON_STRINGS)
        name = rng.choice(names) if rng.random() < 0.9 else rng.choice(NAMES)
        kinds = ["String", "Element", "parse-string", "parse-any"] if isinstance(value, str) else ["Element", "parse-any"]
        return ("check", rng.choice(kinds), name, value)

    steps = [a_nest() for _ in range(rng.randint(1, 2))]
    for _ in range(n_steps):
        r = rng.random()
        if r < 0.12:
            steps.append(("register", rng.choice(names), rng.choice(list(PREDICATES))))
        elif r < 0.3:
            steps.append(a_nest())
        elif r < 0.8:
            steps.append(a_check())
        else:
            holder = a_check()
            for _ in range(3):      # mostly a check that does reach a checker, so that there is a call to hold it in
                if isinstance(holder[3], str) and any(s[0] != "check" and s[1] == holder[2] for s in steps):
                    break
                holder = a_check()
            steps.append(("concurrent", list(holder[1:]), [list(a_check()[1:]) for _ in range(rng.randint(1, 4))], rng.choice([0, 0, 1, 2])))
    return steps


OVERLAP_FIXED = [
    # a checker defined by recursion on a strictly shorter string under its own name
    [("register-nest", "custom", "starts-a", "custom", "String", "after-dot", "and"), ("check", "String", "custom", "a.a"), ("check", "String", "custom", "a.b"),
     ("check", "Element", "custom", "a.a.1"), ("check", "parse-string", "custom", "a")],
    [("register-nest", "custom", "nonempty", "custom", "Element", "tail", "lazy-and"), ("check", "String", "custom", "abc"), ("check", "String", "custom", "")],
    # two names defined in terms of each other; a name defined in terms of a built-in, of an unregistered name, of a non-string
    [("register-nest", "custom", "short", "email", "String", "tail", "and"), ("register-nest", "email", "nonempty", "custom", "parse-any", "half", "only"),
     ("check", "String", "custom", "ab"), ("check", "String", "email", "abca")],
    [("register-nest", "custom", "yes", "uuid", "String", "after-dot", "only"), ("check", "String", "custom", "a.00000000-0000-0000-0000-000000000000"),
     ("check", "String", "custom", "a.not-a-uuid"), ("register-nest", "email", "yes", "never-registered", "Element", "tail", "only"), ("check", "String", "email", "ab"),
     ("register-nest", "ipv4", "no", "ipv4", "Element", "length", "only"), ("check", "String", "ipv4", "ab")],
    # re-registration between nests: the nested check consults the checker registered now
    [("register-nest", "custom", "yes", "email", "String", "tail", "only"), ("register", "email", "no"), ("check", "String", "custom", "ab"),
     ("register", "email", "yes"), ("check", "String", "custom", "ab"), ("register-nest", "email", "digits", "email", "String", "tail", "ignore"), ("check", "String", "custom", "a12")],
    # two threads: the same name, different names, a nest held in its inner call
    [("register", "custom", "digits"), ("concurrent", ["String", "custom", "abc"], [["String", "custom", "abc"], ["String", "custom", "123"], ["Element", "custom", 1]], 0)],
    [("register", "custom", "digits"), ("register", "email", "no"), ("concurrent", ["String", "custom", "123"], [["String", "email", "abc"], ["String", "uuid", "not-a-uuid"], ["String", "never-registered", "x"]], 0)],
    [("register-nest", "custom", "yes", "email", "String", "tail", "and"), ("register", "email", "short"),
     ("concurrent", ["String", "custom", "abcd"], [["String", "email", "abcd"], ["String", "custom", "abcd"], ["String", "email", "a"]], 1)],
]


def random_history(rng, n_steps):
    names = rng.sample(NAMES, rng.randint(2, 5))
    steps = []
    for _ in range(n_steps):
        r = rng.random()
        if r < 0.3:
            steps.append(("register", rng.choice(names), rng.choice(list(PREDICATES) + (["flip"] if rng.random() < 0.3 else []))))
        else:
            value = rng.choice(STRINGS) if rng.random() < 0.75 else rng.choice(NON_STRINGS)
            name = rng.choice(names) if rng.random() < 0.85 else rng.choice(NAMES)
            # a typed element rejects non-strings on account of the type, not the format: use untyped ones for those
            kinds = ["String", "Element", "parse-string", "parse-any"] if isinstance(value, str) else ["Element", "parse-any"]
            steps.append(("check", rng.choice(kinds), name, value))
    return steps


def random_ambient_history(rng, n_steps):
    """A history like `random_history` whose checks are made under changing warning filters, through every kind of element
    (array items and object properties included: the warning then travels through the enclosing element's validation)."""
    names = rng.sample(NAMES + STANDARD_FORMATS, rng.randint(2, 5))
    steps = [("ambient", rng.choice(AMBIENT_IDS))]
    for _ in range(n_steps):
        r = rng.random()
        if r < 0.12:
            steps.append(("ambient", rng.choice(AMBIENT_IDS)))
        elif r < 0.3:
            steps.append(("register", rng.choice(names), rng.choice(list(PREDICATES) + (["flip"] if rng.random() < 0.2 else []))))
        else:
            value = rng.choice(STRINGS + SWEEP_STRINGS) if rng.random() < 0.8 else rng.choice(NON_STRINGS)
            name = rng.choice(names) if rng.random() < 0.8 else rng.choice(NAMES + STANDARD_FORMATS)
            steps.append(("check", rng.choice(kinds_admitting(value) + ["parse-property"]), name, value))
    return steps


AMBIENT_FIXED = [
    # never registered, every escalating filter, every kind of element; then registered, then under the ordinary filters again
    [step for amb in ("error", "error-runtime", "error-warning-base", "error-library-modules")
     for step in [("ambient", amb), ("check", "String", "never-registered", "hello"), ("check", "Element", "never-registered", ""),
                  ("check", "parse-items", "never-registered", "hello"), ("check", "parse-property", "never-registered", "hello"),
                  ("check", "Element", "never-registered", 1), ("check", "String", "uuid", "not-a-uuid"),
                  ("check", "String", "uuid", "00000000-0000-0000-0000-000000000000")]]
    + [("register", "never-registered", "no"), ("check", "String", "never-registered", "hello"), ("register", "never-registered", "yes"),
       ("check", "String", "never-registered", "hello"), ("ambient", "always"), ("check", "String", "still-not-registered", "hello")],
    # the same place warns again and again under the filters that show a warning once
    [step for amb in ("once", "default", "module", "ignore", "ignore-runtime", "always", "error", "once")
     for step in [("ambient", amb), ("check", "String", "email", "abc"), ("check", "String", "email", "abc"), ("check", "parse-any", "uri", "abc")]],
    # filters that escalate something else
    [step for amb in ("error-other-categories", "error-other-modules", "error-overridden")
     for step in [("ambient", amb), ("check", "String", "email", "abc"), ("check", "parse-property", "email", "abc"), ("register", "email", "short"),
                  ("check", "String", "email", "abc"), ("check", "String", "email", "a"), ("check", "String", "ipv4", "a")]],
]


# ---- format names that some vocabulary gives a meaning to, and values at the magnitudes such meanings care about.  The statement
# ---- quantifies over ALL format names and ALL values: whatever a name means elsewhere, here it means "ask the register".

STANDARD_FORMATS = [
    # JSON Schema, drafts 3 to 2020-12
    "date-time", "date", "time", "duration", "email", "idn-email", "hostname", "idn-hostname", "ipv4", "ipv6", "uri", "uri-reference", "iri",
    "iri-reference", "uri-template", "json-pointer", "relative-json-pointer", "regex", "uuid", "color", "style", "phone", "utc-millisec",
    "host-name", "ip-address",
    # the OpenAPI format registry
    "int8", "int16", "int32", "int64", "uint8", "uint16", "uint32", "uint64", "float", "double", "decimal", "decimal128", "double-int", "byte",
    "binary", "base64url", "password", "char", "commonmark", "html", "http-date", "media-range", "unix-time", "sf-string", "sf-integer",
    "sf-decimal", "sf-boolean", "sf-token", "sf-binary",
]


def harvested_names():
    """Every short printable string literal (docstrings excepted) of the library's own source: a name the implementation treats
    specially has to be spelled somewhere in it."""
    import statham
    found = set()
    for folder, _, files in os.walk(os.path.dirname(os.path.abspath(statham.__file__))):
        for fname in files:
            if not fname.endswith(".py"):
                continue
            try:
                with open(os.path.join(folder, fname), encoding="utf8") as fh:
                    tree = ast.parse(fh.read())
            except (OSError, SyntaxError, ValueError):
                continue
            docs = set()
            for node in ast.walk(tree):
                body = getattr(node, "body", None) if isinstance(node, (ast.Module, ast.ClassDef, ast.FunctionDef, ast.AsyncFunctionDef)) else None
                if body and isinstance(body[0], ast.Expr) and isinstance(body[0].value, ast.Constant):
                    docs.add(id(body[0].value))
            for node in ast.walk(tree):
                if isinstance(node, ast.Constant) and isinstance(node.value, str) and id(node) not in docs:
                    if 0 < len(node.value) <= 24 and node.value.isprintable():
                        found.add(node.value)
    return sorted(found)


def magnitude_ladder():
    """Values that are not strings, in strata: numbers on both sides of every boundary a fixed-width reading of a number has (8
    to 128 bit integers, signed and unsigned; single and double precision floats), booleans and null, containers."""
    ints = [0, 1, -1, 10 ** 30, -10 ** 30, 10 ** 400]
    for k in (7, 8, 15, 16, 31, 32, 53, 63, 64, 127, 128):
        for v in (2 ** k - 1, 2 ** k, 2 ** k + 1):
            ints += [v, -v]
    floats = [0.5, -0.0, 0.1, 2.5, 1e-7, 1e-46, 5e-324, 16777217.0, 2.0 ** 31, -2.0 ** 31 - 1, 2.0 ** 63, -2.0 ** 64, 9007199254740993.0, 3.4028234663852886e38,
              3.5e38, -3.5e38, 1e39, -1e300, 1.7976931348623157e308, -1.7976931348623157e308]
    single = 3.4028234663852886e38
    return [
        (1, [v for v in ints if -2 ** 31 <= v < 2 ** 31]),
        (2, [v for v in ints if not -2 ** 31 <= v < 2 ** 31 and -2 ** 63 <= v < 2 ** 63]),
        (2, [v for v in ints if not -2 ** 63 <= v < 2 ** 63]),
        (1, [v for v in floats if abs(v) <= single]),
        (2, [v for v in floats if abs(v) > single]),
        (1, [True, False, None]),
        (1, [[], ["abc"], [2 ** 31], [[]], {}, {"a": "abc"}, {"abc": 2 ** 63}]),
    ]


SWEEP_STRINGS = ["2147483648", "-1", "9223372036854775808", "3.5e38", "0", "١٢"]


def sweep_history(rng, name, rounds):
    """One name through its registration states: as the process has it (unregistered, or a built-in entry), under a checker
    that accepts everything, under one that rejects everything, under a drawn one; in each state `rounds` times: one or two
    values of every stratum of values that are not strings and two strings, through a drawn kind of element among those whose
    type admits the value."""
    strata = magnitude_ladder() + [(2, STRINGS + SWEEP_STRINGS)]
    steps = []
    for pid in (None, "yes", "no", rng.choice(list(PREDICATES))):
        if pid is not None:
            steps.append(("register", name, pid))
        values = [rng.choice(vals) for _ in range(rounds) for weight, vals in strata for _ in range(weight)]
        rng.shuffle(values)
        steps += [("check", rng.choice(kinds_admitting(value)), name, value) for value in values]
    return steps


def run_vocabulary_sweep(drv, rng, out, stats, n_harvested, rounds, label="sweep"):
    harvested = [nm for nm in harvested_names() if nm not in STANDARD_FORMATS]
    stats["sweep-harvested-literals-available"] = len(harvested)
    picked = harvested if n_harvested is None or n_harvested >= len(harvested) else rng.sample(harvested, n_harvested)
    names = [("standard", nm) for nm in STANDARD_FORMATS] + [("harvested", nm) for nm in picked]
    rng.shuffle(names)
    for k, (source, name) in enumerate(names):
        steps = sweep_history(rng, name, rounds)
        stats["sweep-histories"] = stats.get("sweep-histories", 0) + 1
        stats["sweep-names-" + source] = stats.get("sweep-names-" + source, 0) + 1
        state = "as-found"
        for st in steps:
            if st[0] == "register":
                state = "under-" + st[2] if st[2] in ("yes", "no") else "under-drawn"
                continue
            value = st[3]
            what = ("string" if isinstance(value, str) else "bool" if isinstance(value, bool)
                    else ("int-beyond-64-bit" if not -2 ** 63 <= value < 2 ** 63 else "int-beyond-32-bit" if not -2 ** 31 <= value < 2 ** 31 else "int-small") if isinstance(value, int)
                    else ("float-beyond-single" if abs(value) > 3.4028234663852886e38 else "float") if isinstance(value, float) else json_type(value))
            for key in ("sweep-value-" + what, "sweep-kind-" + st[1].split(":")[0] + ("-own-type" if st[1] == "parse-type:" + json_type(value) else "-multi-type" if ":" in st[1] else ""),
                        "sweep-" + state + ("-string" if isinstance(value, str) else "-non-string")):
                stats[key] = stats.get(key, 0) + 1
        run_history(drv, steps, out, stats, f"{label}-{source}-{k}")


# ---- built-ins: canonical UUIDs and RFC 3339 timestamps from the grammars

def canonical_uuid(rng):
    k = rng.random()
    if k < 0.05:
        return "00000000-0000-0000-0000-000000000000"
    if k < 0.1:
        return "ffffffff-ffff-ffff-ffff-ffffffffffff"
    hexd = "0123456789abcdef"
    s = "".join(rng.choice(hexd) for _ in range(32))
    s = f"{s[:8]}-{s[8:12]}-{s[12:16]}-{s[16:20]}-{s[20:]}"
    m = rng.random()
    return s.upper() if m < 0.25 else "".join(c.upper() if rng.random() < 0.5 else c for c in s) if m < 0.4 else s


def rfc3339(rng):
    year = rng.choice([0, 1, 99, 100, 999, 1000, 1582, 1899, 1900, 1969, 1970, 1999, 2000, 2024, 2038, 2100, 9999, rng.randint(0, 9999)])
    month = rng.randint(1, 12)
    leap = year % 4 == 0 and (year % 100 != 0 or year % 400 == 0)
    dim = [31, 29 if leap else 28, 31, 30, 31, 30, 31, 31, 30, 31, 30, 31][month - 1]
    day = rng.choice([1, dim, rng.randint(1, dim)])
    hour, minute = rng.choice([0, 23, rng.randint(0, 23)]), rng.choice([0, 59, rng.randint(0, 59)])
    sec = rng.choice([0, 59, rng.randint(0, 59)])
    if rng.random() < 0.06:
        hour, minute, sec = 23, 59, 60          # leap second, allowed by the grammar
    frac = "" if rng.random() < 0.5 else "." + "".join(rng.choice("0123456789") for _ in range(rng.choice([1, 2, 3, 6, 9, 12])))
    t = "T" if rng.random() < 0.85 else "t"
    z = rng.random()
    if z < 0.4:
        off = "Z"
    elif z < 0.5:
        off = "z"
    else:
        off = rng.choice("+-") + f"{rng.choice([0, 23, rng.randint(0, 23)]):02d}:{rng.choice([0, 59, 30, rng.randint(0, 59)]):02d}"
    return f"{year:04d}-{month:02d}-{day:02d}{t}{hour:02d}:{minute:02d}:{sec:02d}{frac}{off}", {"year": year, "sec": sec}


def builtin_region(kind, text, info):
    if kind == "date-time":
        if info["sec"] == 60:
            return "C16-leap-second"
        if info["year"] == 0:
            return "C16-year-zero"
    return None


def check_builtins(rng, n, out, stats):
    els = {"uuid": [String(format="uuid"), parse_element({"type": "string", "format": "uuid"})],
           "date-time": [String(format="date-time"), parse_element({"format": "date-time"})]}
    for i in range(n):
        if i % 2 == 0:
            kind, text, info = "uuid", canonical_uuid(rng), {}
        else:
            kind = "date-time"
            text, info = rfc3339(rng)
        res = observe(els[kind][i // 2 % 2], text)
        out.note_case({"builtin": kind, "value": text}, True)
        stats[f"builtin-{kind}-{res}"] = stats.get(f"builtin-{kind}-{res}", 0) + 1
        if res != "accept":
            out.failures.append({"case": {"builtin": kind, "value": text}, "what": f"built-in {kind} format: {res} for {text!r}",
                                 "finding": builtin_region(kind, text, info)})


def run(ctx, scale=1.0):
    rng = random.Random(ctx["seed"] + 16)
    out = Outcome()
    out.rule = ("histories of 6-30 steps over 26 format names (case/Unicode variants, the built-in names) and 7 pure + 1 alternating checker: "
                "30% registrations (re-registrations included), 70% checks of 20 strings / 12 non-strings through String(format=), Element(format=), "
                "and parsed schemas; a case is one check with its history; non-trivial = a string checked under a name with a custom checker "
                "registered; plus canonical UUIDs (lower/upper/mixed, nil, max) and RFC 3339 timestamps from the grammar (years 0000-9999, leap "
                "seconds, fractions of 1-12 digits, T/t, Z/z, numeric offsets); plus histories of 4-16 steps whose checks overlap in time: checkers that, "
                "while running, validate a strictly shorter part of their input (tail / after the first dot / first half) or its length against "
                "their own name, another registered name, a built-in or an unregistered name (verdict combined by and / lazy and / ignored / "
                "passed through), and steps where one check is held inside its 1st-3rd checker call in a second thread while 1-4 checks are made "
                "from the first; every check made (nested and concurrent ones included) is judged by the same oracle; there a case is one check "
                "with its history, non-trivial = overlapping with another check and under a custom checker; plus a sweep of format names that mean "
                "something elsewhere (54 names of the JSON Schema drafts and the OpenAPI registry, and short string literals harvested from the "
                "library's own source), each through 4 registration states (as found / accept-all / reject-all / drawn checker) with 12 checks per "
                "state: 1-2 values of every stratum of non-strings (integers within 32 bits / within 64 bits / beyond, on both sides of the 8..128-bit "
                "boundaries; floats within / beyond single precision up to the double limits; booleans and null; containers) and 2 strings, through untyped elements, array items, and parsed schemas typed with the value's own "
                "type alone / with null / with another type (a rejection of a non-string counts when the same element without its format "
                "accepts the value); plus histories of 6-24 steps whose checks are made under changing warning filters (12% of the steps install one "
                f"of {len(AMBIENTS)} filter sets: everything / RuntimeWarning / Warning / the library's modules escalated to exceptions, other categories or "
                "modules escalated, an escalation overridden, ignored, default / once / module), over the names above and the standard ones, through every "
                "kind of element including array items and object properties; there non-trivial = a string checked under filters other than "
                "'always'; distinct by SHA-256")
    stats = {}
    drv = core.Driver()
    try:
        n = int(N_HIST[ctx["tier"]] * scale)
        for i in range(n):
            steps = random_history(rng, rng.randint(6, 30))
            run_history(drv, steps, out, stats, f"random-{i}")
        # fixed shapes: replace a built-in, replace twice, register after a miss, names differing by case
        fixed = [
            [("check", "String", "uuid", "not-a-uuid"), ("register", "uuid", "yes"), ("check", "String", "uuid", "not-a-uuid"),
             ("register", "uuid", "no"), ("check", "String", "uuid", "00000000-0000-0000-0000-000000000000")],
            [("check", "String", "custom", "abc"), ("register", "custom", "no"), ("check", "String", "custom", "abc"),
             ("register", "custom", "yes"), ("check", "String", "custom", "abc"), ("register", "custom", "no"), ("check", "String", "custom", "abc")],
            [("register", "custom", "no"), ("check", "String", "Custom", "abc"), ("check", "String", "CUSTOM", "abc"), ("check", "String", "custom", "abc")],
            [("register", "Custom", "no"), ("check", "Element", "custom", "abc"), ("check", "Element", "Custom", "abc")],
            [("register", "custom", "flip"), ("check", "String", "custom", "abc"), ("check", "String", "custom", "abc"), ("check", "String", "custom", "abc")],
            [("register", "custom", "no"), ("check", "Element", "custom", 1), ("check", "parse-any", "custom", None), ("check", "Element", "custom", ["abc"])],
            [("register", "", "no"), ("check", "String", "", "abc"), ("check", "String", " ", "abc")],
        ]
        for k, steps in enumerate(fixed):
            run_history(drv, steps, out, stats, f"fixed-{k}")
        # histories whose first actions happen in an interpreter where nothing has been looked up yet
        fresh = [
            [("register", "uuid", "no"), ("check", "String", "never-registered", "x"), ("check", "String", "uuid", "00000000-0000-0000-0000-000000000000"),
             ("check", "String", "date-time", "2020-01-01T00:00:00Z")],
            [("register", "date-time", "yes"), ("check", "Element", "unknown", "x"), ("check", "String", "date-time", "not a date"),
             ("check", "String", "uuid", "not-a-uuid")],
            [("check", "String", "uuid", "not-a-uuid"), ("register", "uuid", "yes"), ("check", "String", "other", "x"), ("check", "String", "uuid", "not-a-uuid")],
            [("register", "custom", "no"), ("check", "String", "custom", "abc"), ("check", "String", "uuid", "00000000-0000-0000-0000-000000000000")],
            # the first look-up the process ever makes happens under escalating filters
            [("ambient", "error"), ("check", "String", "never-registered", "x"), ("check", "String", "uuid", "not-a-uuid"), ("ambient", "always"),
             ("check", "String", "never-registered", "x"), ("ambient", "once"), ("check", "parse-property", "never-registered", "x")],
        ]
        for k, steps in enumerate(fresh):
            fresh_process_history(steps, out, stats, f"fresh-{k}")
        for k in range(int((3 if ctx["tier"] == "quick" else 60) * scale)):
            steps = random_history(rng, rng.randint(4, 10))
            fresh_process_history([("register", rng.choice(["uuid", "date-time"]), rng.choice(["yes", "no", "digits"]))] + steps, out, stats, f"fresh-random-{k}")
        check_builtins(rng, int((4000 if ctx["tier"] == "quick" else 200000) * scale), out, stats)
        # checks that begin while another check is in flight (nesting checkers, a second thread)
        for k, steps in enumerate(OVERLAP_FIXED):
            run_overlap_history(steps, out, stats, f"overlap-fixed-{k}")
        for k in range(int(N_OVERLAP[ctx["tier"]] * scale)):
            run_overlap_history(random_overlap_history(rng, rng.randint(3, 14)), out, stats, f"overlap-random-{k}")
        # the same histories under every way the process may treat warnings
        for k, steps in enumerate(AMBIENT_FIXED):
            run_history(drv, steps, out, stats, f"ambient-fixed-{k}")
        for k in range(int(N_AMBIENT[ctx["tier"]] * scale)):
            run_history(drv, random_ambient_history(rng, rng.randint(6, 24)), out, stats, f"ambient-random-{k}")
            stats["ambient-histories"] = stats.get("ambient-histories", 0) + 1
        # every name some vocabulary gives a meaning to, through its registration states, on values at the magnitude boundaries
        run_vocabulary_sweep(drv, rng, out, stats, int(SWEEP_HARVESTED[ctx["tier"]] * scale) if SWEEP_HARVESTED[ctx["tier"]] else None,
                             SWEEP_ROUNDS[ctx["tier"]])
    finally:
        drv.close()
    out.stats = stats
    return out


def search(ctx, reason):
    sub = dict(ctx)
    sub["seed"] = ctx["seed"] + 49979687
    # a broken table / signature / correspondence says the implementation reads the format keyword (or a name, or a value type)
    # differently than the model: first the whole vocabulary (every harvested literal) at a larger budget, then everything again
    rng = random.Random(sub["seed"] + 16)
    first, drv = Outcome(), core.Driver()
    try:
        run_vocabulary_sweep(drv, rng, first, {}, None, 2, label="search-sweep")
    finally:
        drv.close()
    new = [f for f in first.failures if f.get("finding") is None]
    if new:
        return new[0]
    found = run(sub, scale=2.0 if ctx["tier"] == "quick" else 1.0)
    new = [f for f in found.failures if f.get("finding") is None]
    return new[0] if new else (found.failures[0] if found.failures else None)


def _replay_case(case):
    out, stats = Outcome(), {}
    if "builtin" in case:
        res = observe(String(format=case["builtin"]), case["value"])
        return res != "accept"
    if case.get("overlap"):
        run_overlap_history([tuple(s) for s in case["steps"]], out, stats, case.get("label", "replay"))
        return bool(out.failures)
    if case.get("fresh_process"):
        fresh_process_history([tuple(s) for s in case["steps"]], out, stats, case.get("label", "replay"))
        return bool(out.failures)
    drv = core.Driver()
    try:
        run_history(drv, [tuple(s) for s in case["steps"]], out, stats, case.get("label", "replay"))
    finally:
        drv.close()
    return bool(out.failures)


def replay_finding(finding):
    return _replay_case(finding["witness"])


def replay(payload):
    case = payload.get("failure", {}).get("case")
    return True if not case else not _replay_case(case)
