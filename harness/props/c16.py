"""C16 — format checking consults exactly the registered checker.

Correspondence: registration/check histories run on the real process-wide registry (saved and
restored around every history) and on the Lean model (`runReg`): the stream of outcomes
(accept / accept-with-warning / reject) must be identical.  Checks go through `String(format=…)`,
`Element(format=…)`, and parsed schemas.  The built-in entries are modelled by their definition
(`uuid.UUID(value)` / `dateutil.parser.parse(value)` does not raise), computed by the harness
directly from the libraries.

Oracle (independent of the model): every checker logs its calls; a string is rejected exactly when
the checker registered *now* under that name was called with that string and returned false; an
unregistered name warns and accepts; non-strings are never handed to a checker.
Built-in clause (exploration, not proof: the parsers are external libraries): canonical UUIDs and
RFC 3339 timestamps produced from the grammars must be accepted."""
import random
import uuid as uuidlib
import warnings

from statham.schema.elements import Element, String
from statham.schema.exceptions import ValidationError
from statham.schema.parser import parse_element
from statham.schema.validation.format import format_checker

from harness import core
from harness.framework import Outcome

ID = "C16"
TIE_MODULES = ["StathamModel.Tie"]
ASSUMPTIONS = ["checkers are total predicates returning bool (a checker that raises propagates its exception: outside the property)",
               "the built-in uuid / date-time checkers are external library calls: their clause is explored from the grammars, not proved"]
N_HIST = {"quick": 400, "thorough": 15000}

NAMES = ["custom", "Custom", "CUSTOM", "email", "e-mail", "", " ", "uuid", "UUID", "Uuid", "date-time", "Date-Time", "date_time", "datetime",
         "uuid ", "ipv4", "x" * 40, "é", "É", "ß", "SS", "ss", "ſ", "K", "K", "k",
         # names that mean something to a formatting / templating layer
         "x-{tenant}-id", "{}", "{0}", "set{", "}", "%s", "%(a)s", "$x", "back\\slash", "quo'te", 'dq"', "new\nline"]
STRINGS = ["", "a", "ab", "abc", "A", "123", "12", "a1", "Abc", "  ", "é", "00000000-0000-0000-0000-000000000000", "2020-01-01T00:00:00Z",
           "not-a-uuid", "2020-13-01T00:00:00Z", "12345678123456781234567812345678", "x" * 50, "\n", "1e5", "true"]
NON_STRINGS = [0, 1, -1, 2.5, True, False, None, [], ["a"], {}, {"a": "b"}, 10 ** 30]

PREDICATES = {
    "yes": lambda s: True,
    "no": lambda s: False,
    "starts-a": lambda s: s.startswith("a"),
    "short": lambda s: len(s) < 3,
    "digits": lambda s: s.isdigit(),
    "upper": lambda s: s[:1].isupper(),
    "nonempty": lambda s: s != "",
}


def lib_uuid(s):
    try:
        uuidlib.UUID(s)
    except (ValueError, TypeError):
        return False
    return True


def lib_datetime(s):
    from dateutil.parser import parse, ParserError
    try:
        parse(s)
    except (ParserError, TypeError, OverflowError):
        return False
    return True


class Logged:
    """A checker that logs every call it receives."""

    def __init__(self, ident, fn, log):
        self.ident, self.fn, self.log = ident, fn, log

    def __call__(self, value):
        res = self.fn(value)
        self.log.append((self.ident, value, res))
        return res


def logged_closure(ident, fn, log):
    """The same as `Logged`, written as a plain function made by a factory: every checker made here shares one code object
    and differs only in what it closes over (how `functools`-free user code usually parametrises checkers)."""
    def checker(value):
        res = fn(value)
        log.append((ident, value, res))
        return res
    return checker


class Flip:
    """Impure checker: alternates its verdict (detects cached verdicts)."""

    def __init__(self):
        self.n = 0

    def __call__(self, value):
        self.n += 1
        return self.n % 2 == 1


def observe(el, value):
    with warnings.catch_warnings(record=True) as caught:
        warnings.simplefilter("always")
        try:
            el(value)
            res = "accept"
        except ValidationError:
            res = "reject"
        except Exception as exc:  # noqa: BLE001
            res = "exc:" + type(exc).__name__
    warned = [w for w in caught if issubclass(w.category, RuntimeWarning) and "No validator found for format string" in str(w.message)]
    if res == "accept" and warned:
        res = "accept-warn"
    return res


def make_element(kind, name):
    if kind == "String":
        return String(format=name)
    if kind == "Element":
        return Element(format=name)
    if kind == "parse-string":
        return parse_element({"type": "string", "format": name})
    return parse_element({"format": name})


def run_history(drv, steps, out, stats, label):
    """steps: list of ("register", name, pred_id | "flip") / ("check", kind, name, value)."""
    reg = format_checker._callable_register  # pylint: disable=protected-access
    saved = dict(reg)
    log = []
    try:
        initial_names = list(reg)
        current = {}          # name -> (ident, callable) as the oracle tracks it
        table_strings = set(STRINGS)
        for st in steps:
            if st[0] == "check" and isinstance(st[3], str):
                table_strings.add(st[3])
        checkers = {}
        for nm in initial_names:
            fn = {"uuid": lib_uuid, "date-time": lib_datetime}.get(nm, reg[nm])
            checkers["builtin:" + nm] = [[s, bool(fn(s))] for s in sorted(table_strings)]
            current[nm] = ("builtin:" + nm, None)
        for pid, fn in PREDICATES.items():
            checkers[pid] = [[s, bool(fn(s))] for s in sorted(table_strings)]
        model_ops, real_outs, pure = [], [], True
        case = {"label": label, "steps": [list(s) for s in steps]}
        for idx, st in enumerate(steps):
            if st[0] == "register":
                _, name, pid = st
                if pid == "flip":
                    pure = False
                    fn = Flip()
                else:
                    fn = PREDICATES[pid]
                ident = f"{pid}#{idx}"
                format_checker.register(name)(Logged(ident, fn, log) if idx % 2 else logged_closure(ident, fn, log))
                current[name] = (ident, fn)
                model_ops.append({"register": name, "checker": pid})
                stats["register"] = stats.get("register", 0) + 1
                stats["re-register"] = stats.get("re-register", 0) + (1 if name in initial_names or any(s[0] == "register" and s[1] == name for s in steps[:idx]) else 0)
                continue
            _, kind, name, value = st
            el = make_element(kind, name)
            before = len(log)
            res = observe(el, value)
            calls = log[before:]
            real_outs.append(res)
            model_ops.append({"check": name, "value": core.enc_val(value)})
            nontrivial = isinstance(value, str) and name in current and current[name][1] is not None
            out.note_case({"step": idx, **case}, nontrivial)
            stats[res] = stats.get(res, 0) + 1
            # --- the oracle
            where = {"case": case, "at_step": idx}
            if not isinstance(value, str):
                stats["non-string"] = stats.get("non-string", 0) + 1
                if kind in ("Element", "parse-any") and res != "accept":
                    out.failures.append({**where, "what": f"non-string {value!r} under format {name!r}: {res}", "finding": None})
                if calls:
                    out.failures.append({**where, "what": f"non-string {value!r} was handed to a checker", "finding": None})
                continue
            if name not in current:
                stats["unregistered"] = stats.get("unregistered", 0) + 1
                if res != "accept-warn":
                    out.failures.append({**where, "what": f"unregistered format {name!r} on {value!r}: {res} (expected acceptance with a warning)", "finding": None})
                if calls:
                    out.failures.append({**where, "what": f"unregistered format {name!r} consulted checker {calls[0][0]}", "finding": None})
                continue
            ident, fn = current[name]
            if fn is None:      # built-in entry: decided by the library definition
                want = "accept" if {"uuid": lib_uuid, "date-time": lib_datetime}.get(name, saved.get(name))(value) else "reject"
                if res != want:
                    out.failures.append({**where, "what": f"built-in {name!r} on {value!r}: {res}, the library definition says {want}", "finding": None})
                continue
            stats["registered-custom"] = stats.get("registered-custom", 0) + 1
            if len(calls) != 1 or calls[0][0] != ident or calls[0][1] != value:
                out.failures.append({**where, "what": f"format {name!r} on {value!r}: expected exactly one call to the current checker {ident}, saw {[(c[0], c[1]) for c in calls]}", "finding": None})
                continue
            want = "accept" if calls[0][2] else "reject"
            if res != want:
                out.failures.append({**where, "what": f"checker {ident} returned {calls[0][2]} for {value!r} but the verdict is {res}", "finding": None})
        # --- the model, on histories with pure checkers only
        if pure and drv is not None:
            rep = drv.ask({"op": "format_history", "checkers": [[k, v] for k, v in checkers.items()],
                           "initial": [[nm, "builtin:" + nm] for nm in initial_names], "ops": model_ops})
            if "error" in rep:
                stats["driver-error"] = stats.get("driver-error", 0) + 1
            else:
                out.traces_validated += 1
                if rep["outs"] != real_outs:
                    first = next((i for i, (a, b) in enumerate(zip(rep["outs"], real_outs)) if a != b), None)
                    out.disagreements.append({"what": "outcome stream of a registration history", "first_difference_at_check": first,
                                              "impl": real_outs, "model": rep["outs"], **case})
    finally:
        reg.clear()
        reg.update(saved)


def fresh_process_history(steps, out, stats, label):
    """Run one history in a fresh interpreter (nothing has been looked up or registered there yet) and collect what
    its oracle says."""
    import json
    import os
    import subprocess
    import sys
    env = dict(os.environ)
    env["PYTHONPATH"] = os.path.dirname(os.path.dirname(os.path.dirname(os.path.abspath(__file__)))) + ":" + os.environ.get("STATHAM_REPO", "/repo")
    code = ("import json,sys\n"
            "from harness.framework import Outcome\n"
            "from harness.props import c16\n"
            "steps=[tuple(s) for s in json.load(sys.stdin)]\n"
            "out,stats=Outcome(),{}\n"
            "c16.run_history(None, steps, out, stats, 'fresh-process')\n"
            "json.dump({'failures': out.failures, 'stats': stats}, sys.stdout, default=str)\n")
    proc = subprocess.run([sys.executable, "-c", code], input=json.dumps([list(s) for s in steps]), capture_output=True, text=True,
                          env=env, timeout=300, check=False)
    stats["fresh-processes"] = stats.get("fresh-processes", 0) + 1
    if proc.returncode != 0:
        stats["fresh-process-error"] = stats.get("fresh-process-error", 0) + 1
        return
    rep = json.loads(proc.stdout)
    out.note_case({"label": label, "steps": [list(s) for s in steps], "fresh_process": True}, True)
    for f in rep["failures"]:
        f["case"]["fresh_process"] = True
        out.failures.append(f)


def random_history(rng, n_steps):
    names = rng.sample(NAMES, rng.randint(2, 5))
    steps = []
    for _ in range(n_steps):
        r = rng.random()
        if r < 0.3:
            steps.append(("register", rng.choice(names), rng.choice(list(PREDICATES) + (["flip"] if rng.random() < 0.3 else []))))
        else:
            value = rng.choice(STRINGS) if rng.random() < 0.75 else rng.choice(NON_STRINGS)
            name = rng.choice(names) if rng.random() < 0.85 else rng.choice(NAMES)
            # a typed element rejects non-strings on account of the type, not the format: use untyped ones for those
            kinds = ["String", "Element", "parse-string", "parse-any"] if isinstance(value, str) else ["Element", "parse-any"]
            steps.append(("check", rng.choice(kinds), name, value))
    return steps


# ---- built-ins: canonical UUIDs and RFC 3339 timestamps from the grammars

def canonical_uuid(rng):
    k = rng.random()
    if k < 0.05:
        return "00000000-0000-0000-0000-000000000000"
    if k < 0.1:
        return "ffffffff-ffff-ffff-ffff-ffffffffffff"
    hexd = "0123456789abcdef"
    s = "".join(rng.choice(hexd) for _ in range(32))
    s = f"{s[:8]}-{s[8:12]}-{s[12:16]}-{s[16:20]}-{s[20:]}"
    m = rng.random()
    return s.upper() if m < 0.25 else "".join(c.upper() if rng.random() < 0.5 else c for c in s) if m < 0.4 else s


def rfc3339(rng):
    year = rng.choice([0, 1, 99, 100, 999, 1000, 1582, 1899, 1900, 1969, 1970, 1999, 2000, 2024, 2038, 2100, 9999, rng.randint(0, 9999)])
    month = rng.randint(1, 12)
    leap = year % 4 == 0 and (year % 100 != 0 or year % 400 == 0)
    dim = [31, 29 if leap else 28, 31, 30, 31, 30, 31, 31, 30, 31, 30, 31][month - 1]
    day = rng.choice([1, dim, rng.randint(1, dim)])
    hour, minute = rng.choice([0, 23, rng.randint(0, 23)]), rng.choice([0, 59, rng.randint(0, 59)])
    sec = rng.choice([0, 59, rng.randint(0, 59)])
    if rng.random() < 0.06:
        hour, minute, sec = 23, 59, 60          # leap second, allowed by the grammar
    frac = "" if rng.random() < 0.5 else "." + "".join(rng.choice("0123456789") for _ in range(rng.choice([1, 2, 3, 6, 9, 12])))
    t = "T" if rng.random() < 0.85 else "t"
    z = rng.random()
    if z < 0.4:
        off = "Z"
    elif z < 0.5:
        off = "z"
    else:
        off = rng.choice("+-") + f"{rng.choice([0, 23, rng.randint(0, 23)]):02d}:{rng.choice([0, 59, 30, rng.randint(0, 59)]):02d}"
    return f"{year:04d}-{month:02d}-{day:02d}{t}{hour:02d}:{minute:02d}:{sec:02d}{frac}{off}", {"year": year, "sec": sec}


def builtin_region(kind, text, info):
    if kind == "date-time":
        if info["sec"] == 60:
            return "C16-leap-second"
        if info["year"] == 0:
            return "C16-year-zero"
    return None


def check_builtins(rng, n, out, stats):
    els = {"uuid": [String(format="uuid"), parse_element({"type": "string", "format": "uuid"})],
           "date-time": [String(format="date-time"), parse_element({"format": "date-time"})]}
    for i in range(n):
        if i % 2 == 0:
            kind, text, info = "uuid", canonical_uuid(rng), {}
        else:
            kind = "date-time"
            text, info = rfc3339(rng)
        res = observe(els[kind][i // 2 % 2], text)
        out.note_case({"builtin": kind, "value": text}, True)
        stats[f"builtin-{kind}-{res}"] = stats.get(f"builtin-{kind}-{res}", 0) + 1
        if res != "accept":
            out.failures.append({"case": {"builtin": kind, "value": text}, "what": f"built-in {kind} format: {res} for {text!r}",
                                 "finding": builtin_region(kind, text, info)})


def run(ctx, scale=1.0):
    rng = random.Random(ctx["seed"] + 16)
    out = Outcome()
    out.rule = ("histories of 6-30 steps over 26 format names (case/Unicode variants, the built-in names) and 7 pure + 1 alternating checker: "
                "30% registrations (re-registrations included), 70% checks of 20 strings / 12 non-strings through String(format=), Element(format=), "
                "and parsed schemas; a case is one check with its history; non-trivial = a string checked under a name with a custom checker "
                "registered; plus canonical UUIDs (lower/upper/mixed, nil, max) and RFC 3339 timestamps from the grammar (years 0000-9999, leap "
                "seconds, fractions of 1-12 digits, T/t, Z/z, numeric offsets); distinct by SHA-256")
    stats = {}
    drv = core.Driver()
    try:
        n = int(N_HIST[ctx["tier"]] * scale)
        for i in range(n):
            steps = random_history(rng, rng.randint(6, 30))
            run_history(drv, steps, out, stats, f"random-{i}")
        # fixed shapes: replace a built-in, replace twice, register after a miss, names differing by case
        fixed = [
            [("check", "String", "uuid", "not-a-uuid"), ("register", "uuid", "yes"), ("check", "String", "uuid", "not-a-uuid"),
             ("register", "uuid", "no"), ("check", "String", "uuid", "00000000-0000-0000-0000-000000000000")],
            [("check", "String", "custom", "abc"), ("register", "custom", "no"), ("check", "String", "custom", "abc"),
             ("register", "custom", "yes"), ("check", "String", "custom", "abc"), ("register", "custom", "no"), ("check", "String", "custom", "abc")],
            [("register", "custom", "no"), ("check", "String", "Custom", "abc"), ("check", "String", "CUSTOM", "abc"), ("check", "String", "custom", "abc")],
            [("register", "Custom", "no"), ("check", "Element", "custom", "abc"), ("check", "Element", "Custom", "abc")],
            [("register", "custom", "flip"), ("check", "String", "custom", "abc"), ("check", "String", "custom", "abc"), ("check", "String", "custom", "abc")],
            [("register", "custom", "no"), ("check", "Element", "custom", 1), ("check", "parse-any", "custom", None), ("check", "Element", "custom", ["abc"])],
            [("register", "", "no"), ("check", "String", "", "abc"), ("check", "String", " ", "abc")],
        ]
        for k, steps in enumerate(fixed):
            run_history(drv, steps, out, stats, f"fixed-{k}")
        # histories whose first actions happen in an interpreter where nothing has been looked up yet
        fresh = [
            [("register", "uuid", "no"), ("check", "String", "never-registered", "x"), ("check", "String", "uuid", "00000000-0000-0000-0000-000000000000"),
             ("check", "String", "date-time", "2020-01-01T00:00:00Z")],
            [("register", "date-time", "yes"), ("check", "Element", "unknown", "x"), ("check", "String", "date-time", "not a date"),
             ("check", "String", "uuid", "not-a-uuid")],
            [("check", "String", "uuid", "not-a-uuid"), ("register", "uuid", "yes"), ("check", "String", "other", "x"), ("check", "String", "uuid", "not-a-uuid")],
            [("register", "custom", "no"), ("check", "String", "custom", "abc"), ("check", "String", "uuid", "00000000-0000-0000-0000-000000000000")],
        ]
        for k, steps in enumerate(fresh):
            fresh_process_history(steps, out, stats, f"fresh-{k}")
        for k in range(int((3 if ctx["tier"] == "quick" else 60) * scale)):
            steps = random_history(rng, rng.randint(4, 10))
            fresh_process_history([("register", rng.choice(["uuid", "date-time"]), rng.choice(["yes", "no", "digits"]))] + steps, out, stats, f"fresh-random-{k}")
        check_builtins(rng, int((4000 if ctx["tier"] == "quick" else 200000) * scale), out, stats)
    finally:
        drv.close()
    out.stats = stats
    return out


def search(ctx, reason):
    sub = dict(ctx)
    sub["seed"] = ctx["seed"] + 49979687
    found = run(sub, scale=2.0 if ctx["tier"] == "quick" else 1.0)
    new = [f for f in found.failures if f.get("finding") is None]
    return new[0] if new else (found.failures[0] if found.failures else None)


def _replay_case(case):
    out, stats = Outcome(), {}
    if "builtin" in case:
        res = observe(String(format=case["builtin"]), case["value"])
        return res != "accept"
    if case.get("fresh_process"):
        fresh_process_history([tuple(s) for s in case["steps"]], out, stats, case.get("label", "replay"))
        return bool(out.failures)
    drv = core.Driver()
    try:
        run_history(drv, [tuple(s) for s in case["steps"]], out, stats, case.get("label", "replay"))
    finally:
        drv.close()
    return bool(out.failures)


def replay_finding(finding):
    return _replay_case(finding["witness"])


def replay(payload):
    case = payload.get("failure", {}).get("case")
    return True if not case else not _replay_case(case)
